#!/usr/bin/env python3
"""Regenerates MANIFEST.json from tools/manifest_data.py (kept valid at all times)."""
import json, os, sys
HERE = os.path.dirname(os.path.dirname(os.path.abspath(__file__)))
sys.path.insert(0, os.path.join(HERE, 'tools'))
from manifest_data import CHECKS, NOT_APPLICABLE
props = [json.loads(l) for l in open(os.path.join(HERE, 'properties.jsonl'))]
ids = [p['id'] for p in props]
checks = []
for pid in ids:
    if pid not in CHECKS:
        continue
    c = CHECKS[pid]
    checks.append({
        'property_id': pid,
        'quick_cmd': f'./.venv/bin/python -m symx.check {pid} --tier quick',
        'thorough_cmd': f'./.venv/bin/python -m symx.check {pid} --tier thorough',
        'evidence_file': f'evidence/{pid}.json',
        'replay_cmd_template': './.venv/bin/python -m symx.replay {path}',
        'engine': 'symx',
        'level_claimed': {'category': 'other', 'text': c['text'], 'design_ref': c.get('design_ref', f'DESIGN.md §4 {pid}')},
        'level_note': c['note'],
        'technique': c.get('technique', 'bounded symbolic execution of the real Python code on z3-term proxies + SMT (z3) per path obligation; counterexamples replayed on the real code'),
    })
na = [{'property_id': pid, 'reason': NOT_APPLICABLE.get(pid, 'no check registered yet in this revision: harness under construction (see DESIGN.md §4 for the plan)')} for pid in ids if pid not in CHECKS]
man = {
    'version': 1,
    'setup_cmd': './setup.sh',
    'hooks': {'guard': 'GEOPHIRES_X_VERIF', 'enable': 'no hooks: harnesses import the real modules from /repo/src in-process and call them directly',
              'baseline_off_cmd': 'cd /repo && /venv/bin/python -m pytest -ra -q -p no:cacheprovider --timeout=900 --continue-on-collection-errors',
              'source_commits': [], 'add_only': True},
    'engines': [{'name': 'symx', 'path': 'symx/', 'serves_properties': [c['property_id'] for c in checks],
                 'kind_free_text': 'purpose-built symbolic executor: runs the unmodified functions imported from /repo/src on proxy values that build z3 terms, explores all paths by re-execution, one SMT query per (path, obligation); sat models are replayed on the real code in floats'}],
    'checks': checks,
    'notes': 'exit codes: 0 held, 1 VIOLATION (replayed counterexample), 3 harness error (never a violation claim). known_findings.json lists fixed/known findings.',
    'not_applicable': na,
}
json.dump(man, open(os.path.join(HERE, 'MANIFEST.json'), 'w'), indent=1)
print('checks:', [c['property_id'] for c in checks], 'n/a:', [n['property_id'] for n in na])
