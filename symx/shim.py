"""Environment shims installed by shadowing names in the namespace of the module under test."""
from __future__ import annotations

import builtins
import contextlib
import math as _math

import numpy as _np
import z3

from . import core
from .core import SymReal, SymBool, SymArray, lift, ctx, apply_uf, has_sym, is_sym


# --------------------------------------------------------------------------------------------------
# shadowing
# --------------------------------------------------------------------------------------------------
@contextlib.contextmanager
def shadow(*bindings):
    """bindings: (module, name, value).  Rebinds module.name for the duration of the block."""
    saved = []
    missing = object()
    try:
        for mod, name, val in bindings:
            saved.append((mod, name, mod.__dict__.get(name, missing)))
            setattr(mod, name, val)
        yield
    finally:
        for mod, name, old in reversed(saved):
            if old is missing:
                try:
                    delattr(mod, name)
                except AttributeError:
                    pass
            else:
                setattr(mod, name, old)


# --------------------------------------------------------------------------------------------------
# float / int shadows (classes, so isinstance(x, float) keeps working in the code under test)
# --------------------------------------------------------------------------------------------------
class _FloatMeta(type):
    def __call__(cls, x=0.0):
        if isinstance(x, SymReal):
            return x
        if isinstance(x, SymBool):
            return SymReal(lift(x))
        if isinstance(x, str):
            tk = core.unmark(x) if core.CTX is not None else None
            if tk is not None:
                return parse_token(tk)
        return builtins.float(x)

    def __instancecheck__(cls, inst):
        return isinstance(inst, builtins.float)


class FloatShadow(metaclass=_FloatMeta):
    pass


class _IntMeta(type):
    def __call__(cls, x=0, *a):
        if isinstance(x, SymReal):
            return x.__trunc__()
        if isinstance(x, str) and not a:
            tk = core.unmark(x) if core.CTX is not None else None
            if tk is not None:
                return parse_token(tk)
        return builtins.int(x, *a)

    def __instancecheck__(cls, inst):
        return isinstance(inst, builtins.int)


class IntShadow(metaclass=_IntMeta):
    pass


_RND = {}


def parse_token(tk):
    """float(text) of a rendered proxy: rnd_spec(term).  `repr`/`str` round-trip exactly."""
    term, spec = tk
    if spec in ('repr', 'str', ''):
        return SymReal(term)
    if spec not in _RND:
        _RND[spec] = z3.Function('rnd_' + ''.join(ch if ch.isalnum() else '_' for ch in spec) + f'_{len(_RND)}', core.R, core.R)
    return SymReal(_RND[spec](term))


def sround(x, nd=None):
    if isinstance(x, SymReal):
        f = core.uf('round%s' % ('' if nd is None else nd), 1)
        return SymReal(f(x.t))
    return builtins.round(x) if nd is None else builtins.round(x, nd)


def smax(*a, **k):
    if len(a) == 1:
        xs = list(a[0])
    else:
        xs = list(a)
    if not any(is_sym(x) for x in xs):
        return builtins.max(*a, **k)
    return core.smax(xs)


def smin(*a, **k):
    if len(a) == 1:
        xs = list(a[0])
    else:
        xs = list(a)
    if not any(is_sym(x) for x in xs):
        return builtins.min(*a, **k)
    return core.smin(xs)


def sabs(x):
    return abs(x)


# --------------------------------------------------------------------------------------------------
# math shim
# --------------------------------------------------------------------------------------------------
class MathShim:
    def __getattr__(self, k):
        return getattr(_math, k)

    @staticmethod
    def isnan(x):
        if isinstance(x, SymReal):
            return False
        return _math.isnan(x)

    @staticmethod
    def isinf(x):
        if isinstance(x, SymReal):
            return False
        return _math.isinf(x)

    @staticmethod
    def fabs(x):
        return abs(x) if isinstance(x, SymReal) else _math.fabs(x)

    @staticmethod
    def log(x, *b):
        if b:
            return apply_uf('log', x) / apply_uf('log', b[0])
        return apply_uf('log', x)

    @staticmethod
    def exp(x):
        return apply_uf('exp', x)

    @staticmethod
    def sqrt(x):
        return apply_uf('sqrt', x)

    @staticmethod
    def sin(x):
        return apply_uf('sin', x)

    @staticmethod
    def cos(x):
        return apply_uf('cos', x)

    @staticmethod
    def erf(x):
        return apply_uf('erf', x)

    @staticmethod
    def erfc(x):
        return apply_uf('erfc', x)

    @staticmethod
    def log10(x):
        return apply_uf('log10', x)

    @staticmethod
    def pow(x, y):
        if isinstance(x, SymReal):
            return x ** y
        if isinstance(y, SymReal):
            return x ** y
        return _math.pow(x, y)

    @staticmethod
    def ceil(x):
        return x.ceil() if isinstance(x, SymReal) else _math.ceil(x)

    @staticmethod
    def floor(x):
        return x.floor() if isinstance(x, SymReal) else _math.floor(x)


MATH = MathShim()


# --------------------------------------------------------------------------------------------------
# numpy shim
# --------------------------------------------------------------------------------------------------
def _obj(a):
    if isinstance(a, SymArray):
        return a
    r = _np.empty(len(a), dtype=object)
    for i, x in enumerate(a):
        r[i] = x
    return r.view(SymArray)


class NPShim:
    """passthrough to numpy except where proxies need help."""

    def __getattr__(self, k):
        return getattr(_np, k)

    # allocation: object dtype so proxies can be stored
    def zeros(self, shape, dtype=None, *a, **k):
        if core.CTX is None or dtype not in (None, float, _np.float64):
            return _np.zeros(shape, dtype, *a, **k)
        r = _np.empty(shape, dtype=object)
        r[...] = 0.0
        return r.view(SymArray)

    def ones(self, shape, dtype=None, *a, **k):
        if core.CTX is None or dtype not in (None, float, _np.float64):
            return _np.ones(shape, dtype, *a, **k)
        r = _np.empty(shape, dtype=object)
        r[...] = 1.0
        return r.view(SymArray)

    def empty(self, shape, dtype=None, *a, **k):
        return self.zeros(shape, dtype, *a, **k)

    def full(self, shape, v, *a, **k):
        if core.CTX is None:
            return _np.full(shape, v, *a, **k)
        r = _np.empty(shape, dtype=object)
        r[...] = v
        return r.view(SymArray)

    def array(self, obj, *a, **k):
        if has_sym(obj) and not isinstance(obj, _np.ndarray):
            try:
                return _obj(list(obj))
            except TypeError:
                pass
        if has_sym(obj) and isinstance(obj, _np.ndarray) and (a or k.get('dtype') in (float, _np.float64)):
            return _obj(list(obj))        # a float copy of a series of proxies stays a series of proxies
        return _np.array(obj, *a, **k)

    def asarray(self, obj, *a, **k):
        if has_sym(obj):
            return obj if isinstance(obj, SymArray) and not (a or k) else _obj(list(obj))
        return _np.asarray(obj, *a, **k)

    def asfarray(self, obj, *a, **k):
        return self.asarray(obj)

    def any(self, a, *x, **k):
        if not x and not k and any(isinstance(e, SymBool) for e in _np.ravel(a)):
            return core.sor(*list(_np.ravel(a)))
        return _np.any(a, *x, **k)

    def all(self, a, *x, **k):
        if not x and not k and any(isinstance(e, SymBool) for e in _np.ravel(a)):
            return core.sand(*list(_np.ravel(a)))
        return _np.all(a, *x, **k)

    def max(self, a, *x, **k):
        if isinstance(a, SymReal):
            return a
        if has_sym(a):
            return _obj(a).max()
        return _np.max(a, *x, **k)

    def min(self, a, *x, **k):
        if isinstance(a, SymReal):
            return a
        if has_sym(a):
            return _obj(a).min()
        return _np.min(a, *x, **k)

    amax = max
    amin = min

    def average(self, a, *x, **k):
        if isinstance(a, SymReal):
            return a
        if has_sym(a) and not x and not k:
            a = _obj(a)
            return sum(a[1:], a[0]) / len(a)
        return _np.average(a, *x, **k)

    def mean(self, a, *x, **k):
        return self.average(a, *x, **k)

    def sum(self, a, *x, **k):
        if has_sym(a) and not x and not k:
            a = list(a)
            return sum(a[1:], a[0])
        return _np.sum(a, *x, **k)

    def abs(self, a):
        if isinstance(a, SymReal):
            return abs(a)
        return _np.abs(a)

    absolute = abs

    def _uf1(name):
        def f(self, a, *x, **k):
            if isinstance(a, SymReal):
                return apply_uf(name, a)
            if has_sym(a):
                return _obj([apply_uf(name, e) if isinstance(e, SymReal) else core.UF_CONCRETE[name](e) for e in a])
            return getattr(_np, name)(a, *x, **k)
        return f

    log = _uf1('log')
    exp = _uf1('exp')
    sqrt = _uf1('sqrt')
    sin = _uf1('sin')
    cos = _uf1('cos')
    log10 = _uf1('log10')

    def ceil(self, a):
        if isinstance(a, SymReal):
            return a.ceil()
        return _np.ceil(a)

    def floor(self, a):
        if isinstance(a, SymReal):
            return a.floor()
        return _np.floor(a)

    def isnan(self, a):
        if isinstance(a, SymReal):
            return False
        if has_sym(a):
            return _np.zeros(len(a), dtype=bool)
        return _np.isnan(a)

    def maximum(self, a, b):
        if has_sym(a) or has_sym(b):
            if isinstance(a, _np.ndarray) or isinstance(b, _np.ndarray):
                n = len(a) if isinstance(a, _np.ndarray) else len(b)
                A = a if isinstance(a, _np.ndarray) else [a] * n
                B = b if isinstance(b, _np.ndarray) else [b] * n
                return _obj([core.smax(x, y) for x, y in zip(A, B)])
            return core.smax(a, b)
        return _np.maximum(a, b)

    def minimum(self, a, b):
        if has_sym(a) or has_sym(b):
            if isinstance(a, _np.ndarray) or isinstance(b, _np.ndarray):
                n = len(a) if isinstance(a, _np.ndarray) else len(b)
                A = a if isinstance(a, _np.ndarray) else [a] * n
                B = b if isinstance(b, _np.ndarray) else [b] * n
                return _obj([core.smin(x, y) for x, y in zip(A, B)])
            return core.smin(a, b)
        return _np.minimum(a, b)

    def where(self, c, *ab):
        if ab and (has_sym(c) or any(isinstance(e, SymBool) for e in _np.ravel(c))):
            a, b = ab
            n = len(c)
            A = a if isinstance(a, _np.ndarray) else [a] * n
            B = b if isinstance(b, _np.ndarray) else [b] * n
            return _obj([core.ite(ci, x, y) if isinstance(ci, SymBool) else (x if ci else y) for ci, x, y in zip(c, A, B)])
        return _np.where(c, *ab)

    def interp(self, x, xp, fp):
        if not (has_sym(x) or has_sym(xp) or has_sym(fp)):
            return _np.interp(x, xp, fp)
        # piecewise-linear interpolation, forks on the segment.  numpy's contract: xp must be increasing, "otherwise the results are
        # nonsense" - when xp holds proxies, the path on which it is NOT increasing gets an unconstrained value (whatever numpy returns
        # there is not specified), so an obligation that depends on it can only be decided by replaying the real numpy
        if has_sym(xp):
            for i in range(1, len(xp)):
                if not (xp[i - 1] < xp[i]):
                    fresh = lambda: SymReal(core.ctx().fresh_real('np.interp-outside-its-contract'))
                    return _obj([fresh() for _ in x]) if isinstance(x, _np.ndarray) else fresh()

        def one(xv):
            n = len(xp)
            if xv <= xp[0]:
                return fp[0]
            for i in range(1, n):
                if xv <= xp[i]:
                    return fp[i - 1] + (fp[i] - fp[i - 1]) * (xv - xp[i - 1]) / (xp[i] - xp[i - 1])
            return fp[n - 1]
        if isinstance(x, _np.ndarray):
            return _obj([one(v) for v in x])
        return one(x)

    def trapz(self, y, x=None, dx=1.0, axis=-1):
        if has_sym(y) and x is None:
            y = list(y)
            s = 0.0
            for i in range(1, len(y)):
                s = s + (y[i] + y[i - 1]) / 2.0 * dx
            return s
        return _np.trapz(y, x=x, dx=dx, axis=axis)


NP = NPShim()


class NPFShim:
    """numpy_financial: npv is a polynomial (exact); irr is an uninterpreted choice with the documented contract."""

    def __init__(self):
        import numpy_financial as npf
        self._npf = npf
        self.irr_calls = []

    def __getattr__(self, k):
        return getattr(self._npf, k)

    def npv(self, rate, values):
        vals = list(values)
        if not (has_sym(vals) or is_sym(rate)):
            return self._npf.npv(rate, values)
        s = 0.0
        d = 1.0
        for i, v in enumerate(vals):
            if i > 0:
                d = d * (1 + rate)
            s = s + v / d
        return s

    def irr(self, values):
        vals = list(values)
        if not has_sym(vals):
            return self._npf.irr(values)
        c = ctx()
        r = c.fresh_real('irr')
        isnan = c.fresh_bool('irr_nan')
        self.irr_calls.append((vals, SymReal(r), SymBool(isnan)))
        # contract: r > -1 and sum v_t/(1+r)^t == 0 unless nan
        d = SymReal(r) + 1
        poly = 0.0
        n = len(vals)
        # multiply through by (1+r)^(n-1) to stay polynomial
        for i, v in enumerate(vals):
            poly = poly + v * d ** (n - 1 - i) if n - 1 - i > 0 else poly + v
        c.add_side(z3.Or(isnan, z3.And(r > -1, lift(poly) == 0)))
        return IrrResult(r, isnan)


class IrrResult(SymReal):
    """value returned by the irr stub; math.isnan() on it is the symbolic flag."""
    __slots__ = ('nan',)

    def __init__(self, r, nan):
        super().__init__(r)
        self.nan = nan
