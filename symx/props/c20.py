"""C20 — all entry points give the same answer (DESIGN §4 C20).

File and directory names are symbolic up to their equality / substring pattern: the path code only concatenates, replaces and
splits on '/' and '.', so its behaviour on names over an alphabet without those two characters depends only on which name
segments are equal to or occur inside each other.  z3 enumerates the feasible patterns (AllSAT over the pattern predicates of
three segments of <= 2 symbolic characters); each pattern's witness instantiates the names, and the REAL entry points
(python -m geophires_x executed in-process via runpy, GeophiresXClient, the direct GEOPHIRESv3.main pipeline) then run on a
real temporary directory tree - no stubs."""
from __future__ import annotations

import contextlib
import io
import itertools
import os
import re
import runpy
import shutil
import sys
import tempfile
from pathlib import Path

import z3

from .. import core, gx, harness

ID = 'C20'
FUNCTIONS = ['geophires_x.GEOPHIRESv3:main', 'geophires_x.Outputs:Outputs.read_parameters', 'geophires_x_client:GeophiresXClient.get_geophires_result',
             'geophires_x.Model:Model.__init__']
UNIT_TIMEOUT = {'quick': 280, 'thorough': 1200}
SHAPES = ['none', 'rel-file', 'rel-file-noext', 'rel-dir-file', 'rel-dir-file-noext', 'abs-dir-file', 'rel-dotdir-file', 'rel-dirdot-file-noext', 'abs-dirdot-file-noext', 'rel-dirdot-file']
META = {
    'explanation': 'Names of the output directory, output file stem and extension are three symbolic strings of 1-2 characters; z3 '
                   'enumerates every feasible equality / substring pattern between them (AllSAT) and each pattern is instantiated by '
                   'its model. For every pattern x output-argument shape x {input relative, absolute} x {succeeding, failing input} the '
                   'real CLI module (src/geophires_x/__main__.py run in-process), the real client and the direct pipeline run in a real '
                   'temporary tree: report written exactly at the requested path resolved against the original cwd (or <cwd>/HDR.out), '
                   'JSON at that path with suffix .json, nothing else created, exit status 0 / non-zero with no report on failure, cwd '
                   'and argv restored, report text identical across the three entry points (time stamps aside).',
    'bounds': {t: {'segments': 3, 'characters per segment': '1..2', 'alphabet': 'two letters (patterns only)', 'output shapes': SHAPES} for t in ('quick', 'thorough')},
    'outside': ['names containing "/" or more than one "."', 'segments longer than 2 characters (the pattern argument makes them equivalent)', 'symbolic links',
                'Windows path semantics'],
    'assumptions': ['uniformity: the path code distinguishes names only by equality / containment of segments (it concatenates, replaces, splits)'],
    'stubs': ['none (real temporary directory tree, real simulator)'],
}

GOOD = ('Reservoir Model, 4\nReservoir Depth, 3\nGradient 1, 50\nEnd-Use Option, 2\nPower Plant Type, 9\nPlant Lifetime, 3\n'
        'Time steps per year, 2\nPrint Output to Console, 0\n')
FAMILIES = {
    'plain': '',
    'sdac': 'Do S-DAC-GT Calculations, True\n',
    'addons': ('Do AddOn Calculations, True\nAddOn Nickname 1, Desal\nAddOn CAPEX 1, 10\nAddOn OPEX 1, 0.1\nAddOn Electricity Gained 1, 100\n'
               'AddOn Heat Gained 1, 0.0\nAddOn Profit Gained 1, 0.05\n'),
    # a reservoir whose temperature history is a data file named in the input, relative to the program's own directory: the caller's directory
    # holds a file of the same relative name with other numbers (a decoy), which no entry point may pick up
    'upp': 'Reservoir Model, 5\nReservoir Output File Name, Examples/ReservoirOutput.txt\nPlant Lifetime, 30\nTime steps per year, 4\n',      # (the bundled file holds 30 years x 4 steps)
}
PKG_DIR = os.path.dirname(os.path.abspath(gx.P.__file__))
BAD = 'Reservoir Model, 4\nReservoir Depth, 3\nGradient 1, 50\nMaximum Temperature, 9999\nPrint Output to Console, 0\n'


# ---- pattern enumeration by the solver ---------------------------------------------------------------------------------
def patterns(max_len=2):
    """AllSAT over the equality / containment predicates of segments A (directory), B (file stem), C (extension)."""
    segs = {}
    s = z3.Solver()
    for n in 'ABC':
        ln = z3.Int(f'len{n}')
        ch = [z3.Int(f'{n}{i}') for i in range(max_len)]
        s.add(ln >= 1, ln <= max_len)
        for c in ch:
            s.add(c >= 0, c <= 1)
        segs[n] = (ln, ch)

    def eq(x, y):
        (lx, cx), (ly, cy) = segs[x], segs[y]
        return z3.And(lx == ly, *[z3.Implies(lx > i, cx[i] == cy[i]) for i in range(max_len)])

    def inside(x, y):   # x occurs in y
        (lx, cx), (ly, cy) = segs[x], segs[y]
        alts = []
        for off in range(max_len):
            alts.append(z3.And(lx + off <= ly, *[z3.Implies(lx > i, cx[i] == cy[i + off]) for i in range(max_len) if i + off < max_len],
                               *[lx <= i for i in range(max_len) if i + off >= max_len]))
        return z3.Or(alts)
    preds = {'A=B': eq('A', 'B'), 'B in A': inside('B', 'A'), 'A in B': inside('A', 'B'), 'C=B': eq('C', 'B'), 'C in A': inside('C', 'A'),
             'C in B': inside('C', 'B'), 'B in C': inside('B', 'C'), 'A=C': eq('A', 'C')}
    pv = {k: z3.Bool('p_' + k) for k in preds}
    for k in preds:
        s.add(pv[k] == preds[k])
    out = []
    n_queries = 0
    while True:
        n_queries += 1
        if s.check() != z3.sat:
            break
        m = s.model()
        pat = {k: z3.is_true(m.eval(pv[k], model_completion=True)) for k in preds}
        inst = {}
        for n in 'ABC':
            ln, ch = segs[n]
            L = m.eval(ln, model_completion=True).as_long()
            inst[n] = ''.join('QZ'[m.eval(c, model_completion=True).as_long()] for c in ch[:L])   # letters that occur nowhere else in the tree
        out.append((pat, inst))
        s.add(z3.Or([pv[k] != pat[k] for k in preds]))
    return out, n_queries


# ---- running the real entry points ---------------------------------------------------------------------------------------
STAMP = re.compile(r'(Simulation Date|Simulation Time|Calculation Time|GEOPHIRES Version).*')


def normalise(text):
    return '\n'.join(STAMP.sub(r'\1', ln) for ln in text.splitlines())


def tree(root):
    out = set()
    for d, ds, fs in os.walk(root):
        for f in fs:
            out.add(os.path.relpath(os.path.join(d, f), root))
    return out


def tree_stat(root):
    """relative path -> (size, mtime_ns): a file that exists already but is appended to counts as written."""
    out = {}
    for d, ds, fs in os.walk(root):
        for f in fs:
            p = os.path.join(d, f)
            try:
                st = os.stat(p)
                out[os.path.relpath(p, root)] = (st.st_size, st.st_mtime_ns)
            except OSError:
                pass
    return out


def run_cli(cwd, args):
    """python -m geophires_x <args> executed in-process; returns (exit status, cwd_restored, argv_restored)."""
    cwd0, argv0 = os.getcwd(), sys.argv
    os.chdir(cwd)
    sys.argv = ['geophires_x'] + list(args)
    argv_obj = sys.argv
    rc = None
    try:
        with contextlib.redirect_stdout(io.StringIO()), contextlib.redirect_stderr(io.StringIO()):
            try:
                runpy.run_module('geophires_x', run_name='__main__', alter_sys=False)
                rc = 0
            except SystemExit as e:
                rc = e.code if isinstance(e.code, int) else (0 if e.code is None else 1)
            except BaseException:   # the CLI lets the simulator's exception propagate: a non-zero exit of the process
                rc = 1
        restored = (os.getcwd() == os.path.realpath(cwd) or os.getcwd() == cwd, sys.argv is argv_obj)
    finally:
        os.chdir(cwd0)
        sys.argv = argv0
    return rc, restored[0], restored[1]


def scenario(inst, shape, input_abs, failing, family='plain', start='same'):
    """one run of every entry point in a fresh real tree; returns list of (obligation, ok, detail)."""
    A, B, C = inst['A'], inst['B'], inst['C']
    root = os.path.realpath(tempfile.mkdtemp(prefix='symx_c20_'))
    res = []
    try:
        work = os.path.join(root, 'w')            # where the input file lives
        os.makedirs(work, exist_ok=True)
        # the caller's working directory: the input's directory, or its parent (the input is then named with a relative directory part)
        cwd_dir = work if start == 'same' else root
        if 'dotdir' in shape:
            os.makedirs(os.path.join(cwd_dir, '.' + A), exist_ok=True)
        elif 'dirdot' in shape and not shape.startswith('abs'):
            os.makedirs(os.path.join(cwd_dir, f'{A}.{C}'), exist_ok=True)
        elif 'dir' in shape and not shape.startswith('abs'):
            os.makedirs(os.path.join(cwd_dir, A), exist_ok=True)
        absdir = os.path.join(root, 'abs', A)
        os.makedirs(absdir, exist_ok=True)
        absdirdot = os.path.join(root, 'abs', f'{A}.{C}')
        os.makedirs(absdirdot, exist_ok=True)
        inp_rel = 'in_' + B + '.txt'
        with open(os.path.join(work, inp_rel), 'w') as f:
            f.write((BAD if failing else GOOD) + FAMILIES[family])
        inp_arg = os.path.join(work, inp_rel) if input_abs else (inp_rel if start == 'same' else os.path.join('w', inp_rel))
        name, name_noext = f'{B}.{C}', B
        out_arg = {'none': None, 'rel-file': name, 'rel-file-noext': name_noext, 'rel-dir-file': f'{A}/{name}', 'rel-dir-file-noext': f'{A}/{name_noext}',
                   'abs-dir-file': os.path.join(absdir, name), 'rel-dotdir-file': f'.{A}/{name}',
                   'rel-dirdot-file-noext': f'{A}.{C}/{name_noext}', 'abs-dirdot-file-noext': os.path.join(absdirdot, name_noext),
                   'rel-dirdot-file': f'{A}.{C}/{name}'}[shape]
        expected_report = os.path.join(cwd_dir, 'HDR.out') if out_arg is None else (out_arg if os.path.isabs(out_arg) else os.path.join(cwd_dir, out_arg))
        er = Path(expected_report)
        expected_json = str(er.with_name(er.stem + '.json')) if out_arg is not None else os.path.join(cwd_dir, 'HDR.json')
        if family == 'upp':
            for dd in {cwd_dir, work}:
                os.makedirs(os.path.join(dd, 'Examples'), exist_ok=True)
                with open(os.path.join(dd, 'Examples', 'ReservoirOutput.txt'), 'w') as f:
                    f.write(''.join(f'{0.25 * i}\t,\t{120 - 0.5 * i}\n' for i in range(120)))
        before = tree(root)
        pkg_before = tree_stat(PKG_DIR)
        rc, cwd_ok, argv_ok = run_cli(cwd_dir, [inp_arg] + ([out_arg] if out_arg is not None else []))
        created = tree(root) - before
        pkg_after = tree_stat(PKG_DIR)
        stray = sorted(f for f, st in pkg_after.items() if pkg_before.get(f) != st and '__pycache__' not in f and not f.endswith('.pyc'))
        for f in stray:      # a (broken) tree wrote into its own package directory: report it below and leave /repo as it was
            if f not in pkg_before:
                try:
                    os.unlink(os.path.join(PKG_DIR, f))
                except OSError:
                    pass
        res.append(('CLI: nothing is written into the program\'s own package directory', not stray, {'written into src/geophires_x': stray[:6]}))
        rel = lambda p: os.path.relpath(p, root)
        if failing:
            res.append(('CLI: a failing simulation exits with a non-zero status', rc not in (0, None), {'exit': rc}))
            res.append(('CLI: a failing simulation writes no report', not os.path.exists(expected_report), {'created': sorted(created)}))
        else:
            res.append(('CLI: a succeeding simulation exits with status 0', rc == 0, {'exit': rc}))
            res.append(('CLI: the report is written at the requested path resolved against the original cwd (or <cwd>/HDR.out)',
                        os.path.isfile(expected_report), {'expected': rel(expected_report), 'created': sorted(created)}))
            res.append(('CLI: the JSON is written next to the report with suffix .json', os.path.isfile(expected_json),
                        {'expected': rel(expected_json), 'created': sorted(created)}))
            res.append(('CLI: nothing else is created', created <= {rel(expected_report), rel(expected_json)},
                        {'unexpected': sorted(created - {rel(expected_report), rel(expected_json)})}))
        if failing and not input_abs and shape == 'none':
            # the client with the same failing input: the failure must leave the caller's working directory and argument vector as they were
            from geophires_x_client import GeophiresXClient, GeophiresInputParameters
            cwd0, argv0 = os.getcwd(), sys.argv
            os.chdir(work)
            marker = ['caller-argv', 'x']
            sys.argv = marker
            raised = False
            try:
                with contextlib.redirect_stdout(io.StringIO()), contextlib.redirect_stderr(io.StringIO()):
                    try:
                        GeophiresXClient(enable_caching=False).get_geophires_result(GeophiresInputParameters(from_file_path=Path(work, inp_rel)))
                    except BaseException:
                        raised = True
                res.append(('client: a failing simulation raises', raised, {}))
                res.append(('client: a failing request leaves the caller\'s working directory as it was', os.getcwd() == work, {'cwd after': os.getcwd()}))
                res.append(('client: a failing request leaves the caller\'s argument vector as it was', sys.argv is marker and sys.argv == ['caller-argv', 'x'], {'argv after': list(sys.argv)[:3]}))
            finally:
                os.chdir(cwd0)
                sys.argv = argv0
        res.append(('CLI: the caller\'s working directory is restored', cwd_ok, {}))
        res.append(('CLI: the argument vector object is restored', argv_ok, {}))
        if not failing and os.path.isfile(expected_report):
            cli_text = normalise(open(expected_report).read())
            # client
            from geophires_x_client import GeophiresXClient, GeophiresInputParameters
            cwd0 = os.getcwd()
            os.chdir(work)
            try:
                with contextlib.redirect_stdout(io.StringIO()):
                    r = GeophiresXClient(enable_caching=False).get_geophires_result(GeophiresInputParameters(from_file_path=Path(work, inp_rel)))
                client_text = normalise(open(r.output_file_path).read())
                os.unlink(r.output_file_path)
                jp = str(r.output_file_path).replace('.out', '.json')
                if os.path.exists(jp):
                    os.unlink(jp)
                res.append(('client and CLI produce the same case report for the same input', client_text == cli_text,
                            {'first difference': _first_diff(cli_text, client_text)}))
                # direct pipeline
                from geophires_x import GEOPHIRESv3
                argv0 = sys.argv
                direct_out = os.path.join(root, 'direct.out')
                sys.argv = ['', os.path.join(work, inp_rel), direct_out]
                try:
                    with contextlib.redirect_stdout(io.StringIO()):
                        GEOPHIRESv3.main(enable_geophires_logging_config=False)
                finally:
                    sys.argv = argv0
                    os.chdir(work)
                direct_text = normalise(open(direct_out).read())
                res.append(('direct pipeline and CLI produce the same case report for the same input', direct_text == cli_text,
                            {'first difference': _first_diff(cli_text, direct_text)}))
                if family == 'upp':
                    # the same input from another (empty) directory: what the caller's directory happens to contain is not an input
                    other = os.path.join(root, 'elsewhere')
                    os.makedirs(other, exist_ok=True)
                    other_out = os.path.join(root, 'elsewhere.out')
                    rc2, _, _ = run_cli(other, [os.path.join(work, inp_rel), other_out])
                    other_text = normalise(open(other_out).read()) if os.path.isfile(other_out) else None
                    res.append(('CLI: the case report does not depend on the directory the program is started from (a data file named in the input is '
                                'resolved the same way from everywhere)', other_text == cli_text, {'exit': rc2, 'first difference': _first_diff(cli_text, other_text or '')}))
            finally:
                os.chdir(cwd0)
        return res, {'cwd': 'w' if start == 'same' else '. (parent of the input directory)', 'input_arg': inp_arg if not input_abs else '<abs>/' + inp_rel, 'output_arg': out_arg if out_arg is None or not os.path.isabs(out_arg) else '<abs>/' + A + '/' + name}
    finally:
        shutil.rmtree(root, ignore_errors=True)


def _first_diff(a, b):
    for x, y in zip(a.splitlines(), b.splitlines()):
        if x != y:
            return [x[:120], y[:120]]
    return None if len(a) == len(b) else ['<length>', '<length>']


def units(tier, seed):
    pats, _ = patterns(3 if tier == 'thorough' else 2)
    us = []
    for i in range(len(pats)):
        us.append({'pattern_index': i})
    return us


_PATS = None


def run_one(log, cfg, inst, shape, input_abs, failing, family, start='same'):
    obs, desc = scenario(inst, shape, input_abs, failing, family, start)
    log['paths'] += 1
    log['reachable'] += 1
    for name, ok, detail in obs:
        log['obligations'] += 1
        if ok:
            log['discharged'] += 1
            continue
        log['cex'].append({'obligation': name, 'finding': None, 'config': dict(cfg, shape=shape, input_abs=input_abs, failing=failing, family=family, start=start),
                           'reproduced': True, 'inputs': dict(desc, names=inst), 'detail': detail, 'how': 'native run of the real entry points on the pattern witness',
                           'attempts': []})


def run_unit(unit):
    global _PATS
    if _PATS is None:
        _PATS = patterns(3 if unit['tier'] == 'thorough' else 2)
    pats, nq = _PATS
    pat, inst = pats[unit['pattern_index']]
    cfg = {'pattern': {k: v for k, v in pat.items() if v}, 'instance': inst}
    log = harness.UnitLog(cfg)
    log['solver_s'] += 0.0
    log.note(f'{len(pats)} feasible equality/containment patterns enumerated by z3 ({nq} AllSAT queries)')
    for shape in SHAPES:
        for input_abs in (False, True):
            for failing in (False, True):
                if unit['tier'] == 'quick' and failing and input_abs:
                    continue
                fams = ['plain'] if (failing or input_abs or (unit['tier'] == 'quick' and shape not in ('none', 'rel-file', 'abs-dir-file'))) else list(FAMILIES)
                for family in fams:
                    if family == 'upp' and shape != 'none':
                        continue
                    run_one(log, cfg, inst, shape, input_abs, failing, family)
                if not input_abs and (unit['tier'] == 'thorough' or shape in ('none', 'rel-file', 'rel-dir-file-noext')):
                    run_one(log, cfg, inst, shape, input_abs, failing, 'plain', start='parent')
    if len(log['samples']) < 1:
        log['samples'].append({'pattern': cfg['pattern'], 'instance': inst, 'shapes': SHAPES})
    yield log.result()


def replay(cex):
    cfg = cex['config']
    obs, desc = scenario(cfg['instance'], cfg['shape'], cfg['input_abs'], cfg['failing'], cfg.get('family', 'plain'), cfg.get('start', 'same'))
    bad = [(n, d) for n, ok, d in obs if not ok]
    return bool(bad), {'failed': bad[:5]}
