"""CLI: python -m symx.replay <replay.json> — re-runs a recorded counterexample on the real code (plain floats).

Harnesses that expose a direct `replay(cex)` are called with the recorded inputs. For the others the recorded *unit* is run
again (same encoding, same solver queries, same concrete replay of every counterexample) and the recorded obligation is
looked up among the reproduced counterexamples of that unit.
"""
from __future__ import annotations

import importlib
import json
import sys


def _matches(unit, cfg):
    """a unit description matches a recorded configuration when every key they share agrees (and they share one)."""
    shared = [k for k in unit if k in cfg and k != 'tier']
    return bool(shared) and all(json.dumps(unit[k], sort_keys=True, default=str) == json.dumps(cfg[k], sort_keys=True, default=str) for k in shared)


def through_unit(mod, cex):
    cfg = cex.get('config', {})
    seen = set()
    tried = 0
    for tier in ('quick', 'thorough'):
        for unit in mod.units(tier, 0):
            key = json.dumps(unit, sort_keys=True, default=str)
            if key in seen or not _matches(unit, cfg):
                continue
            seen.add(key)
            tried += 1
            u = dict(unit, tier=tier)
            for part in mod.run_unit(u):
                for cx in part.get('cex', []):
                    if cx.get('reproduced') and cx.get('obligation') == cex.get('obligation') and \
                            json.dumps(cx.get('config'), sort_keys=True, default=str) == json.dumps(cfg, sort_keys=True, default=str):
                        return True, {'how': 'unit re-run', 'unit': unit, 'inputs': cx.get('inputs'), 'detail': cx.get('detail')}
    return False, {'how': 'unit re-run', 'units_tried': tried, 'note': 'the recorded obligation was not violated again'}


def main(argv=None):
    argv = argv or sys.argv[1:]
    path = argv[0]
    with open(path) as f:
        rec = json.load(f)
    from . import gx  # noqa: F401  (imports the real code from /repo/src)
    import os
    os.environ.setdefault('SYMX_NO_EARLY_STOP', '1')
    mod = importlib.import_module(rec['harness'])
    try:
        violated, detail = mod.replay(rec['cex'])
    except NotImplementedError:
        violated, detail = through_unit(mod, rec['cex'])
    print(json.dumps({'property': rec['property'], 'obligation': rec['cex'].get('obligation'), 'violated': bool(violated),
                      'detail': detail}, indent=1, default=str))
    return 1 if violated else 0


if __name__ == '__main__':
    sys.exit(main())
