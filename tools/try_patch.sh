#!/bin/sh
# usage: tools/try_patch.sh <patch.diff> <Cxx> [tier]   -- applies to /repo, runs the check, always reverts
P="$1"; ID="$2"; TIER="${3:-quick}"
cd /verif
git -C /repo apply "$P" || { echo "PATCH DOES NOT APPLY"; exit 9; }
./.venv/bin/python -m symx.check "$ID" --tier "$TIER" --no-evidence > /tmp/try_patch.$$ 2>&1
RC=$?
grep -c '^VIOLATION' /tmp/try_patch.$$ | sed 's/^/violation lines: /'
grep 'violated obligation' /tmp/try_patch.$$ | cut -c1-160 | sort | uniq -c | sort -rn | head -${TAILN:-6}
tail -2 /tmp/try_patch.$$ | cut -c1-400
rm -f /tmp/try_patch.$$
git -C /repo checkout -- .; git -C /repo clean -fdq src tests >/dev/null 2>&1; git -C /repo clean -fdqx src/geophires_x -e all_messages_conf.log -e __pycache__ >/dev/null 2>&1
git -C /repo status --short | grep -v '^?? -q'
echo "exit=$RC"
