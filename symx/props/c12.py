"""C12 — input-file layout is irrelevant (DESIGN §4 C12)."""
from __future__ import annotations

import ast
import contextlib
import inspect
import io
import itertools
import math
import os
import shutil
import tempfile
import textwrap

import z3

from .. import core, gx, harness, shim
from ..core import SymBool
from ..symstr import SymStr, Ch, WS, chars

from geophires_x import GeoPHIRESUtils as GU

P = gx.P
ID = 'C12'
FUNCTIONS = ['geophires_x.GeoPHIRESUtils:read_input_file', 'geophires_x.Reservoir:Reservoir.read_parameters', 'geophires_x.WellBores:WellBores.read_parameters',
             'geophires_x.SurfacePlant:SurfacePlant.read_parameters', 'geophires_x.Economics:Economics.read_parameters',
             'geophires_x_client.geophires_input_parameters:GeophiresInputParameters.__init__']
UNIT_TIMEOUT = {'quick': 280, 'thorough': 1500}
LEN = {'quick': 4, 'thorough': 6}
META = {
    'explanation': 'The real read_input_file runs on lines that are bounded symbolic strings (every character a solver variable; strip / '
                   'startswith / split re-implemented cell-wise with the exact 29-code-point str.isspace set; dictionary lookups decide '
                   'key equality symbolically): comment and comma-less lines contribute nothing; surrounding whitespace, a trailing '
                   'comment field and the line ending do not change (name, value); of two lines with the same name every field of the '
                   'entry (value, comment, raw line) comes from the later one; the resulting mapping is the same for both orders of two '
                   'lines. Each module class\'s real read_parameters then runs under an order-oracle dictionary whose iteration order is '
                   'chosen by the solver: for every pair (and the AST-extracted special-case groups) of keys and every order the complete '
                   'parameter state after reading equals the state of the canonical order.',
    'bounds': {t: {'symbolic line length': f'<= {LEN[t]} characters', 'lines': 2, 'order oracle': 'all orders of every pair of special-case keys; all orders of each group of <= 4 keys'} for t in LEN},
    'outside': ['lines longer than the bound', 'more than four mutually interacting keys', 'text decoding / universal-newline translation (CPython)',
                'add-on blocks are kept in their own relative order, as the property allows'],
    'assumptions': ['inside a line no character is LF or CR (the line reader has already split there)'],
    'stubs': ['GeoPHIRESUtils.exists -> True; GeoPHIRESUtils.open -> in-memory lines', 'model.InputParameters -> order-oracle dict (iteration order chosen by the solver)'],
}

assert [c for c in range(0x110000) if chr(c).isspace()] == WS, 'str.isspace() set differs from the modelled one'


class FakeFile:
    def __init__(self, lines):
        self.lines = lines

    def readlines(self):
        return list(self.lines)

    def __enter__(self):
        return self

    def __exit__(self, *a):
        return False


class NullLogger:
    def __getattr__(self, k):
        return lambda *a, **kw: None


def tokenize(lines):
    d = {}
    with shim.shadow((GU, 'exists', lambda p: True), (GU, 'open', lambda *a, **k: FakeFile(lines))):
        GU.read_input_file(d, logger=NullLogger(), input_file_name='in.txt')
    return d


def no_eol(s: SymStr):
    for c in s.cs:
        if not c.concrete:
            core.ctx().add_assume(c.t != 10, c.t != 13, c.t >= 0, c.t < 0x110000)


def concrete_tokenize(text):
    """the real reader on a real file."""
    d = {}
    fd, path = tempfile.mkstemp(prefix='symx_c12_', suffix='.txt')
    try:
        with os.fdopen(fd, 'w', encoding='UTF-8', newline='') as f:
            f.write(text)
        GU.read_input_file(d, logger=NullLogger(), input_file_name=path)
    finally:
        os.unlink(path)
    return {k: (v.sValue, v.Comment, v.raw_entry) for k, v in d.items()}


def model_text(strs, inp):
    class M:
        def eval(self, t, model_completion=True):
            return z3.IntVal(int(inp.get(str(t), 63)))
    return [s.concrete(M()) for s in strs]


# ---- tokenizer units ------------------------------------------------------------------------------------------------
def run_tokenizer(unit):
    n = unit['n']
    kind = unit['kind']
    cfg = {'harness': 'tokenizer', 'clause': kind, 'line_length': n}
    log = harness.UnitLog(cfg)

    if kind in ('whole-line', 'neighbours'):
        # one fully symbolic line: classification and fields agree with the layout-free reading of the same characters.  'neighbours': the
        # same line stands between two ordinary parameter lines, which it must leave alone whatever it contains (a comment, a blank line,
        # a line without a comma, a line ending in any character)
        before, after = (['Aa, 1\n'], ['Bb, 2\n', 'Cc, 3']) if kind == 'neighbours' else ([], [])

        def fn():
            line = SymStr.fresh('c', n)
            no_eol(line)
            d = tokenize(before + [line + '\n'] + after)
            return line, d
        zv = {f'c[{i}]': z3.Int(f'c[{i}]') for i in range(n)}

        def concrete(inp):
            txt = ''.join(chr(int(inp.get(f'c[{i}]', 63))) for i in range(n))
            got = concrete_tokenize(''.join(before) + txt + '\n' + ''.join(after))
            want = reference_parse(before + [txt] + after)
            return got != want, {'line': repr(txt), 'reader': got, 'reference': want}
        k = 0
        for pr in core.explore(fn, max_paths=20000):
            log.path(pr)
            k += 1
            if pr.error is not None:
                raise pr.error
            if pr.aborted:
                continue
            line, d = pr.value
            c = pr.ctx
            if k <= 5 or k % 50 == 0:
                harness.reachable(log, c, 1000)
            # on this path every character predicate has been decided: the path's own witness text is representative
            r, m, _ = core.check_sat(c.all_constraints(), 2000)
            if r != 'sat':
                continue
            txt = line.concrete(m)
            want = reference_parse(before + [txt] + after)
            got = {}
            for key, e in d.items():
                got[_c(key, m)] = (_c(e.sValue, m), _c(e.Comment, m), _c(e.raw_entry, m))
            harness.discharge(log, c, 'one line: comment / comma-less lines contribute nothing; otherwise name = first field stripped, value = second field stripped'
                              + (' - and the lines before and after it are read as if it were not there' if kind == 'neighbours' else ''),
                              got == want, zv, concrete, sample=(k == 3))
        yield log.result()
        return

    if kind == 'decoration':
        # name / value cells fixed non-space symbolic characters; whitespace cells symbolic whitespace; comment tail optional
        nn, nv = unit['nn'], unit['nv']
        for (w1, w2, w3, w4, tail) in itertools.product((0, 1), (0, 1), (0, 1), (0, 1), ('', ',#x', ' ,', ',a,b')):
            if w1 + w2 + w3 + w4 + len(tail) + nn + nv + 1 > n + 6:
                continue

            def fn():
                name, val = SymStr.fresh('n', nn), SymStr.fresh('v', nv)
                no_eol(name)
                no_eol(val)
                ctx = core.ctx()
                for ch in name.cs + val.cs:
                    ctx.add_assume(z3.And([ch.t != w for w in WS]), ch.t != 44)
                ctx.add_assume(name.cs[0].t != 35, name.cs[0].t != 42)                 # not '#', '*'
                if nn >= 2:
                    ctx.add_assume(z3.Not(z3.And(name.cs[0].t == 45, name.cs[1].t == 45)))   # not '--'
                ws = [SymStr.fresh(f'w{i}', k) for i, k in enumerate((w1, w2, w3, w4))]
                for wcell in ws:
                    for ch in wcell.cs:
                        ctx.add_assume(z3.Or([ch.t == w for w in WS if w not in (10, 13)]))
                line = ws[0] + name + ws[1] + ',' + ws[2] + val + ws[3] + tail + '\n'
                d = tokenize([line])
                return name, val, d
            zv = {}
            for nm, k in (('n', nn), ('v', nv), ('w0', w1), ('w1', w2), ('w2', w3), ('w3', w4)):
                for i in range(k):
                    zv[f'{nm}[{i}]'] = z3.Int(f'{nm}[{i}]')

            def concrete(inp, w=(w1, w2, w3, w4), tail=tail):
                g = lambda nm, k: ''.join(chr(int(inp.get(f'{nm}[{i}]', 63))) for i in range(k))
                name, val = g('n', nn), g('v', nv)
                txt = g('w0', w[0]) + name + g('w1', w[1]) + ',' + g('w2', w[2]) + val + g('w3', w[3]) + tail + '\n'
                got = concrete_tokenize(txt)
                ok = list(got.keys()) == [name] and got[name][0] == val
                return not ok, {'line': repr(txt), 'reader': got, 'expected': {name: val}}
            k = 0
            for pr in core.explore(fn, max_paths=5000):
                log.path(pr)
                k += 1
                if pr.error is not None:
                    raise pr.error
                if pr.aborted:
                    continue
                name, val, d = pr.value
                c = pr.ctx
                if k <= 2:
                    harness.reachable(log, c, 1000)
                keys = list(d.keys())
                ok_struct = len(keys) == 1
                prop = z3.BoolVal(False)
                if ok_struct:
                    e = d[keys[0]]
                    prop = z3.And(_eqt(keys[0], name), _eqt(e.sValue, val), _eqt(e.Name, name))
                harness.discharge(log, c, 'whitespace around name and value, a trailing comment field and the line ending do not change (name, value)',
                                  prop, zv, concrete, sample=(k == 1 and w1 and w4))
        yield log.result()
        return

    if kind == 'duplicates':
        nn, nv = unit['nn'], unit['nv']

        def fn():
            n1, n2 = SymStr.fresh('a', nn), SymStr.fresh('b', nn)
            v1, v2 = SymStr.fresh('x', nv), SymStr.fresh('y', nv)
            ctx = core.ctx()
            for s in (n1, n2, v1, v2):
                no_eol(s)
                for ch in s.cs:
                    ctx.add_assume(z3.And([ch.t != w for w in WS]), ch.t != 44)
            for s in (n1, n2):
                ctx.add_assume(s.cs[0].t != 35, s.cs[0].t != 42, s.cs[0].t != 45)
            l1, l2 = n1 + ', ' + v1 + ', first\n', n2 + ',' + v2 + '\n'
            d12 = tokenize([l1, l2])
            d21 = tokenize([l2, l1])
            return (n1, n2, v1, v2), d12, d21
        zv = {}
        for nm, k in (('a', nn), ('b', nn), ('x', nv), ('y', nv)):
            for i in range(k):
                zv[f'{nm}[{i}]'] = z3.Int(f'{nm}[{i}]')

        def concrete(inp):
            g = lambda nm, k: ''.join(chr(int(inp.get(f'{nm}[{i}]', 63))) for i in range(k))
            n1, n2, v1, v2 = g('a', nn), g('b', nn), g('x', nv), g('y', nv)
            l1, l2 = n1 + ', ' + v1 + ', first\n', n2 + ',' + v2 + '\n'
            a, b = concrete_tokenize(l1 + l2), concrete_tokenize(l2 + l1)
            bad = []
            if n1 == n2:
                if a.get(n1) != (v2, '', l2.strip()):
                    bad.append('later line does not govern every field')
            elif a != b:
                bad.append('mapping depends on line order')
            return bool(bad), {'lines': [repr(l1), repr(l2)], 'order 1-2': a, 'order 2-1': b, 'problems': bad}
        k = 0
        for pr in core.explore(fn, max_paths=5000):
            log.path(pr)
            k += 1
            if pr.error is not None:
                raise pr.error
            if pr.aborted:
                continue
            (n1, n2, v1, v2), d12, d21 = pr.value
            c = pr.ctx
            if k <= 2:
                harness.reachable(log, c, 1000)
            same = n1.eq_term(n2)
            # duplicate name: one entry, every field from the LATER line
            if len(d12) == 1:
                e = list(d12.values())[0]
                later = z3.And(_eqt(e.sValue, v2), _eqt(e.Comment, ''), _eqt(e.raw_entry, n2 + ',' + v2))
                harness.discharge(log, c, 'a parameter given twice: value, comment and raw line of the entry all come from the last occurrence',
                                  z3.Implies(same, later), zv, concrete, sample=(k == 1))
            else:
                harness.discharge(log, c, 'two lines with different names give two entries', z3.Not(same), zv, concrete)
                ok = len(d21) == 2
                prop = z3.BoolVal(ok)
                if ok:
                    e1, e2 = d12[n1], d12[n2]
                    f1, f2 = d21[n1], d21[n2]
                    prop = z3.And(_eqt(e1.sValue, f1.sValue), _eqt(e2.sValue, f2.sValue), _eqt(e1.Comment, f1.Comment), _eqt(e2.Comment, f2.Comment),
                                  _eqt(e1.raw_entry, f1.raw_entry), _eqt(e2.raw_entry, f2.raw_entry))
                harness.discharge(log, c, 'the resulting mapping does not depend on the order of two lines with different names', prop, zv, concrete)
        yield log.result()
        return


def _c(s, m):
    return s.concrete(m) if isinstance(s, SymStr) else s


def _eqt(a, b):
    if isinstance(a, SymStr):
        return a.eq_term(b)
    if isinstance(b, SymStr):
        return b.eq_term(a)
    return z3.BoolVal(a == b)


def reference_parse(lines):
    """layout-free reading of input lines (the property's own statement, written independently of the reader)."""
    d = {}
    for raw in lines:
        line = raw.strip()
        if line.startswith('#') or line.startswith('--') or line.startswith('*'):
            continue
        if ',' not in line:
            continue
        parts = line.split(',')
        name, val = parts[0].strip(), parts[1].strip()
        comment = parts[2].strip() if len(parts) == 3 else ''.join(parts[2:])
        d[name] = (val, comment, line)
    return d


# ---- order-oracle units ---------------------------------------------------------------------------------------------------
class OrderOracleDict(dict):
    """a mapping whose ITERATION order is chosen by the solver (lookups are order-free by construction)."""
    counter = [0]

    def _order(self):
        keys = list(dict.keys(self))
        out = []
        while len(keys) > 1:
            self.counter[0] += 1
            picked = None
            for i in range(len(keys) - 1):
                if bool(SymBool(z3.Bool(f'iter{self.counter[0]}_next_is_{i}'))):
                    picked = i
                    break
            if picked is None:
                picked = len(keys) - 1
            out.append(keys.pop(picked))
        return out + keys

    def __iter__(self):
        return iter(self._order())

    def keys(self):
        return self._order()

    def items(self):
        return [(k, dict.__getitem__(self, k)) for k in self._order()]

    def values(self):
        return [dict.__getitem__(self, k) for k in self._order()]


def special_keys(cls):
    """string literals in the special-case code of read_parameters (AST of the current source) that name parameters of the class."""
    keys = set()
    for klass in cls.__mro__:
        fn = klass.__dict__.get('read_parameters')
        if fn is None:
            continue
        try:
            tree = ast.parse(textwrap.dedent(inspect.getsource(fn)))
        except (OSError, TypeError, SyntaxError):
            continue
        for node in ast.walk(tree):
            if isinstance(node, ast.Constant) and isinstance(node.value, str) and 3 <= len(node.value) <= 80:
                keys.add(node.value.strip())
    return keys


def helper_groups(obj):
    """groups of parameters that a reconciliation helper touches together: for every method `self.X(...)` that read_parameters calls (AST of
    the current source, transitively one level), the parameters held in the attributes `self.Y` the helper mentions.  Such parameters interact
    after reading (synonyms, paired adjustment factors, switches), so their relative order in the file is where an order dependence would sit."""
    cls = type(obj)
    groups, seen = [], set()

    def tree_of(fn):
        try:
            return ast.parse(textwrap.dedent(inspect.getsource(fn)))
        except (OSError, TypeError, SyntaxError):
            return None

    def self_calls(tree):
        out = []
        for node in ast.walk(tree):
            if isinstance(node, ast.Call) and isinstance(node.func, ast.Attribute) and isinstance(node.func.value, ast.Name) \
                    and node.func.value.id == 'self':
                out.append(node.func.attr)
        return out
    for klass in cls.__mro__:
        fn = klass.__dict__.get('read_parameters')
        if fn is None:
            continue
        t = tree_of(fn)
        if t is None:
            continue
        for mname in self_calls(t):
            if mname in seen or mname in ('read_parameters',):
                continue
            seen.add(mname)
            m = getattr(cls, mname, None)
            mt = tree_of(m) if callable(m) else None
            if mt is None:
                continue
            attrs = []
            for node in ast.walk(mt):
                if isinstance(node, ast.Attribute) and isinstance(node.value, ast.Name) and node.value.id == 'self' and node.attr not in attrs:
                    attrs.append(node.attr)
            names = []
            for a in attrs:
                v = getattr(obj, a, None)
                if gx.is_param(v) and hasattr(v, 'Name') and isinstance(v, (P.floatParameter, P.intParameter, P.boolParameter)) and v.Name.strip() not in names:
                    names.append(v.Name.strip())
            if len(names) >= 2:
                groups.append((mname, names[:4]))
    return groups


_ALL_NAMES = None


def prefix_keys(cls):
    """prefixes that read_parameters scans the input keys for (`key.startswith("...")` in the AST of the current source), each paired with a
    real parameter name of some simulator class that starts with it: the scan must not depend on where such a line stands."""
    global _ALL_NAMES
    if _ALL_NAMES is None:
        _ALL_NAMES = set()
        for modn, clsn in gx.SOURCE_CLASSES:
            try:
                o, _, _ = gx.make_source(modn, clsn)
                _ALL_NAMES |= {p.Name.strip() for p in o.ParameterDict.values()}
            except Exception:
                pass
    out = {}
    for klass in cls.__mro__:
        fn = klass.__dict__.get('read_parameters')
        if fn is None:
            continue
        try:
            tree = ast.parse(textwrap.dedent(inspect.getsource(fn)))
        except (OSError, TypeError, SyntaxError):
            continue
        for node in ast.walk(tree):
            if isinstance(node, ast.Call) and isinstance(node.func, ast.Attribute) and node.func.attr == 'startswith' and node.args \
                    and isinstance(node.args[0], ast.Constant) and isinstance(node.args[0].value, str) and len(node.args[0].value) >= 3:
                pre = node.args[0].value
                full = sorted(n for n in _ALL_NAMES if n.startswith(pre))
                out[pre] = full[0] if full else pre + ' 1'
    return out


def values_for(prm):
    if isinstance(prm, P.floatParameter):
        lo, hi = float(prm.Min), float(prm.Max)
        mid = lo + (hi - lo) / 2 if math.isfinite(hi - lo) else 1.0
        out = [repr(mid)]
        if math.isfinite(hi - lo) and hi > lo:
            out.append(repr(lo + (hi - lo) / 8))       # a second value: synonyms given with different values must still read order-free
        if prm.Name == 'Plant Outlet Pressure':
            out.append('500')
        return out
    if isinstance(prm, P.intParameter):
        al = [int(x) for x in prm.AllowableRange]
        dv = prm.DefaultValue if isinstance(prm.DefaultValue, int) else None
        cand = [a for a in al if a != dv]
        if not cand:
            return []
        picks = sorted({cand[0], cand[len(cand) // 2], cand[-1]})
        if prm.Name == 'End-Use Option':
            picks = [2, 31, 41, 52]
        if prm.Name == 'Power Plant Type':
            picks = [1, 3, 6]
        return [str(x) for x in picks]
    if isinstance(prm, P.boolParameter):
        return ['True']
    return []


def state_of(obj, model):
    out = {}
    holders = [('obj', obj)] + [(cn, getattr(model, cn, None)) for cn in gx.COMPONENTS if getattr(model, cn, None) is not obj]
    for hn, h in holders:
        if h is None:
            continue
        for an, av in vars(h).items():
            if gx.is_param(av):
                v = av.value
                out[f'{hn}.{an}'] = (repr(v), repr(getattr(av, 'CurrentUnits', None)), getattr(av, 'Provided', None), getattr(av, 'Valid', None))
            elif isinstance(av, (int, float, str, bool, type(None))):
                out[f'{hn}.{an}'] = repr(av)
    return out


def read_with(modn, clsn, entries, oracle):
    obj, model, mod = gx.make_source(modn, clsn)
    d = OrderOracleDict() if oracle else {}
    for k, v in entries:
        d[k] = P.ParameterEntry(Name=k, sValue=v, raw_entry=f'{k}, {v}')
    model.InputParameters = d
    exc = None
    try:
        with contextlib.redirect_stdout(io.StringIO()):
            obj.read_parameters(model)
    except Exception as e:
        exc = type(e).__name__ + ': ' + str(e)[:80]
    return state_of(obj, model), exc


def run_order(unit):
    modn, clsn = unit['module'], unit['cls']
    obj0, model0, mod = gx.make_source(modn, clsn)
    names = {p.Name.strip(): p for p in obj0.ParameterDict.values()}
    sk = sorted(k for k in special_keys(type(obj0)) if k in names and values_for(names[k]))
    cfg = {'harness': 'order-oracle', 'class': clsn, 'special_case_keys': sk}
    log = harness.UnitLog(cfg)
    groups = [g for g in itertools.combinations(sk, 2)]
    if len(sk) >= 3:
        groups += [tuple(sk[i:i + 3]) for i in range(0, len(sk) - 2, 2)]
    if unit['tier'] == 'quick' and len(groups) > 80:
        step = len(groups) // 80 + 1
        groups = groups[(unit.get('seed', 0)) % step::step]
    # lines that read_parameters only scans for by prefix (add-on / S-DAC-GT auto-detection ...): any order of two such lines, and of one
    # such line with a specially handled parameter
    pk = prefix_keys(type(obj0))
    synth = sorted(set(pk.values()))
    groups += [g for g in itertools.combinations(synth, 2)] + [(a, b) for a in synth for b in sk[:3]]
    if len(synth) >= 3:
        groups += [tuple(synth[:3])]
    cfg['prefix_scanned_keys'] = synth
    # parameters that a reconciliation helper called from read_parameters touches together (synonymous rates, paired factors ...)
    hg = helper_groups(obj0)
    cfg['helper_groups'] = [[m, ns] for m, ns in hg]
    for _m, ns in hg:
        ns = [n for n in ns if n in names and values_for(names[n])]
        groups += [g for g in itertools.combinations(ns, 2) if g not in groups]

    def vals_of(k, n):
        return values_for(names[k])[:n] if k in names and values_for(names[k]) else ['1']
    for g in groups:
        combos = list(itertools.product(*[vals_of(k, 3 if len(g) == 2 else 2) for k in g]))
        for combo in combos:
            entries = list(zip(g, combo))
            canon, cexc = read_with(modn, clsn, entries, False)
            zv = {}

            def concrete(inp, entries=entries):
                res = []
                for perm in itertools.permutations(entries):
                    st, exc = read_with(modn, clsn, list(perm), False)
                    res.append((st, exc, [k for k, _ in perm]))
                # the real reader iterates ParameterDict, so insertion order must not matter
                bad = [(o, [k for k in st if st[k] != res[0][0].get(k)][:4]) for st, exc, o in res if st != res[0][0] or exc != res[0][1]]
                return bool(bad), {'entries': entries, 'orders whose final state differs from the first order': bad[:3]}
            k = 0
            for pr in core.explore(lambda: read_with(modn, clsn, entries, True), max_paths=5000):
                log.path(pr)
                k += 1
                if pr.error is not None:
                    raise pr.error
                if pr.aborted:
                    continue
                st, exc = pr.value
                if k == 1:
                    harness.reachable(log, pr.ctx, 500)
                diff = [x for x in canon if st.get(x) != canon[x]][:4]
                for name in pr.ctx.pc:
                    pass
                zvp = {str(v): v for c_ in pr.ctx.pc for v in _bools(c_)}
                harness.discharge(log, pr.ctx, f'{clsn}: the parameter state after reading does not depend on the order in which the input keys are visited ({", ".join(g)})',
                                  st == canon and exc == cexc, zvp, concrete, sample=(k == 2))
    yield log.result()


def _bools(t):
    out, stack = [], [t]
    while stack:
        x = stack.pop()
        if z3.is_const(x) and z3.is_bool(x) and x.decl().kind() == z3.Z3_OP_UNINTERPRETED:
            out.append(x)
        elif z3.is_app(x):
            stack.extend(x.children())
    return out


# ---- client: override params are appended after the base file ------------------------------------------------------------------
def run_client(unit):
    cfg = {'harness': 'client-override-order'}
    log = harness.UnitLog(cfg)
    from geophires_x_client import GeophiresInputParameters
    d = tempfile.mkdtemp(prefix='symx_c12c_')
    try:
        base = os.path.join(d, 'base.txt')
        open(base, 'w').write('Reservoir Depth, 3\nGradient 1, 50\nGradients, 40, 30\n')
        for params in ({'Reservoir Depth': 4}, {'Gradients': '55, 35'}, {'Gradient 1': 60, 'Reservoir Depth': 2}):
            ip = GeophiresInputParameters(from_file_path=base, params=params)
            got = concrete_tokenize(open(ip.as_file_path()).read())
            os.unlink(ip.as_file_path())
            log['paths'] += 1
            log['reachable'] += 1
            for k, v in params.items():
                log['obligations'] += 1
                e = got.get(k)
                ok = e is not None and e[0] == str(v).split(',')[0].strip() and e[2].replace(' ', '') == f'{k},{v}'.replace(' ', '')
                if ok:
                    log['discharged'] += 1
                else:
                    log['cex'].append({'obligation': 'client override parameters (appended after the base file) govern every field of the entry', 'finding': None,
                                       'config': cfg, 'reproduced': True, 'inputs': {'params': params}, 'detail': {'entry': e}, 'how': 'native', 'attempts': []})
        # exhaustive over small base files (<= 3 lines over two names, repeated and contradicting lines included) x override sets: an
        # overridden name reads as the override says, every other name as the last base line says
        alphabet = [('Reservoir Depth', '3'), ('Reservoir Depth', '4'), ('Gradient 1', '50')]
        overrides = [{}, {'Reservoir Depth': 3}, {'Reservoir Depth': 4}, {'Gradient 1': 50}, {'Gradient 1': 60}, {'Reservoir Depth': 3, 'Gradient 1': 50},
                     {'Gradient 1': 50, 'Reservoir Depth': 4}]
        cfg['base files'] = 'all sequences of <= 3 lines over ' + repr(alphabet)
        cfg['override sets'] = overrides
        for n in range(0, 4):
            for seq in itertools.product(alphabet, repeat=n):
                open(base, 'w').write(''.join(f'{k}, {v}\n' for k, v in seq))
                last = {}
                for k, v in seq:
                    last[k] = v
                for params in overrides[1:] if n == 0 else overrides:
                    if not params and n == 0:
                        continue
                    ip = GeophiresInputParameters(from_file_path=base, params=params) if params else GeophiresInputParameters(from_file_path=base)
                    got = concrete_tokenize(open(ip.as_file_path()).read())
                    if params:
                        os.unlink(ip.as_file_path())
                    want = dict(last)
                    want.update({k: str(v) for k, v in params.items()})
                    log['paths'] += 1
                    log['reachable'] += 1
                    log['obligations'] += 1
                    eff = {k: e[0] for k, e in got.items()}
                    if eff == want:
                        log['discharged'] += 1
                    else:
                        log['cex'].append({'obligation': 'client: an overridden name reads as the override says, every other name as the last base line says', 'finding': None,
                                           'config': {'harness': 'client-override-order'}, 'reproduced': True,
                                           'inputs': {'base file lines': [f'{k}, {v}' for k, v in seq], 'params': params},
                                           'detail': {'effective': eff, 'expected': want}, 'how': 'native (exhaustive enumeration)', 'attempts': []})
    finally:
        import shutil
        shutil.rmtree(d, ignore_errors=True)
    yield log.result()


ORDER_CLASSES = [('geophires_x.SurfacePlant', 'SurfacePlant'), ('geophires_x.Reservoir', 'Reservoir'), ('geophires_x.WellBores', 'WellBores'),
                 ('geophires_x.Economics', 'Economics'), ('geophires_x.SurfacePlantDistrictHeating', 'SurfacePlantDistrictHeating'),
                 ('geophires_x.CylindricalReservoir', 'CylindricalReservoir'), ('geophires_x.SBTReservoir', 'SBTReservoir'),
                 ('geophires_x.EconomicsAddOns', 'EconomicsAddOns')]


def units(tier, seed):
    n = LEN[tier]
    us = [{'harness': 'tokenizer', 'kind': 'whole-line', 'n': k} for k in range(1, n + 1)]
    us += [{'harness': 'tokenizer', 'kind': 'neighbours', 'n': k} for k in range(1, n)]
    us += [{'harness': 'tokenizer', 'kind': 'decoration', 'n': n, 'nn': nn, 'nv': nv} for nn, nv in ((1, 1), (2, 1), (1, 2))]
    us += [{'harness': 'tokenizer', 'kind': 'duplicates', 'n': n, 'nn': nn, 'nv': nv} for nn, nv in ((1, 1), (2, 1))]
    for modn, clsn in ORDER_CLASSES[:4 if tier == 'quick' else None]:
        us.append({'harness': 'order', 'module': modn, 'cls': clsn, 'seed': seed})
    us.append({'harness': 'client'})
    us.append({'harness': 'client-real-files', 'H': 2, 'caching': True})      # duplicates / permutations through the client cache (last occurrence governs)
    us.append({'harness': 'line-endings'})
    us.append({'harness': 'list-layouts'})
    return us


# ---- list-valued lines: the values read do not depend on how the line is laid out -----------------------------------------------------
LIST_SEPS = [', ', ',', ' ,', ' , ', ',\t']
LIST_TRAILS = ['', ',', ', -- a remark', ' -- a remark, with a comma', ' ']


def run_list_layouts(unit):
    """real read_input_file on a real file + real Reservoir.read_parameters: the numeric tokens of the list lines ('Gradients, ..',
    'Thicknesses, ..') are solver variables; every layout of the same tokens (blank/tab placement around the separating commas, a
    trailing comma, a trailing '--' remark) must store the values the canonical layout 'Name, a, b, c' stores."""
    from . import c05, c07
    from geophires_x import Reservoir as R
    cfg = {'harness': 'list-layouts', 'entries per list': 3, 'separators': [repr(x) for x in LIST_SEPS], 'trailers': [repr(x) for x in LIST_TRAILS]}
    log = harness.UnitLog(cfg)
    S = 3
    names = [f'Gradient {i + 1}' for i in range(S)] + [f'Thickness {i + 1}' for i in range(S)]
    rng = {n: ((2, 500) if n.startswith('G') else (0.011, 99)) for n in names}
    fresh, _, _ = gx.make_source('geophires_x.TDPReservoir', 'TDPReservoir')
    g0, th0 = list(fresh.gradient.value), list(fresh.layerthickness.value)
    d = tempfile.mkdtemp(prefix='symx_c12ll_')

    class Lg:
        def __getattr__(self, k):
            return lambda *a, **kw: None

    def read(vals, sep, trail, symbolic):
        toks = {n: (str(vals[n]) if symbolic else repr(float(vals[n]))) for n in names}
        text = f'Number of Segments, {S}\n'
        for lname, pre in (('Gradients', 'Gradient'), ('Thicknesses', 'Thickness')):
            text += lname + sep + sep.join(toks[f'{pre} {i + 1}'] for i in range(S)) + trail + '\n'
        pth = os.path.join(d, 'in.txt')
        with open(pth, 'w') as f:
            f.write(text)
        entries = {}
        GU.read_input_file(entries, logger=Lg(), input_file_name=pth)
        m = c05.base_model(4, S, 2, 2)
        r = m.reserv
        r.gradient.value, r.layerthickness.value = list(g0), list(th0)
        m.InputParameters = entries
        with contextlib.redirect_stdout(io.StringIO()):
            if symbolic:
                with shim.shadow(*(list(c07.param_shadows()) + c05.RES_SHADOWS)):
                    R.Reservoir.read_parameters(r, m)
            else:
                R.Reservoir.read_parameters(r, m)
        return list(r.gradient.value)[:S] + list(r.layerthickness.value)[:S], text

    def compare(vals, sep, trail, symbolic):
        ref, _ = read(vals, LIST_SEPS[0], LIST_TRAILS[0], symbolic)
        try:
            got, text = read(vals, sep, trail, symbolic)
        except (ValueError, RuntimeError, IndexError, TypeError) as e:
            return [(f'list line laid out with separator {sep!r} and trailer {trail!r} is read (raised {type(e).__name__})', False)], None
        out = [(f'list line laid out with separator {sep!r} and trailer {trail!r}: same number of entries', len(got) == len(ref))]
        for i, (a, b) in enumerate(zip(got, ref)):
            out.append((f'list line laid out with separator {sep!r} and trailer {trail!r}: entry {i} as in the canonical layout', core.near(a, b, 1e-12) if (core.is_sym(a) or core.is_sym(b)) else bool(a == b)))
        return out, text
    zv = {n: z3.Real(n) for n in names}
    try:
        for sep in LIST_SEPS:
            for trail in LIST_TRAILS:
                def concrete(inp, only=None, sep=sep, trail=trail):
                    vals = {n: float(inp[n]) for n in names}
                    obs, text = compare(vals, sep, trail, False)
                    bad = [n for n, ok in obs if not ok and (only is None or n == only)]
                    return bool(bad), {'failed': bad[:4], 'file text': text}

                def fn(sep=sep, trail=trail):
                    vals = {n: core.sym(n, *rng[n]) for n in names}
                    return compare(vals, sep, trail, True)[0]
                n = 0
                for pr in core.explore(fn, max_paths=4000):
                    log.path(pr)
                    n += 1
                    if pr.error is not None:
                        raise pr.error
                    if pr.aborted:
                        continue
                    if n <= 2:
                        harness.reachable(log, pr.ctx, 2000)
                    else:
                        log['reachable'] += 1
                    for name, cond in pr.value:
                        harness.discharge(log, pr.ctx, name, cond, zv, lambda inp, name=name, concrete=concrete: concrete(inp, name), timeout_ms=10000,
                                          sample=(n == 1 and sep == ',' and trail == ''))
    finally:
        shutil.rmtree(d, ignore_errors=True)
    yield log.result()


# ---- line-ending styles on real files -------------------------------------------------------------------------------------------
def run_line_endings(unit):
    """the real read_input_file on real files: the same lines terminated by LF, CRLF, CR, mixed, with and without a final terminator
    (exhaustive over the terminator assignments of a 4-line file): the dictionary the simulator is given must be the same."""
    cfg = {'harness': 'line-endings'}
    log = harness.UnitLog(cfg)
    from geophires_x.GeoPHIRESUtils import read_input_file

    class L:
        def __getattr__(self, k):
            return lambda *a, **kw: None
    lines = ['# economics block', 'Plant Lifetime, 25', 'Economic Model, 1, -- a remark', 'Gradients, 50, 40']
    d = tempfile.mkdtemp(prefix='symx_c12le_')

    def parse(text):
        pth = os.path.join(d, 'in.txt')
        with open(pth, 'w', newline='') as f:
            f.write(text)
        out = {}
        read_input_file(out, logger=L(), input_file_name=pth)
        return {k: (str(v.sValue), str(getattr(v, 'raw_entry', '')).rstrip('\r\n')) for k, v in out.items()}
    try:
        ref = parse('\n'.join(lines) + '\n')
        terms = ['\n', '\r\n', '\r']
        for combo in itertools.product(terms, repeat=len(lines) - 1):
            for last in ('', '\n', '\r\n', '\r'):
                text = ''.join(ln + t for ln, t in zip(lines, list(combo) + [last]))
                log['paths'] += 1
                log['reachable'] += 1
                log['obligations'] += 1
                got = parse(text)
                if got == ref:
                    log['discharged'] += 1
                else:
                    log['cex'].append({'obligation': 'the parameters read do not depend on the line-ending style (LF, CRLF, CR, mixed, missing final terminator)', 'finding': None, 'config': cfg,
                                       'reproduced': True, 'inputs': {'file text': repr(text)}, 'detail': {'read': {k: v[0] for k, v in got.items()}, 'with LF': {k: v[0] for k, v in ref.items()}},
                                       'how': 'exhaustive enumeration of terminator assignments on a real file with the real reader', 'attempts': []})
    finally:
        shutil.rmtree(d, ignore_errors=True)
    log['samples'].append({'lines': lines, 'terminators': ['LF', 'CRLF', 'CR'], 'assignments': 3 ** (len(lines) - 1) * 4})
    log.d['exhaustive'] = True
    yield log.result()


def run_unit(unit):
    if unit['harness'] == 'client-real-files':
        from . import c08files
        yield from c08files.run_unit(unit)
        return
    if unit['harness'] == 'line-endings':
        yield from run_line_endings(unit)
        return
    if unit['harness'] == 'list-layouts':
        yield from run_list_layouts(unit)
        return
    h = unit['harness']
    if h == 'tokenizer':
        yield from run_tokenizer(unit)
    elif h == 'order':
        yield from run_order(unit)
    else:
        yield from run_client(unit)


def replay(cex):
    raise NotImplementedError
