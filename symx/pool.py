"""Work-unit pool: every unit runs in a forked child with a hard wall-clock kill (z3 can ignore its own timeout)."""
from __future__ import annotations

import multiprocessing as mp
import os
import pickle
import time
import traceback
from multiprocessing.connection import wait


def _child(conn, fn, unit):
    try:
        for msg in fn(unit):
            conn.send(('part', msg))
        conn.send(('done', None))
    except BaseException as e:  # noqa
        try:
            conn.send(('error', f'{type(e).__name__}: {e}\n{traceback.format_exc()[-3000:]}'))
        except Exception:
            pass
    finally:
        conn.close()
        os._exit(0)


def run_units(fn, units, jobs=None, unit_timeout=300.0, progress=None):
    """fn(unit) is a generator yielding picklable partial results.  Returns list of
    (unit, parts, status, seconds) with status in {'done','timeout','error:<msg>','died'}."""
    ctxmp = mp.get_context('fork')
    jobs = jobs or min(16, os.cpu_count() or 4)
    pending = list(enumerate(units))[::-1]
    running = {}  # conn -> (idx, unit, proc, t0, parts)
    out = [None] * len(units)
    while pending or running:
        while pending and len(running) < jobs:
            idx, unit = pending.pop()
            pc, cc = ctxmp.Pipe(duplex=False)
            p = ctxmp.Process(target=_child, args=(cc, fn, unit), daemon=False)
            p.start()
            cc.close()
            running[pc] = (idx, unit, p, time.time(), [])
        ready = wait(list(running.keys()), timeout=0.5)
        now = time.time()
        for conn in ready:
            idx, unit, p, t0, parts = running[conn]
            try:
                while conn.poll():
                    kind, msg = conn.recv()
                    if kind == 'part':
                        parts.append(msg)
                    elif kind == 'done':
                        out[idx] = (unit, parts, 'done', now - t0)
                    elif kind == 'error':
                        out[idx] = (unit, parts, 'error:' + msg, now - t0)
            except (EOFError, OSError, pickle.UnpicklingError):
                if out[idx] is None:
                    out[idx] = (unit, parts, 'died', now - t0)
            if out[idx] is not None:
                conn.close()
                p.join(timeout=1)
                if p.is_alive():
                    p.kill()
                del running[conn]
                if progress:
                    progress(out[idx])
        for conn in list(running.keys()):
            idx, unit, p, t0, parts = running[conn]
            if now - t0 > unit_timeout:
                p.kill()
                p.join(timeout=1)
                # drain what was sent
                try:
                    while conn.poll():
                        kind, msg = conn.recv()
                        if kind == 'part':
                            parts.append(msg)
                except Exception:
                    pass
                out[idx] = (unit, parts, 'timeout', now - t0)
                conn.close()
                del running[conn]
                if progress:
                    progress(out[idx])
    return out
