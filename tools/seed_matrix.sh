#!/bin/sh
# usage: tools/seed_matrix.sh [tier] [seed-dir-glob] [check-id-override]
# For every confirmed seeded change under /verif/seeded: apply patch.diff in a scratch worktree of /repo HEAD (never in /repo itself), run the
# quick (or given) check of its own property against that tree (SYMX_REPO / PYTHONPATH) with --no-evidence, record exit code / violation
# lines in seeded/<dir>/detection_<tier>.json, remove the worktree.
TIER="${1:-quick}"; GLOB="${2:-*}"; OVERRIDE="$3"
cd /verif
for d in seeded/$GLOB/; do
  d=${d%/}
  [ -f "$d/patch.diff" ] || continue
  ID=${OVERRIDE:-$(basename "$d" | cut -d- -f1)}
  WT=/tmp/smx_$$_$(basename "$d")
  git -C /repo worktree add --detach "$WT" HEAD -q || continue
  if ! git -C "$WT" apply "/verif/$d/patch.diff"; then echo "$d: PATCH DOES NOT APPLY"; git -C /repo worktree remove --force "$WT"; continue; fi
  T0=$(date +%s)
  SYMX_REPO="$WT" PYTHONPATH="$WT/src" ./.venv/bin/python -m symx.check "$ID" --tier "$TIER" --no-evidence > "$d/check_$TIER.log" 2>&1
  RC=$?
  T1=$(date +%s)
  NV=$(grep -c '^VIOLATION' "$d/check_$TIER.log")
  FIRST=$(grep -m1 'violated obligation' "$d/check_$TIER.log" | cut -c1-300 | sed 's/\\/\\\\/g; s/"/\\"/g')
  git -C /repo worktree remove --force "$WT"
  grep -E '^(VIOLATION|KNOWN-FINDING|C[0-9]+ |HARNESS)|violated obligation' "$d/check_$TIER.log" | cut -c1-400 | head -40 > "$d/check_$TIER.log.tmp"; mv "$d/check_$TIER.log.tmp" "$d/check_$TIER.log"
  SUF=""; [ -n "$OVERRIDE" ] && SUF="_by_$OVERRIDE"
  echo "{\"check\": \"./.venv/bin/python -m symx.check $ID --tier $TIER\", \"exit\": $RC, \"violation_lines\": $NV, \"wall_s\": $((T1-T0)), \"first_violated_obligation\": \"$FIRST\", \"repo_head\": \"$(git -C /repo rev-parse --short HEAD)\"}" > "$d/detection_$TIER$SUF.json"
  echo "$d [$ID] exit=$RC violations=$NV wall=$((T1-T0))s"
done
