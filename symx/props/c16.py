"""C16 — price and incentive schedules have the documented shape (DESIGN §4 C16)."""
from __future__ import annotations

import z3

from .. import core, econ, harness, shim
from ..core import eq, sand, sor, snot, sym, symbool, SymReal, SymBool
from . import c04

from geophires_x import Economics as E

ID = 'C16'
FUNCTIONS = ['geophires_x.Economics:BuildPricingModel', 'geophires_x.Economics:BuildPTCModel',
             'geophires_x.Economics:Economics.Calculate']
UNIT_TIMEOUT = {'quick': 240, 'thorough': 1500}
LMAX = {'quick': 4, 'thorough': 8}
ECON_BOUNDS = {'quick': [(2, 1), (2, 2), (3, 1)], 'thorough': [(2, 1), (2, 2), (3, 1), (3, 2), (4, 1), (4, 3), (5, 2)]}
META = {
    'explanation': 'BuildPricingModel and BuildPTCModel are executed on proxies with start/end price, escalation rate, PTC amount and '
                   'inflation symbolic for every (lifetime, escalation start year, PTC duration) triple in the bound (integers enumerated '
                   'exhaustively, as the property says); the real Economics.Calculate is executed with ITC rate, grants, incentives, '
                   'fees, tax relief, prices and PTC settings symbolic (ITC-provided and inflation-adjusted flags symbolic Booleans). z3 '
                   'proves every element of every schedule equal to min(start + max(0,i-s)*rate, end) + ptc_i, the K leading zeros, and '
                   'the exact ITC / grant / fee arithmetic.',
    'bounds': {t: {'builders: lifetime L': f'1..{LMAX[t]}', 'escalation start year': '0..L+1', 'PTC duration': '0..L',
                   'Economics.Calculate (L,K)': ECON_BOUNDS[t]} for t in LMAX},
    'outside': ['lifetimes beyond the bound', 'PTC duration > lifetime (raises IndexError on the pinned tree; robustness, not claimed)',
                'IEEE rounding'],
    'assumptions': ['real arithmetic', 'inputs inside their declared [Min, Max]'],
    'stubs': ['Economics.npf/np/math shims as in C04 (only for the Economics.Calculate units)'],
}


def ref_price(i, start, end, s, rate, ptc_i):
    p = start + (i - s) * rate if i >= s else start
    return core.ite(p > end, end, p) + ptc_i


def ref_ptc(i, duration, p, adjusted, infl):
    if i >= duration:
        return 0.0
    if i == 0:
        return p
    adj = p * (1 + infl) ** i
    if isinstance(adjusted, SymBool):
        return core.ite(adjusted, adj, p)
    return adj if adjusted else p


def concrete_builders(cfg, inp):
    L, s, d = cfg['L'], cfg['s'], cfg['d']
    adj = bool(inp.get('adjusted', False))
    ptc = E.BuildPTCModel(L, d, inp['ptc'], adj, inp['infl'])
    pr = E.BuildPricingModel(L, inp['start'], inp['end'], s, inp['rate'], ptc)
    bad = []
    for i in range(L):
        rp = ref_ptc(i, d, inp['ptc'], adj, inp['infl'])
        if not eq(ptc[i], rp):
            bad.append(f'ptc[{i}]')
        if not eq(pr[i], ref_price(i, inp['start'], inp['end'], s, inp['rate'], rp)):
            bad.append(f'price[{i}]')
    return bool(bad) or len(pr) != L, {'failed': bad, 'price': [float(x) for x in pr], 'ptc': [float(x) for x in ptc]}


def run_builders(unit):
    L = unit['L']
    tmo = 20000
    for s in range(0, L + 2):
        for d in range(0, L + 1):
            cfg = {'kind': 'builders', 'L': L, 's': s, 'd': d}
            log = harness.UnitLog(cfg)

            def fn():
                start, end = sym('start', 0, 100), sym('end', 0, 100)
                rate, ptc, infl = sym('rate', 0, 100), sym('ptc', 0, 100), sym('infl', 0, 1)
                adjusted = symbool('adjusted')
                P = E.BuildPTCModel(L, d, ptc, adjusted, infl)
                X = E.BuildPricingModel(L, start, end, s, rate, P)
                return (start, end, rate, ptc, infl, adjusted), P, X
            zv = {'start': z3.Real('start'), 'end': z3.Real('end'), 'rate': z3.Real('rate'), 'ptc': z3.Real('ptc'),
                  'infl': z3.Real('infl'), 'adjusted': z3.Bool('adjusted')}
            for pr in core.explore(fn, max_paths=5000):
                log.path(pr)
                if pr.error is not None:
                    raise pr.error
                (start, end, rate, ptc, infl, adjusted), P, X = pr.value
                c = pr.ctx
                harness.reachable(log, c, 2000)
                harness.discharge(log, c, 'schedule lengths', len(P) == L and len(X) == L, zv, lambda inp: concrete_builders(cfg, inp))
                for i in range(L):
                    rp = ref_ptc(i, d, ptc, adjusted, infl)
                    harness.discharge(log, c, f'ptc[{i}] = p*(1+infl)^i inside the duration else 0', eq(P[i], rp), zv,
                                      lambda inp: concrete_builders(cfg, inp), timeout_ms=tmo)
                    harness.discharge(log, c, f'price[{i}] = min(start + max(0,i-s)*rate, end) + ptc[{i}]',
                                      eq(X[i], ref_price(i, start, end, s, rate, rp)), zv,
                                      lambda inp: concrete_builders(cfg, inp), timeout_ms=tmo, sample=(i == L - 1 and s == 1 and d == 1))
                    harness.discharge(log, c, f'price[{i}] - ptc[{i}] never exceeds the ending price', X[i] - rp <= end, zv,
                                      lambda inp: concrete_builders(cfg, inp), timeout_ms=tmo)
            yield log.result()


# ---- through Economics.Calculate --------------------------------------------------------------------------
def econ_cfg(L, K, kind):
    c = c04.cfg_of(kind, L, K, False)
    c['harness'] = 'econ'
    return c


def econ_spec(cfg):
    L = cfg['L']
    s = [('economics.totalcapcost', 'real', 0, 1000), ('economics.oamtotalfixed', 'real', 0, 100),
         ('economics.RITC', 'real', 0, 1), ('economics.RITC.Provided', 'bool', None, None),
         ('economics.TotalGrant', 'real', -1000, 1000), ('economics.OtherIncentives', 'real', -1000, 1000),
         ('economics.FlatLicenseEtc', 'real', -1000, 1000), ('economics.AnnualLicenseEtc', 'real', -1000, 1000),
         ('economics.TaxRelief', 'real', 0, 100), ('economics.RINFL', 'real', 0, 1),
         ('economics.PTCInflationAdjusted', 'bool', None, None)]
    for p in _products(cfg):
        s += [(f'economics.{p}StartPrice', 'real', 0, 100), (f'economics.{p}EndPrice', 'real', 0, 100),
              (f'economics.{p}EscalationRate', 'real', 0, 100), (f'economics.PTC{p}', 'real', 0, 10)]
    for j in range(cfg.get('addon', 0)):
        s += [(f'addeconomics.AddOnCAPEX[{j}]', 'real', -1000, 1000)]
    return s


def _products(cfg):
    """every product the configuration sells (a cogeneration plant claims a credit for electricity AND for heat in one input)."""
    return c04.products_of(cfg['kind']) if cfg.get('all_products') else c04.products_of(cfg['kind'])[:1]


def econ_fixed(cfg):
    f = dict(c04.FIXED)
    f['economics.PTCDuration'] = cfg['d']
    for p in _products(cfg):
        f.update({f'economics.PTC{p}.Provided': True, f'economics.{p}EscalationStart': cfg['s']})
    for j in range(cfg.get('addon', 0)):
        for a in c04.ADDON_LISTS:
            if a != 'AddOnCAPEX':
                f[f'addeconomics.{a}[{j}]'] = 0.0
    return f


def econ_drive(cfg, vals, symbolic):
    pr = c04.prepared({k: v for k, v in cfg.items() if k not in ('harness', 's', 'd', 'all_products')})
    m = pr.reset()
    v = dict(vals)
    v.update(econ_fixed(cfg))
    econ.install(m, v)
    econ.run_econ(m, symbolic=symbolic)
    return m


def econ_obligations(cfg, m, vals, near=False):
    eq = core.near if near else globals()['eq']      # noqa: F811 (input-path units: code folds float constants on equal-to-default paths)
    e = m.economics
    L, K = cfg['L'], cfg['K']
    p = c04.products_of(cfg['kind'])[0]
    g = lambda k: vals['economics.' + k]
    out = []
    base = g('totalcapcost')
    prov = g('RITC.Provided')
    itc = g('RITC') * base
    out.append(('ITC value = rate x capital cost (when a rate is provided)', sor(snot(prov), eq(e.RITCValue.value, itc))))
    adj = g('FlatLicenseEtc') - g('OtherIncentives') - g('TotalGrant')
    out.append(('capital cost = cost - ITC + one-time fees - incentives - grants',
                sor(sand(prov, eq(e.CCap.value, base - itc + adj)), sand(snot(prov), eq(e.CCap.value, base + adj)))))
    redrill = (e.Cwell.value + e.Cstim.value) * m.wellbores.redrill.value / L if m.wellbores.redrill.value > 0 else 0.0
    out.append(('annual O&M = O&M + redrilling + annual fees - tax relief',
                eq(e.Coam.value, g('oamtotalfixed') + redrill + g('AnnualLicenseEtc') - g('TaxRelief'))))
    for p in (_products(cfg) if not near else [p]):
        series = getattr(e, f'{p}Price').value
        out.append((f'{p} price series has K+L entries', len(series) == K + L))
        for i in range(K):
            out.append((f'{p} price in construction year {i} is zero', eq(series[i], 0.0)))
        for i in range(L):
            rp = ref_ptc(i, cfg['d'], g(f'PTC{p}'), g('PTCInflationAdjusted'), g('RINFL'))
            out.append((f'{p} price operating year {i}',
                        eq(series[K + i], ref_price(i, g(f'{p}StartPrice'), g(f'{p}EndPrice'), cfg['s'], g(f'{p}EscalationRate'), rp))))
    if cfg.get('addon'):
        a = m.addeconomics
        sC = sum(vals[f'addeconomics.AddOnCAPEX[{j}]'] for j in range(cfg['addon']))
        cc = core.ite(prov, base - itc + adj, base + adj) if core.is_sym(prov) else ((base - itc + adj) if prov else (base + adj))
        out.append(('with add-ons: adjusted project CAPEX = (cost - ITC + fees - incentives - grants) + add-on CAPEX: every incentive applied once',
                    eq(a.AdjustedProjectCAPEX.value, cc + sC)))
    return out


def concrete_econ(cfg, inputs, only=None):
    spec = econ_spec(cfg)
    vals = econ.concrete_vals(spec, inputs)
    try:
        m = econ_drive(cfg, vals, symbolic=False)
        obs = econ_obligations(cfg, m, vals)
    except ZeroDivisionError:
        return False, {'note': 'division by zero in floats'}
    bad = [n for n, ok in obs if not ok and (only is None or n == only)]
    e = m.economics
    p = c04.products_of(cfg['kind'])[0]
    return bool(bad), {'failed': bad[:6], 'CCap': e.CCap.value, 'Coam': e.Coam.value, 'RITCValue': e.RITCValue.value,
                       'price': [float(x) for x in getattr(e, f'{p}Price').value]}


def run_econ_unit(unit):
    cfg = {k: v for k, v in unit.items() if k != 'tier'}
    L = cfg['L']
    spec = econ_spec(cfg)
    for s in sorted({0, 1, L - 1, L + 1}):
        for d in sorted({0, 1, L}):
            cfg2 = dict(cfg, s=s, d=d)
            log = harness.UnitLog(cfg2)

            def fn():
                vals, zv = econ.make_symbolic(spec)
                m = econ_drive(cfg2, vals, symbolic=True)
                return zv, econ_obligations(cfg2, m, vals)
            n = 0
            for pr in core.explore(fn, max_paths=20000):
                log.path(pr)
                n += 1
                if pr.error is not None:
                    raise pr.error
                if pr.aborted:
                    continue
                zv, obs = pr.value
                c = pr.ctx
                if n <= 30 or n % 20 == 0:
                    harness.reachable(log, c, 2000)
                for name, cond in obs:
                    harness.discharge(log, c, name, cond, zv, lambda inp, name=name: concrete_econ(cfg2, inp, only=name),
                                      timeout_ms=20000, sample=(n == 1 and s == 1 and d == 1))
            yield log.result()


# ---- the same clauses entered through the real reader: credit, price, ITC rate, fees and tax relief as the input lines state them ----------
INPUT_SYM = ['PTC{p}', '{p}StartPrice', '{p}EndPrice', '{p}EscalationRate', 'RITC', 'AnnualLicenseEtc', 'TaxRelief']       # numeric tokens that are solver variables
INPUT_FIXED = {'totalcapcost': 80.0, 'oamtotalfixed': 3.0, 'TotalGrant': 2.5, 'OtherIncentives': 1.5,
               'FlatLicenseEtc': 0.75, 'RINFL': 0.03}


def run_econ_input(unit):
    from . import c07
    P = c07.P
    cfg = {k: v for k, v in unit.items() if k != 'tier'}
    L, K = cfg['L'], cfg['K']
    p = c04.products_of(cfg['kind'])[0]
    rng = dict((n, (lo, hi)) for n, _, lo, hi in econ_spec(cfg))
    for (sy, d) in ((1, 1), (0, L)):
        cfg2 = dict(cfg, s=sy, d=d)
        log = harness.UnitLog(dict(cfg2, harness='econ-from-input-lines'))
        sym_attrs = [a.format(p=p) for a in INPUT_SYM]
        fixed = {a.format(p=p): v for a, v in INPUT_FIXED.items()}

        def drive(vals, symbolic, cfg2=cfg2, sym_attrs=sym_attrs, fixed=fixed):
            pr = c04.prepared({k: v for k, v in cfg2.items() if k not in ('harness', 's', 'd')})
            m = pr.reset()
            e = m.economics
            entries = {}

            def line(attr, tok):
                name = getattr(e, attr).Name.strip()
                entries[name] = P.ParameterEntry(Name=name, sValue=tok, raw_entry=f'{name}, {tok}')
            for a in sym_attrs:
                if symbolic:
                    tok = c07.NumStr('SYMV')
                    tok.proxy = vals['economics.' + a]
                else:
                    tok = repr(float(vals['economics.' + a]))
                line(a, tok)
            for a, v in fixed.items():
                line(a, repr(v))
            line('PTCDuration', str(cfg2['d']))
            line(f'{p}EscalationStart', str(cfg2['s']))
            m.InputParameters = entries
            import contextlib
            import io
            with contextlib.redirect_stdout(io.StringIO()):
                if symbolic:
                    with shim.shadow(*c07.param_shadows()):
                        e.read_parameters(m)
                else:
                    e.read_parameters(m)
            e.PTCInflationAdjusted.value = vals['economics.PTCInflationAdjusted']
            econ.run_econ(m, symbolic=symbolic)
            return m

        def stated(vals, fixed=fixed):
            v = dict(vals)
            for a, x in fixed.items():
                v['economics.' + a] = x
            v['economics.RITC.Provided'] = True       # the line is present
            return v
        spec = [(f'economics.{a}', 'real') + rng[f'economics.{a}'] for a in sym_attrs] + [('economics.PTCInflationAdjusted', 'bool', None, None)]

        def concrete(inp, only=None, cfg2=cfg2, drive=drive, stated=stated, spec=spec):
            vals = econ.concrete_vals(spec, inp)
            try:
                m = drive(vals, False)
                obs = econ_obligations(cfg2, m, stated(vals), near=True)
            except (ZeroDivisionError, ValueError) as ex:
                return False, {'no result': repr(ex)[:100]}
            bad = [n for n, ok in obs if not ok and (only is None or n == only)]
            e = m.economics
            return bool(bad), {'failed': bad[:6], 'input lines (symbolic ones)': {k: vals[k] for k in vals}, 'CCap': e.CCap.value, 'Coam': e.Coam.value,
                               'price': [float(x) for x in getattr(e, f'{p}Price').value], 'credit marked as provided': bool(getattr(e, f'PTC{p}').Provided)}

        def fn(drive=drive, stated=stated, spec=spec, cfg2=cfg2):
            vals, zv = econ.make_symbolic(spec)
            m = drive(vals, True)
            return zv, econ_obligations(cfg2, m, stated(vals), near=True)
        n = 0
        for pr in core.explore(fn, max_paths=20000, catch=(ValueError, RuntimeError)):
            log.path(pr)
            n += 1
            if pr.aborted or pr.error is not None:
                continue
            zv, obs = pr.value
            if n <= 20 or n % 20 == 0:
                harness.reachable(log, pr.ctx, 2000)
            for name, cond in obs:
                harness.discharge(log, pr.ctx, 'from the input lines: ' + name, cond, zv, lambda inp, name=name, concrete=concrete: concrete(inp, only=name),
                                  timeout_ms=20000, sample=(n == 1))
        yield log.result()


def units(tier, seed):
    us = [{'harness': 'builders', 'L': L} for L in range(1, LMAX[tier] + 1)]
    for kind in (('electricity',) if tier == 'quick' else ('electricity', 'direct-use', 'chiller')):
        c = econ_cfg(2, 1, kind)
        c['harness'] = 'econ-input'
        us.append(c)
    for (L, K) in ECON_BOUNDS[tier]:
        for kind in ('electricity', 'direct-use', 'chiller'):
            us.append(econ_cfg(L, K, kind))
    # a cogeneration plant claiming both credits in one input; a run with an add-on (adjusted project CAPEX)
    # (the two-product / add-on units have about twice the paths of a one-product unit: the largest (L, K) pairs exceed the unit time limit and are left out)
    for (L, K) in ([(2, 1)] if tier == 'quick' else [lk for lk in ECON_BOUNDS[tier] if lk[0] + lk[1] <= 5]):
        us.append(dict(econ_cfg(L, K, 'cogen-topping'), all_products=True))
        us.append(dict(c04.cfg_of('electricity', L, K, False, addon=1), harness='econ'))
    # the closed-loop family has its own copy of the schedule / incentive code (SBTEconomics.Calculate)
    from . import c03
    for K in ((1,) if tier == 'quick' else (1, 2)):
        us.append(dict({k: v for k, v in c03.sbt_cfg({}, K=K).items() if k != 'flags'}, harness='econ'))
    return us


def run_unit(unit):
    if unit['harness'] == 'builders':
        yield from run_builders(unit)
    elif unit['harness'] == 'econ-input':
        yield from run_econ_input(unit)
    else:
        yield from run_econ_unit(unit)


def replay(cex):
    cfg = cex['config']
    if cfg.get('kind') == 'builders':
        return concrete_builders(cfg, cex['inputs'])
    return concrete_econ(cfg, cex['inputs'], only=cex.get('obligation'))
