"""C08, process-global state: a component's Calculate leaves the numeric-library and process settings every later run in the same process
depends on (mpmath working precision, numpy error state, decimal context, recursion limit, cwd, argv) as it found them - on every path,
including the paths on which the step FAILS at a solver-chosen point (the k-th numerical inversion raises).  The reservoir models with a
numerical Laplace inversion (1, 2) run for real under the C05 stubs; whether and where an inversion fails is a solver Boolean per call."""
from __future__ import annotations

import decimal
import os
import sys

import numpy as np
import z3

from .. import core, harness, shim
from ..core import SymReal
from . import c05


def knobs():
    import mpmath
    return {'mpmath.mp.dps': int(mpmath.mp.dps), 'mpmath.mp.prec': int(mpmath.mp.prec), 'numpy.geterr': dict(np.geterr()),
            'decimal precision': decimal.getcontext().prec, 'recursion limit': sys.getrecursionlimit(), 'cwd': os.getcwd(), 'argv': list(sys.argv)}


def restore(k):
    import mpmath
    mpmath.mp.dps = k['mpmath.mp.dps']
    np.seterr(**k['numpy.geterr'])
    decimal.getcontext().prec = k['decimal precision']
    sys.setrecursionlimit(k['recursion limit'])
    os.chdir(k['cwd'])


def run_unit(unit):
    from geophires_x import MPFReservoir, LHSReservoir
    resmodel, L, T = unit['model'], unit['L'], unit['T']
    mod = {1: MPFReservoir, 2: LHSReservoir}[resmodel]
    N = L * T
    cfg = {'harness': 'global-state', 'reservoir_model': resmodel, 'L': L, 'T': T}
    log = harness.UnitLog(cfg)
    real_inv = mod.invertlaplace

    def drive(symbolic, fault_at=None):
        m = c05.base_model(resmodel, 1, L, T)
        calls = {'n': 0}

        def inv(*a, **k):
            calls['n'] += 1
            if symbolic:
                if bool(core.symbool(f'inversion {calls["n"]} fails')):
                    raise ArithmeticError('injected: the numerical inversion does not converge')
                return SymReal(core.ctx().fresh_real('invlaplace'))
            if fault_at == calls['n']:
                raise ArithmeticError('injected: the numerical inversion does not converge')
            return real_inv(*a, **k)
        binds = [(mod, 'invertlaplace', inv), (mod, 'print', lambda *a, **k: None)]
        if symbolic:
            binds += list(c05.RES_SHADOWS) + [(mod, 'float', shim.FloatShadow), (mod, 'np', c05.NPW)] + ([(mod, 'math', shim.MATH)] if resmodel == 2 else [])
        before = knobs()
        outcome = 'returned'
        try:
            with shim.shadow(*binds):
                m.reserv.Calculate(m)
        except SystemExit:
            outcome = 'aborted the run (sys.exit)'
        except Exception as e:
            if isinstance(e, (core.PathAbort, core.Realize)) if hasattr(core, 'PathAbort') else False:
                raise
            outcome = f'raised {type(e).__name__}'
        after = knobs()
        restore(before)
        changed = {k: (before[k], after[k]) for k in before if before[k] != after[k]}
        return outcome, changed, calls['n']

    zv = {f'inversion {k} fails': z3.Bool(f'inversion {k} fails') for k in range(1, N + 1)}

    def concrete(inp):
        first = next((k for k in range(1, N + 1) if inp.get(f'inversion {k} fails')), None)
        outcome, changed, n = drive(False, fault_at=first)
        return bool(changed), {'first failing inversion': first, 'the step': outcome, 'process-global settings left changed (before, after)': changed}
    k = 0
    for pr in core.explore(lambda: drive(True), max_paths=200, catch=(Exception,)):
        log.path(pr)
        k += 1
        if pr.aborted:
            continue
        if pr.error is not None:
            raise pr.error
        outcome, changed, n = pr.value
        harness.reachable(log, pr.ctx, 1000)
        harness.discharge(log, pr.ctx, f'reservoir model {resmodel}: process-global numeric / process settings are the same after the step as before it (the step {outcome.split(" ")[0]})',
                          not changed, zv, concrete, sample=(k == 1))
    yield log.result()


def units(tier):
    return [{'harness': 'global-state', 'model': mdl, 'L': 2, 'T': 2} for mdl in (1, 2)]
