"""Common harness plumbing: unit logs, obligation discharge with replay, counterexample extraction."""
from __future__ import annotations

import fractions
import math
import time

import numpy as np
import z3

from . import core


class UnitLog:
    def __init__(self, config):
        self.d = {
            'config': config, 'paths': 0, 'reachable': 0, 'obligations': 0, 'discharged': 0,
            'inconclusive': [], 'cex': [], 'samples': [], 'solver_s': 0.0, 'max_query_s': 0.0,
            'error_paths': 0, 'aborted_paths': 0, 'notes': [], 'selfcheck_cases': 0, 'selfcheck_max_rel': 0.0,
            'branch_unknown': 0, 'trivial': 0,
        }

    def __getitem__(self, k):
        return self.d[k]

    def __setitem__(self, k, v):
        self.d[k] = v

    def note(self, s):
        if s not in self.d['notes'] and len(self.d['notes']) < 50:
            self.d['notes'].append(s)

    def path(self, pr):
        self.d['paths'] += 1
        self.d['branch_unknown'] += pr.ctx.branch_unknown
        if pr.aborted:
            self.d['aborted_paths'] += 1
        if pr.error is not None:
            self.d['error_paths'] += 1

    def result(self):
        return self.d


import os as _os
MAX_CEX_PER_PROCESS = 10 ** 9 if _os.environ.get('SYMX_NO_EARLY_STOP') else 3
_CEX_SEEN = [0]


def model_inputs(model, variables):
    """variables: dict name -> z3 const.  Returns dict name -> python float/int/bool."""
    out = {}
    for name, v in variables.items():
        val = core.model_value(model, v)
        if isinstance(val, bool):
            out[name] = val
        elif val is None:
            out[name] = 0.0
        elif z3.is_int(v):
            out[name] = int(val)
        else:
            out[name] = float(val)
    return out


def close(a, b, rel=1e-9, abs_=1e-12):
    try:
        a = float(a)
        b = float(b)
    except (TypeError, ValueError):
        return a == b
    if math.isnan(a) or math.isnan(b):
        return math.isnan(a) and math.isnan(b)
    if math.isinf(a) or math.isinf(b):
        return a == b
    return abs(a - b) <= abs_ + rel * max(abs(a), abs(b))


def dyadic_constraints(variables, denom=64):
    cs = []
    for name, v in variables.items():
        if z3.is_real(v):
            k = z3.Int('dy!' + name)
            cs.append(v * denom == z3.ToReal(k))
    return cs


_FINDING_SEEN = set()
_PROBED = set()


def discharge(log: UnitLog, c: core.Ctx, name, prop, variables, concrete, *, finding=None, timeout_ms=20000,
              robust=None, extra=(), sample=False, desc=None, ctxfree_ms=0, probe=None):
    """Decide one obligation on one path.

    prop       property instance (z3 Bool / SymBool / bool) that must follow from assumptions + path condition
    variables  dict name -> z3 const of the harness inputs (for counterexample extraction)
    concrete   callable(inputs: dict) -> (violated: bool, detail: dict): runs the REAL code on plain python
               numbers (no proxies) and evaluates the same property; used to replay counterexamples
    robust     optional stronger negation (z3 Bool) used to look for a witness that survives rounding

    Stages (each sound for "holds"): (1) syntactic simplification; (2) validity without the path condition and without
    the definitions of named terms (generalisation); (3) path condition without definitions; (4) everything.
    Only a sat answer of the complete query (4) - or a generalised model that REPLAYS on the real code - is a counterexample.
    """
    if _CEX_SEEN[0] >= MAX_CEX_PER_PROCESS:
        # the verdict of this run is already "violated" (reproduced counterexamples exist): do not spend more solver time
        log['skipped_after_violation'] = log.d.get('skipped_after_violation', 0) + 1
        return 'skipped'
    log['obligations'] += 1
    pt = prop.t if isinstance(prop, core.SymBool) else prop
    gen_model = None

    def _ok(dt, note):
        log['discharged'] += 1
        log['max_query_s'] = max(log['max_query_s'], dt)
        if sample and len(log['samples']) < 3:
            log['samples'].append({'obligation': name, 'verdict': 'unsat', 'time_s': round(dt, 4), 'query': desc or name, 'stage': note,
                                   'path_decisions': [int(t[0]) for t in c.trace][:40]})
        return 'unsat'
    if not isinstance(pt, (bool, np.bool_)):
        if ctxfree_ms or c.defs:
            sp = z3.simplify(pt)
            if z3.is_true(sp):
                log['stage_simplify'] = log.d.get('stage_simplify', 0) + 1
                return _ok(0.0, 'simplify')
            if ctxfree_ms:
                r0, m0, dt0 = core.check_sat(list(c.defined) + list(c.side) + list(extra) + [z3.Not(sp)], min(timeout_ms, ctxfree_ms))
                log['solver_s'] += dt0
                if r0 == 'unsat':
                    log['stage_ctxfree'] = log.d.get('stage_ctxfree', 0) + 1
                    return _ok(dt0, 'valid without the path condition')
        if c.defs:
            r1, m1, dt1 = core.check_sat(c.all_constraints(with_defs=False) + list(extra) + [z3.Not(pt)], timeout_ms)
            log['solver_s'] += dt1
            if r1 == 'unsat':
                log['stage_nodefs'] = log.d.get('stage_nodefs', 0) + 1
                return _ok(dt1, 'path condition, named terms left uninterpreted')
            if r1 == 'sat':
                gen_model = m1
    verdict, m, dt = core.prove(c, prop, extra=extra, timeout_ms=timeout_ms)
    log['solver_s'] += dt
    rec = {'obligation': name, 'verdict': verdict, 'time_s': round(dt, 4)}
    if verdict == 'unsat':
        return _ok(dt, 'full')
    how0 = 'model'
    if verdict == 'unknown':
        if gen_model is None:
            # the solver could not decide: before reporting the obligation as inconclusive, a few concrete points of the input domain are
            # run through the real code (a violation found this way is a replayed counterexample like any other; finding none proves nothing)
            for k, inputs in enumerate(probe() if callable(probe) else (probe or [])):
                key = (name.split('[')[0], k)
                if key in _PROBED:
                    continue
                _PROBED.add(key)
                try:
                    violated, detail = concrete(inputs)
                except Exception as e:
                    violated, detail = False, {'replay_exception': f'{type(e).__name__}: {e}'}
                if violated:
                    log['cex'].append({'obligation': name, 'finding': finding, 'config': log['config'], 'reproduced': True, 'attempts': [], 'inputs': inputs,
                                       'detail': detail, 'how': 'concrete probe of the input domain after the solver answered unknown'})
                    if finding is None:
                        _CEX_SEEN[0] += 1
                    return 'sat'
            log['inconclusive'].append({'obligation': name, 'why': 'solver unknown/timeout', 'time_s': round(dt, 2)})
            return 'unknown'
        # complete query undecided, but the generalised query has a model: it is a counterexample only if it replays
        m, how0 = gen_model, 'generalised-model'
    # sat: counterexample candidate -> replay on the real code in floats
    attempts = []
    tries = [(how0, m)]
    reproduced = None
    for how, mdl in tries:
        inputs = model_inputs(mdl, variables)
        try:
            violated, detail = concrete(inputs)
        except Exception as e:  # the replay itself crashed: not a reproduction
            violated, detail = False, {'replay_exception': f'{type(e).__name__}: {e}'}
        attempts.append({'how': how, 'inputs': inputs, 'violated': bool(violated), 'detail': detail})
        if violated:
            reproduced = attempts[-1]
            break
        if how == how0 and how0 == 'model' and not (finding and finding in _FINDING_SEEN):
            # (a recorded finding already reproduced in this process is not searched for again: its companion obligation bounds the deviation)
            base = c.all_constraints() + list(extra)
            neg = [robust] if robust is not None else ([z3.Not(pt)] if not isinstance(pt, (bool, np.bool_)) else [])
            if robust is not None:
                r2, m2, dt2 = core.check_sat(base + neg, min(timeout_ms, 10000))
                log['solver_s'] += dt2
                if r2 == 'sat':
                    tries.append(('robust', m2))
            r3, m3, dt3 = core.check_sat(base + neg + dyadic_constraints(variables), min(timeout_ms, 10000))
            log['solver_s'] += dt3
            if r3 == 'sat':
                tries.append(('dyadic', m3))
    if reproduced is None and how0 == 'generalised-model':
        log['inconclusive'].append({'obligation': name, 'why': 'complete query unknown; generalised model did not replay', 'time_s': round(dt, 2)})
        return 'unknown'
    cex = {'obligation': name, 'finding': finding, 'config': log['config'], 'reproduced': reproduced is not None,
           'attempts': attempts[-2:], 'inputs': (reproduced or attempts[0])['inputs'],
           'detail': (reproduced or attempts[0])['detail'], 'how': (reproduced or attempts[0])['how']}
    log['cex'].append(cex)
    if cex['reproduced'] and finding is None:
        _CEX_SEEN[0] += 1
    if cex['reproduced'] and finding:
        _FINDING_SEEN.add(finding)
    return 'sat'


def reachable(log: UnitLog, c: core.Ctx, timeout_ms=5000):
    """reachability twin: is assumptions + path condition satisfiable?"""
    r, m, dt = core.check_sat(c.all_constraints(), timeout_ms)
    log['solver_s'] += dt
    if r == 'sat':
        log['reachable'] += 1
    return r
