"""C14 (rows stay intact under concurrent workers) — the real work_package critical section under a symbolic schedule.

Two (thorough: three) workers run the REAL `work_package` in the in-memory Monte-Carlo world.  Each worker is a thread that only
runs when the scheduler hands it the baton, so exactly one runs at a time; control returns to the scheduler at the points where
the environment may interleave processes: before the lock is requested, after it was granted, between the two chunks the OS may
split a row write into, and before the lock is released.  Which runnable worker continues at each point is a fresh solver
Boolean: the explorer forks on it, so every schedule within the bound is a path.  The lock is the documented pylocker contract:

    acquire(pass):  granted iff no lock is held or the held lock carries the SAME pass (pylocker code 1 "already set");
    release(pass):  removes the lock iff it carries the caller's pass.

`uuid.uuid1()` / `uuid4()` return fresh solver integers that are pairwise distinct by contract; whether two passes are equal is
decided by the solver (`pass_i == pass_j` under the distinctness contract is infeasible), unless the code produces the pass some
other way (a module-level constant inherited through fork is one concrete string for every worker).
"""
from __future__ import annotations

import os
import shutil
import tempfile
import threading
import time

import z3

from .. import core, harness, mcworld, shim
from ..core import SymBool
from ..mcworld import MC

OUTPUTS = ['Out A', 'Out B']
SETTINGS = [['Reservoir Temperature', 'normal', '250', '25']]
RESULT = '/w/MC_Result.txt'


class Abort(BaseException):
    pass


class Sched:
    """baton passing: worker threads run one at a time, the main thread decides who continues."""

    def __init__(self, n):
        self.n = n
        self.cv = threading.Condition()
        self.turn = 'main'
        self.state = ['ready'] * n          # ready | blocked | done
        self.exc = [None] * n
        self.abort = False
        self.trace = []

    # --- worker side -------------------------------------------------------------------------------------------
    def _wait(self, i):
        with self.cv:
            while self.turn != i:
                if self.abort:
                    raise Abort()
                self.cv.wait(0.5)
            if self.abort:
                raise Abort()

    def point(self, i, what, blocked=False):
        self.state[i] = 'blocked' if blocked else 'ready'
        self.trace.append((i, what))
        with self.cv:
            self.turn = 'main'
            self.cv.notify_all()
        self._wait(i)

    def body(self, i, fn):
        try:
            self._wait(i)
            fn()
        except Abort:
            pass
        except BaseException as e:   # PathAbort / errors of the code under test: re-raised by the main thread
            self.exc[i] = e
        self.state[i] = 'done'
        with self.cv:
            self.turn = 'main'
            self.cv.notify_all()

    # --- scheduler side ----------------------------------------------------------------------------------------
    def resume(self, i):
        with self.cv:
            self.turn = i
            self.cv.notify_all()
            while self.turn != 'main':
                self.cv.wait(0.5)

    def stop(self):
        with self.cv:
            self.abort = True
            self.cv.notify_all()


class World(mcworld.MCWorld):
    def __init__(self, n):
        super().__init__(OUTPUTS, [True] * len(OUTPUTS), False)
        self.sched = Sched(n)
        self.lock = {}            # path -> pass currently written in the lock file
        self.holders = set()      # workers between a granted acquire and their release
        self.overlap = False      # two workers were inside the critical section at the same time
        self.rows = {}            # worker -> the row text it handed to write()
        self.uuid_vars = []
        self.me = threading.local()


def same_pass(w, a, b):
    """equality of two lock passes; passes that are fresh uuid draws are compared by the solver."""
    va, vb = w.pass_terms.get(a), w.pass_terms.get(b)
    if va is not None and vb is not None:
        if va is vb:
            return True
        return bool(SymBool(va == vb))
    return a == b


def shadows(w):
    binds = [b for b in mcworld.shadows(w) if b[1] not in ('Locker', 'uuid')]
    w.pass_terms = {}

    class UuidStub:
        @staticmethod
        def _fresh():
            k = len(w.uuid_vars)
            v = z3.Int(f'uuid{k}')
            c = core.ctx()
            for u in w.uuid_vars:
                c.add_assume(v != u)         # contract: uuid1/uuid4 never return the same value twice
            w.uuid_vars.append(v)
            s = f'⟦uuid{k}⟧'
            w.pass_terms[s] = v
            return s
        uuid1 = uuid4 = _fresh

    class ChunkedFile(mcworld.FileObj):
        def write(self, s):
            i = w.me.i
            w.rows[i] = w.rows.get(i, '') + s
            h = max(1, len(s) // 2)
            w.fs[self.path] = w.fs.get(self.path, '') + s[:h]
            w.sched.point(i, 'between the two chunks of a row write')
            w.fs[self.path] = w.fs.get(self.path, '') + s[h:]

    class LockModel:
        def __init__(self, filePath=None, lockPass=None, timeout=None, mode='a', **k):
            self.path, self.mode, self.lp = str(filePath), mode, lockPass

        def __enter__(self):
            i = w.me.i
            w.sched.point(i, 'before requesting the lock')
            while True:
                held = w.lock.get(self.path)
                if held is None or same_pass(w, held, self.lp):
                    w.lock[self.path] = self.lp
                    if w.holders:
                        w.overlap = True
                    w.holders.add(i)
                    break
                w.sched.point(i, 'waiting for the lock', blocked=True)
            w.sched.point(i, 'lock granted')
            return True, (0 if not w.overlap else 1), ChunkedFile(w, self.path, self.mode)

        def __exit__(self, *a):
            i = w.me.i
            w.sched.point(i, 'before releasing the lock')
            held = w.lock.get(self.path)
            if held is not None and same_pass(w, held, self.lp):
                w.lock[self.path] = None
            w.holders.discard(i)
            return False
    return binds + [(MC, 'Locker', LockModel), (MC, 'uuid', UuidStub)]


def runnable(w, i):
    st = w.sched.state[i]
    if st == 'ready':
        return True
    if st == 'blocked':
        # a waiting worker can continue only when the lock is free (pass equality is re-decided when it runs)
        return all(v is None for v in w.lock.values())
    return False


def run_schedule(n, code='GEOPHIRESv3.py'):
    w = World(n)
    header = ', '.join(OUTPUTS) + ', ' + ', '.join(s[0] for s in SETTINGS) + '\n'
    w.fs[RESULT] = header
    w.current_gen = w.parent_gen.fork('worker0')
    args = mcworld.make_args(code)
    threads = []
    with shim.shadow(*shadows(w)):
        for i in range(n):
            pass_list = [[list(s) for s in SETTINGS], list(OUTPUTS), args, RESULT, '/w/', 'python']

            def work(i=i, pass_list=pass_list):
                w.me.i = i
                MC.work_package(pass_list)
            t = threading.Thread(target=w.sched.body, args=(i, work), daemon=True)
            threads.append(t)
            t.start()
        step = 0
        deadlock = False
        try:
            while any(s != 'done' for s in w.sched.state):
                err = next((e for e in w.sched.exc if e is not None), None)
                if err is not None:
                    raise err
                cand = [i for i in range(n) if runnable(w, i)]
                if not cand:
                    deadlock = True
                    break
                pick = cand[0]
                for j, other in enumerate(cand[1:]):     # a chain of fresh Booleans selects one of the runnable workers
                    if bool(SymBool(z3.Bool(f'sched[{step}].{j}'))):
                        break
                    pick = other
                step += 1
                w.sched.resume(pick)
            err = next((e for e in w.sched.exc if e is not None), None)
            if err is not None:
                raise err
        finally:
            w.sched.stop()
            for t in threads:
                t.join(2)
    return {'file': w.fs[RESULT], 'header': header, 'rows': dict(w.rows), 'overlap': w.overlap, 'deadlock': deadlock,
            'trace': list(w.sched.trace), 'steps': step}


def facts(o, n):
    body = o['file'][len(o['header']):] if o['file'].startswith(o['header']) else None
    rows = [o['rows'].get(i, '') for i in range(n)]
    intact = body is not None and sorted(body.splitlines(keepends=True)) == sorted(rows) and all(r.endswith('\n') and r.count('\n') == 1 for r in rows)
    return {
        'every worker\'s row is in the results file intact (no row torn, interleaved or lost), the header untouched': intact,
        'no two workers are inside the locked section at the same time': not o['overlap'],
        'every worker finishes (no worker waits for a lock nobody holds)': not o['deadlock'],
    }


# ---- replay on the real driver with the real pylocker ----------------------------------------------------------------------
def replay_real(n=2):
    """two real threads run the real work_package with the REAL pylocker Locker on a real file; only the simulator is the in-memory
    stand-in and the row write is slowed down (two flushed halves) so that a missing mutual exclusion becomes visible."""
    d = tempfile.mkdtemp(prefix='symx_c14lock_')
    out = os.path.join(d, 'MC_Result.txt')
    header = ', '.join(OUTPUTS) + ', ' + ', '.join(s[0] for s in SETTINGS) + '\n'
    with open(out, 'w') as f:
        f.write(header)
    w = mcworld.MCWorld(OUTPUTS, [True] * len(OUTPUTS), False)
    w.current_gen = w.parent_gen.fork('worker0')
    real_locker = MC.Locker
    rows = {}
    ident = threading.local()

    class SlowFd:
        def __init__(self, fd):
            self.fd = fd

        def write(self, s):
            rows[ident.i] = s
            h = len(s) // 2
            self.fd.write(s[:h])
            self.fd.flush()
            time.sleep(0.6)
            self.fd.write(s[h:])
            self.fd.flush()

    class SlowLocker(real_locker):
        def __enter__(self):
            acquired, code, fd = super().__enter__()
            return acquired, code, (SlowFd(fd) if fd is not None else None)
    binds = [b for b in mcworld.shadows(w) if b[1] not in ('Locker', 'uuid', 'np')] + [(MC, 'Locker', SlowLocker)]
    errs = []
    try:
        with shim.shadow(*binds):
            ts = []
            for i in range(n):
                pass_list = [[list(s) for s in SETTINGS], list(OUTPUTS), mcworld.make_args('GEOPHIRESv3.py'), out, d + '/', 'python']

                def work(i=i, pass_list=pass_list):
                    ident.i = i
                    try:
                        MC.work_package(pass_list)
                    except BaseException as e:
                        errs.append(repr(e)[:200])
                t = threading.Thread(target=work)
                ts.append(t)
                t.start()
                time.sleep(0.25)
            for t in ts:
                t.join(60)
        text = open(out).read()
    finally:
        shutil.rmtree(d, ignore_errors=True)
    body = text[len(header):] if text.startswith(header) else None
    want = [rows.get(i, '') for i in range(n)]
    intact = body is not None and sorted(body.splitlines(keepends=True)) == sorted(want)
    return (not intact) or bool(errs), {'results file': text[:600], 'rows handed to write()': want, 'errors': errs}


def units(tier):
    return [{'harness': 'contention', 'workers': 2}] + ([{'harness': 'contention', 'workers': 3}] if tier == 'thorough' else [])


def run_unit(unit):
    n = unit['workers']
    cfg = {'harness': 'contention', 'workers': n}
    log = harness.UnitLog(cfg)
    cache = {}

    def concrete(inp):
        if 'r' not in cache:
            cache['r'] = replay_real(2)
        return cache['r']
    k = 0
    for pr in core.explore(lambda: run_schedule(n), max_paths=200000):
        log.path(pr)
        k += 1
        if pr.error is not None:
            raise pr.error
        if pr.aborted:
            continue
        if k <= 50 or k % 100 == 0:
            harness.reachable(log, pr.ctx, 500)
        else:
            log['reachable'] += 0
        zv = {}
        for name, ok in facts(pr.value, n).items():
            harness.discharge(log, pr.ctx, f'{n} concurrent workers, any schedule: {name}', bool(ok), zv, concrete, sample=(k == 1),
                              desc=f'{name}; schedule = {[f"w{i}:{what}" for i, what in pr.value["trace"]][:16]}')
        if k % 500 == 0:
            yield log.result()
            log = harness.UnitLog(cfg)
    log.note('lock = pylocker contract (atomic test-and-set keyed by pass, release by pass); a row write may be split into two chunks; '
             'lock time-outs (10 s) and the non-atomic internals of pylocker.acquire_lock are outside the model')
    yield log.result()
