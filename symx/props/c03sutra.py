"""C03 (and the levelized cost of C01) for the reservoir-thermal-energy-storage (SUTRA) family: SUTRAEconomics.Calculate has its own roll-up."""
from __future__ import annotations

import contextlib
import io

import z3

from .. import core, econ, gx, harness, shim
from ..core import eq, sor, sand, snot

EX = gx.SRC + '/geophires_x/Examples/'
PARAMS = {'Reservoir Model': 7, 'SUTRA Annual Heat File Name': EX + 'annual_heat.csv', 'SUTRA Heat Budget File Name': EX + 'heat_budget.csv',
          'SUTRA Balance and Storage Well Output File Name': EX + 'balance_and_storage_well_output.csv', 'Number of Production Wells': 1, 'Number of Injection Wells': 1,
          'Reservoir Depth': 0.6, 'Number of Segments': 1, 'Surface Temperature': 10, 'Gradient 1': 0.01, 'Production Well Diameter': 7.8, 'Injection Well Diameter': 7.8,
          'Ramey Production Wellbore Model': 0, 'Production Wellbore Temperature Drop': 0, 'Injection Wellbore Temperature Gain': 0, 'Reservoir Impedance': 0.2,
          'End-Use Option': 2, 'Circulation Pump Efficiency': .8, 'Power Plant Type': 8, 'Plant Lifetime': 30, 'Economic Model': 2, 'Well Drilling Cost Correlation': 1, 'Print Output to Console': 0}
SPEC = [('economics.ccwellfixed', 'real', 0, 200), ('economics.ccwellfixed.Valid', 'bool', None, None), ('economics.ccwelladjfactor', 'real', 0, 10),
        ('wellbores.nprod', 'real', 1, 200), ('wellbores.ninj', 'real', 0, 200), ('economics.ngprice', 'real', 0, 100), ('economics.peakingboilerefficiency', 'real', 0.1, 1),
        ('economics.inflrateconstruction', 'real', 0, 0.5),      # (the discount rate stays concrete: 30 years of data make its powers a degree-29 polynomial)
        ('surfaceplant.electricity_cost_to_buy', 'real', 0, 1)]
_PREP = {}


def prepared():
    if 'm' not in _PREP:
        with contextlib.redirect_stdout(io.StringIO()):
            m = gx.make_model(PARAMS)
            m.reserv.Calculate(m)
            m.wellbores.Calculate(m)
            m.surfaceplant.Calculate(m)
        _PREP['m'] = (m, gx.Snapshot(m))
    m, snap = _PREP['m']
    snap.restore()
    return m


def drive(vals, symbolic):
    m = prepared()
    econ.install(m, vals)
    from geophires_x import SUTRAEconomics as SE
    with contextlib.redirect_stdout(io.StringIO()):
        if symbolic:
            with shim.shadow((SE, 'np', shim.NP)):
                m.economics.Calculate(m)
        else:
            m.economics.Calculate(m)
    return m


def obligations(m, v):
    e, sp = m.economics, m.surfaceplant
    n = v['wellbores.nprod'] + v['wellbores.ninj']
    L = sp.plant_lifetime.value
    valid = v['economics.ccwellfixed.Valid']
    corr = float(e.wellcorrelation.value.calculate_cost_MUSD(m.reserv.depth.value))
    out = [('RTES: a user-supplied per-well cost is used exactly as given (no adjustment factor on top of it)',
            sor(snot(valid), eq(e.Cwell.value, v['economics.ccwellfixed'] * n))),
           ('RTES: without a user figure the wellfield cost is the correlation cost x adjustment factor x number of wells',
            sor(valid, eq(e.Cwell.value, corr * v['economics.ccwelladjfactor'] * n))),
           ('RTES: total capital cost = wellfield + peaking boiler + pumps', eq(e.CCap.value, e.Cwell.value + e.peakingboilercost.value + e.Cpumps))]
    coam = list(e.Coam.value)
    pump, ng = list(e.annualpumpingcosts.value), list(e.annualngcost.value)
    for i in (0, L // 2, L - 1):
        out.append((f'RTES: annual O&M year {i} = pumping electricity + peaking fuel', eq(coam[i], pump[i] + ng[i])))
    r = float(e.discountrate.value)
    num = (1 + v['economics.inflrateconstruction']) * e.CCap.value
    den = 0.0
    for i in range(L):
        d = 1 / (1 + r) ** i if i else 1.0
        num = num + coam[i] * d
        den = den + sp.AnnualTotalHeatProduced.value[i] * 1e6 * d
    out.append(('RTES: LCOH = (capital cost with construction financing + discounted O&M) / discounted heat delivered', core.near(e.LCOH.value, num / den * 1e8, 1e-9)))
    return out


def concrete(inp, only=None):
    vals = econ.concrete_vals(SPEC, inp)
    try:
        m = drive(vals, False)
        obs = obligations(m, vals)
    except ZeroDivisionError:
        return False, {'note': 'division by zero'}
    bad = [n for n, ok in obs if not ok and (only is None or n == only)]
    e = m.economics
    return bool(bad), {'failed': bad[:4], 'Cwell': float(e.Cwell.value), 'CCap': float(e.CCap.value), 'LCOH': float(e.LCOH.value)}


def units(tier):
    return [{'harness': 'sutra'}]


def run_unit(unit):
    cfg = {'harness': 'RTES (SUTRA) economics', 'family': 'sutra'}
    log = harness.UnitLog(cfg)
    prepared()

    def fn():
        vals, zv = econ.make_symbolic(SPEC)
        m = drive(vals, True)
        return zv, obligations(m, vals)
    def probe():
        for valid in (True, False):
            yield {'economics.ccwellfixed': 3.0, 'economics.ccwellfixed.Valid': valid, 'economics.ccwelladjfactor': 1.5, 'wellbores.nprod': 1.0, 'wellbores.ninj': 1.0,
                   'economics.ngprice': 0.033, 'economics.peakingboilerefficiency': 0.85, 'economics.inflrateconstruction': 0.02,
                   'surfaceplant.electricity_cost_to_buy': 0.07}
    k = 0
    for pr in core.explore(fn, max_paths=500):
        log.path(pr)
        k += 1
        if pr.error is not None:
            raise pr.error
        if pr.aborted:
            continue
        zv, obs = pr.value
        harness.reachable(log, pr.ctx, 2000)
        for name, cond in obs:
            harness.discharge(log, pr.ctx, name, cond, zv, lambda inp, name=name: concrete(inp, only=name), timeout_ms=8000, sample=(k == 1), probe=probe)
        if log['cex'] or log['inconclusive']:
            yield log.result()
            log = harness.UnitLog(cfg)
    yield log.result()
