"""C04 — cash flow, NPV, IRR, VIR, MOIC and payback are mutually consistent (DESIGN §4 C04)."""
from __future__ import annotations

import z3

from .. import core, econ, harness
from ..core import eq, sand, sor, snot, SymReal

from geophires_x.OptionList import EndUseOptions, PlantType

ID = 'C04'
FUNCTIONS = ['geophires_x.Economics:Economics.Calculate', 'geophires_x.Economics:CalculateRevenue',
             'geophires_x.Economics:CalculateCarbonRevenue', 'geophires_x.Economics:CalculateFinancialPerformance',
             'geophires_x.Economics:calculate_npv', 'geophires_x.Economics:BuildPricingModel',
             'geophires_x.EconomicsAddOns:EconomicsAddOns.Calculate']
UNIT_TIMEOUT = {'quick': 280, 'thorough': 1700}

KINDS = {  # name -> (end-use option, plant type)
    'electricity': (1, 1), 'direct-use': (2, 9), 'chiller': (2, 5), 'heat-pump': (2, 6), 'district-heating': (2, 7),
    'cogen-topping': (31, 1), 'cogen-bottoming': (42, 2), 'cogen-parallel': (51, 4),
}
BOUNDS = {
    'quick': [(k, L, K, carbon) for k in KINDS for (L, K) in ((2, 1), (2, 2)) for carbon in (False, True)
              if not (carbon and K == 2 and k not in ('electricity', 'cogen-topping'))],
    'thorough': [(k, L, K, carbon) for k in KINDS for (L, K) in ((2, 1), (2, 2), (3, 1), (3, 2), (4, 1), (3, 3))
                 for carbon in (False, True) if not (carbon and L + K >= 5 and k.startswith('cogen'))],
}
ADDON_KINDS = ['electricity', 'direct-use', 'heat-pump', 'district-heating', 'cogen-topping', 'cogen-parallel']
ADDON_BOUNDS = {
    'quick': [('electricity', 2, 1, False, 1), ('cogen-topping', 1, 1, False, 1), ('direct-use', 1, 2, False, 2), ('heat-pump', 1, 1, False, 1)],
    'thorough': [(k, L, K, False, a) for k in ADDON_KINDS for (L, K, a) in ((2, 1, 1), (2, 2, 1), (3, 1, 2), (3, 2, 1))] + [('electricity', 2, 1, True, 1)],
}
META = {
    'explanation': 'The real Economics.Calculate runs on a real Model (reservoir, wellbores and surface plant calculated concretely '
                   'once; their yearly energy outputs then replaced by independent symbolic reals) with total capital cost, O&M, grants, '
                   'price schedules, carbon settings, discount rate and the NPV-convention flag symbolic; numpy_financial.irr is a stub '
                   'with its documented contract. Every path through the pricing clamps, the IRR-NaN branch and the payback loop is '
                   'explored; per path z3 proves that the reported cash-flow series, cumulative series, NPV, IRR, VIR, MOIC and payback '
                   'satisfy the definitions stated in the property over the reported quantities. Add-on configurations: the real '
                   'EconomicsAddOns.Calculate runs inside the same call with every add-on CAPEX/OPEX/electricity/heat/profit value symbolic; '
                   'the add-on and extended-project series, totals, NPV (both conventions), IRR, VIR, MOIC and add-on payback are proved '
                   'against their definitions over the reported (post-add-on) energy series.',
    'bounds': {t: {'(kind, L lifetime, K construction years, carbon)': [list(x) for x in BOUNDS[t]],
                   'with add-ons (kind, L, K, carbon, number of add-ons)': [list(x) for x in ADDON_BOUNDS[t]], 'time steps per year': 2} for t in BOUNDS},
    'outside': ['L, K beyond the listed pairs', 'IEEE rounding', 'S-DAC-GT', 'AGS/SUTRA economics',
                'the numeric root-finder inside numpy_financial.irr (contract stub)'],
    'assumptions': ['real arithmetic', 'npf.irr(series) returns NaN or r > -1 with sum(series_t*(1+r)^-t) = 0 for the series it was handed',
                    'inputs inside their declared [Min, Max]', 'denominators non-zero (CCap != 0, CCap + Coam*L != 0, 1 + r != 0)'],
    'stubs': ['Economics.npf -> NPFShim (npv exact polynomial, irr contract)', 'Economics.math -> MathShim (fabs, isnan on the irr flag)',
              'Economics.np -> NPShim (object-dtype allocation, exact max/min)'],
}

PRODUCTS = {'Elec': 'NetkWhProduced', 'Heat': 'HeatkWhProduced', 'Cooling': 'cooling_kWh_Produced'}


def products_of(kind):
    if kind == 'electricity':
        return ['Elec']
    if kind == 'chiller':
        return ['Cooling']
    if kind.startswith('cogen'):
        return ['Elec', 'Heat']
    return ['Heat']


def cfg_of(kind, L, K, carbon, addon=0, **kw):
    eu, pt = KINDS[kind]
    c = {'kind': kind, 'eu': eu, 'pt': pt, 'em': 2, 'L': L, 'K': K, 'T': 2, 'carbon': bool(carbon)}
    if addon:
        c['addon'] = addon
    c.update(kw)
    return c


def spec_of(cfg):
    L = cfg['L']
    s = [('economics.totalcapcost', 'real', 0, 1000), ('economics.oamtotalfixed', 'real', 0, 100),
         ('economics.TotalGrant', 'real', -1000, 1000), ('economics.FixedInternalRate', 'real', 0, 100),
         ('economics.inflrateconstruction', 'real', 0, 0.5),      # financing during construction belongs to the levelized cost, not to the cash-flow series
         ('economics.discount_initial_year_cashflow', 'bool', None, None)]
    # (with add-ons the pricing clamps are explored in the configurations without add-ons: here one symbolic flat price per product;
    #  the grant stays symbolic: it must enter the adjusted project CAPEX exactly once)
    for p in products_of(cfg['kind']):
        if cfg.get('addon'):
            s += [(f'economics.{p}StartPrice', 'real', 0, 100)]
        else:
            s += [(f'economics.{p}StartPrice', 'real', 0, 100), (f'economics.{p}EndPrice', 'real', 0, 100),
                  (f'economics.{p}EscalationRate', 'real', 0, 100)]
        s += [(f'surfaceplant.{PRODUCTS[p]}[{i}]', 'real', None, None) for i in range(L)]
    if cfg['carbon']:
        s += [('economics.CarbonStartPrice', 'real', 0, 1000), ('economics.CarbonEndPrice', 'real', 0, 1000),
              ('economics.CarbonEscalationRate', 'real', 0, 100), ('economics.GridCO2Intensity', 'real', 0, 50000),
              ('economics.NaturalGasCO2Intensity', 'real', 0, 50000)]
        for arr in ('NetkWhProduced', 'HeatkWhProduced'):
            if not any(x[0].startswith(f'surfaceplant.{arr}[') for x in s):
                s += [(f'surfaceplant.{arr}[{i}]', 'real', None, None) for i in range(L)]
    for j in range(cfg.get('addon', 0)):
        # the reader takes these straight from float(): no range is enforced on them
        s += [(f'addeconomics.{a}[{j}]', 'real', None, None) for a in ADDON_LISTS]
    return s


ADDON_LISTS = ['AddOnCAPEX', 'AddOnOPEXPerYear', 'AddOnElecGainedPerYear', 'AddOnHeatGainedPerYear', 'AddOnProfitGainedPerYear']


FIXED = {'economics.totalcapcost.Valid': True, 'economics.oamtotalfixed.Valid': True,
         'economics.ElecEscalationStart': 1, 'economics.HeatEscalationStart': 1, 'economics.CoolingEscalationStart': 1,
         'economics.CarbonEscalationStart': 0}

_PREP = {}


def prepared(cfg):
    key = repr(sorted((k, v) for k, v in cfg.items() if k != 'names'))
    if key not in _PREP:
        _PREP[key] = econ.Prepared(cfg)
    return _PREP[key]


def drive(cfg, vals, symbolic):
    pr = prepared(cfg)
    m = pr.reset()
    v = dict(vals)
    v.update(FIXED)
    if cfg.get('addon'):
        for p in products_of(cfg['kind']):
            v[f'economics.{p}EndPrice'] = 100.0
            v[f'economics.{p}EscalationRate'] = 0.0
        for arr in ('TotalkWhProduced', 'NetkWhProduced', 'HeatkWhProduced'):     # the add-on code adds (symbolic) add-on energy into these in place
            cur = getattr(m.surfaceplant, arr).value
            if symbolic and hasattr(cur, '__len__') and not isinstance(cur, core.SymArray):
                getattr(m.surfaceplant, arr).value = core.as_symarray([float(x) for x in cur])
        # one input file: the add-on object reads the same discount rate and NPV convention
        v['addeconomics.FixedInternalRate'] = vals['economics.FixedInternalRate']
        v['addeconomics.discount_initial_year_cashflow'] = vals['economics.discount_initial_year_cashflow']
    econ.install(m, v)
    econ.run_econ(m, symbolic=symbolic)
    return m


def obligations(cfg, m):
    """the property, stated over the quantities the run reports.  Dual-mode (proxies / floats)."""
    e, sp = m.economics, m.surfaceplant
    L, K = cfg['L'], cfg['K']
    N = L + K
    kind = cfg['kind']
    C, O = e.CCap.value, e.Coam.value
    TR, CUM = list(e.TotalRevenue.value), list(e.TotalCummRevenue.value)
    out = []
    out.append(('series length', len(TR) == N and len(CUM) == N))
    price = {'Elec': e.ElecPrice.value, 'Heat': e.HeatPrice.value, 'Cooling': e.CoolingPrice.value, 'Carbon': e.CarbonPrice.value}
    rev = {'Elec': e.ElecRevenue.value, 'Heat': e.HeatRevenue.value, 'Cooling': e.CoolingRevenue.value}
    cumrev = {'Elec': e.ElecCummRevenue.value, 'Heat': e.HeatCummRevenue.value, 'Cooling': e.CoolingCummRevenue.value}
    prods = products_of(kind)
    for p in price:
        out.append((f'{p} price has K leading zeros and L entries', sand(len(price[p]) == N, *[eq(price[p][i], 0.0) for i in range(K)])))
    for i in range(N):
        if i < K:
            out.append((f'construction year {i}: cash flow = -CCap/K', eq(TR[i], -1.0 * (C / K))))
            continue
        expect = 0.0
        for p in prods:
            en = getattr(sp, PRODUCTS[p]).value
            r_i = en[i - K] * price[p][i] / 1_000_000.0
            out.append((f'{p} revenue year {i}', eq(rev[p][i], r_i)))
            out.append((f'{p} cumulative revenue year {i}', eq(cumrev[p][i], (cumrev[p][i - 1] if i > 0 else 0.0) + rev[p][i])))
            expect = expect + r_i
        if cfg['carbon']:
            el = sp.NetkWhProduced.value[i - K] if kind != 'chiller' and ('Elec' in prods) else 0.0
            ht = sp.HeatkWhProduced.value[i - K] if kind != 'electricity' else 0.0
            lbs = el * e.GridCO2Intensity.value + ht * e.NaturalGasCO2Intensity.value
            cr = lbs * price['Carbon'][i] / 1_000_000.0
            out.append((f'carbon revenue year {i}', eq(e.CarbonRevenue.value[i], cr)))
            expect = expect + cr
        out.append((f'operating year {i}: cash flow = revenue - O&M', eq(TR[i], expect - O)))
    for i in range(N):
        out.append((f'cumulative cash flow year {i} is the running sum', eq(CUM[i], TR[i] if i == 0 else CUM[i - 1] + TR[i])))
    # NPV at the stated rate, both conventions
    r = e.FixedInternalRate.value / 100
    flag = e.discount_initial_year_cashflow.value
    npv0 = _npv(TR, r, 0)
    npv1 = _npv(TR, r, 1)
    out.append(('NPV = sum CF_t/(1+r)^t (or t+1 with the Excel-style flag)',
                sor(sand(flag, eq(e.ProjectNPV.value, npv1)), sand(snot(flag), eq(e.ProjectNPV.value, npv0)))))
    # IRR: zero, or a root of the reported series
    irr = e.ProjectIRR.value
    out.append(('reported non-zero IRR zeroes the NPV of the reported series', sor(eq(irr, 0.0), _is_root(TR, irr / 100))))
    out.append(('VIR = 1 + NPV/CCap', eq(e.ProjectVIR.value, 1.0 + e.ProjectNPV.value / C)))
    out.append(('MOIC = cumulative cash flow at end / (CCap + O&M*L)', eq(e.ProjectMOIC.value, CUM[N - 1] / (C + O * L))))
    # payback
    pb = e.ProjectPaybackPeriod.value
    cross = [sand(CUM[i] > 0, CUM[i - 1] <= 0) for i in range(1, N)]
    within = [sand(c, pb >= i - 1, pb <= i + 1) for i, c in zip(range(1, N), cross)]
    out.append(('payback = N/A (0) when cumulative cash flow never turns positive', sor(*cross, eq(pb, 0.0))))
    out.append(('payback lies within a year in which cumulative cash flow turns positive', sor(eq(pb, 0.0), *within)))
    out.append(('a payback period is reported when cumulative cash flow turns positive', sor(snot(sor(*cross)), pb > 0)))
    if cfg.get('addon'):
        out += addon_obligations(cfg, m, price)
    return out


def _far(a, b):
    """a witness that survives float rounding: the two sides differ by more than 0.5 while staying of moderate size."""
    if not (core.is_sym(a) or core.is_sym(b)):
        return None
    d = core.lift(a) - core.lift(b)
    lb = core.lift(b)
    return z3.And(z3.Or(d > 0.5, d < -0.5), lb < 1000, lb > -1000)


def _irr_robust(series, irr):
    if not core.is_sym(irr):
        return None
    r = core.lift(irr)
    s0 = core.lift(series[0])
    rt = _is_root(series, irr / 100)
    rt = rt.t if isinstance(rt, core.SymBool) else z3.BoolVal(bool(rt))
    return z3.And(r > 0.1, r < 1, s0 < -1, s0 > -1000, z3.Not(rt))


def _tot(xs):
    xs = list(xs)
    return sum(xs[1:], xs[0])


def addon_obligations(cfg, m, price):
    """add-on and extended-project figures (EconomicsAddOns.Calculate) against their definitions over the reported quantities."""
    e, sp, a = m.economics, m.surfaceplant, m.addeconomics
    L, K = cfg['L'], cfg['K']
    N = L + K
    kind = cfg['kind']
    C, O = e.CCap.value, e.Coam.value
    sC, sO, sE, sH, sP = (_tot(getattr(a, n).value) for n in ADDON_LISTS)
    out = []
    for nm, tot, rep in (('CAPEX', sC, a.AddOnCAPEXTotal), ('OPEX', sO, a.AddOnOPEXTotalPerYear), ('electricity', sE, a.AddOnElecGainedTotalPerYear),
                         ('heat', sH, a.AddOnHeatGainedTotalPerYear), ('profit', sP, a.AddOnProfitGainedTotalPerYear)):
        out.append((f'add-ons: total add-on {nm} is the sum over the add-ons', eq(rep.value, tot)))
    out.append(('add-ons: adjusted project CAPEX = CCap + add-on CAPEX', eq(a.AdjustedProjectCAPEX.value, C + sC)))
    out.append(('add-ons: adjusted project OPEX = O&M + add-on OPEX', eq(a.AdjustedProjectOPEX.value, O + sO)))
    sells_elec = kind == 'electricity' or kind.startswith('cogen')
    sells_heat = kind != 'electricity'
    AR, ACF, ACUM = list(a.AddOnRevenue.value), list(a.AddOnCashFlow.value), list(a.AddOnCummCashFlow.value)
    PCF, PCUM = list(a.ProjectCashFlow.value), list(a.ProjectCummCashFlow.value)
    out.append(('add-ons: series lengths', len(AR) == L and len(ACF) == N and len(ACUM) == N and len(PCF) == N and len(PCUM) == N))
    for i in range(L):
        er = (sE * price['Elec'][K + i] / 1_000_000.0) if sells_elec else 0.0
        hr = (sH * price['Heat'][K + i] / 1_000_000.0) if sells_heat else 0.0
        out.append((f'add-ons: add-on electricity revenue year {i} = add-on electricity x price', eq(a.AddOnElecRevenue.value[i], er)))
        out.append((f'add-ons: add-on heat revenue year {i} = add-on heat x price', eq(a.AddOnHeatRevenue.value[i], hr)))
        out.append((f'add-ons: add-on net revenue year {i} = energy revenue + profit - add-on OPEX', eq(AR[i], er + hr + sP - sO)))
        out.append((f'add-ons: add-on cash flow operating year {i}', eq(ACF[K + i], AR[i])))
        # the extended project's cash flow: every product's reported (post-add-on) energy sold at that year's price, plus add-on profit,
        # minus O&M of plant and add-ons
        rev = 0.0
        if sells_elec:
            rev = rev + sp.NetkWhProduced.value[i] * price['Elec'][K + i] / 1_000_000.0
        if sells_heat:
            rev = rev + sp.HeatkWhProduced.value[i] * price['Heat'][K + i] / 1_000_000.0
        want = rev + sP - sO - O
        out.append((f'add-ons: project cash flow (including add-ons) operating year {i} = revenue of the reported energy + add-on profit - all O&M',
                    eq(PCF[K + i], want), 'C04-addon-energy-revenue-counted-twice', _far(PCF[K + i], want)))
        out.append((f'add-ons: project cash flow (including add-ons) operating year {i} deviates from its definition by exactly the add-on energy revenue (recorded finding)',
                    sor(eq(PCF[K + i], want), eq(PCF[K + i], want + er + hr))))
    for i in range(K):
        out.append((f'add-ons: add-on cash flow construction year {i} = -add-on CAPEX/K', eq(ACF[i], -1.0 * (sC / K))))
        out.append((f'add-ons: project cash flow (including add-ons) construction year {i} = -(CCap + add-on CAPEX)/K', eq(PCF[i], -1.0 * ((C + sC) / K))))
    for i in range(N):
        out.append((f'add-ons: add-on cumulative cash flow year {i} is the running sum', eq(ACUM[i], ACF[i] if i == 0 else ACUM[i - 1] + ACF[i])))
        out.append((f'add-ons: project cumulative cash flow (including add-ons) year {i} is the running sum', eq(PCUM[i], PCF[i] if i == 0 else PCUM[i - 1] + PCF[i])))
    r = a.FixedInternalRate.value / 100
    flag = a.discount_initial_year_cashflow.value
    out.append(('add-ons: NPV (including add-ons) = sum CF_t/(1+r)^t (or t+1 with the Excel-style flag) of the reported extended series',
                sor(sand(flag, eq(a.ProjectNPV.value, _npv(PCF, r, 1))), sand(snot(flag), eq(a.ProjectNPV.value, _npv(PCF, r, 0))))))
    irr = a.ProjectIRR.value
    out.append(('add-ons: reported non-zero IRR (including add-ons) zeroes the NPV of the reported extended series', sor(eq(irr, 0.0), _is_root(PCF, irr / 100)),
                'C04-addon-irr-reported-as-fraction', _irr_robust(PCF, irr)))
    out.append(('add-ons: the reported IRR (including add-ons) is zero, a root, or exactly a root expressed as a fraction instead of percent (recorded finding)',
                sor(eq(irr, 0.0), _is_root(PCF, irr / 100), _is_root(PCF, irr))))
    out.append(('add-ons: VIR (including add-ons) = 1 + NPV/adjusted CAPEX', eq(a.ProjectVIR.value, 1.0 + a.ProjectNPV.value / a.AdjustedProjectCAPEX.value)))
    out.append(('add-ons: MOIC (including add-ons) = cumulative at end / (adjusted CAPEX + adjusted OPEX*L)',
                eq(a.ProjectMOIC.value, PCUM[N - 1] / (a.AdjustedProjectCAPEX.value + a.AdjustedProjectOPEX.value * L))))
    pb = a.AddOnPaybackPeriod.value
    cross = [sand(ACUM[i] > 0, ACUM[i - 1] <= 0) for i in range(1, N)]
    within = [sand(c, pb >= i - 1, pb <= i + 1) for i, c in zip(range(1, N), cross)]
    out.append(('add-ons: add-on payback = 0 when the add-on cumulative cash flow never turns positive', sor(*cross, eq(pb, 0.0))))
    out.append(('add-ons: add-on payback lies within a year in which the add-on cumulative cash flow turns positive', sor(eq(pb, 0.0), *within)))
    return out


def _npv(series, r, shift):
    s = 0.0
    for t, v in enumerate(series):
        s = s + v / (1 + r) ** (t + shift) if (t + shift) else s + v
    return s


def _is_root(series, r):
    n = len(series)
    d = 1 + r
    if isinstance(d, SymReal) or any(isinstance(v, SymReal) for v in series):
        poly = 0.0
        for t, v in enumerate(series):
            poly = poly + (v * d ** (n - 1 - t) if n - 1 - t else v)
        return eq(poly, 0.0)
    s = sum(v / d ** t for t, v in enumerate(series))
    scale = sum(abs(v) for v in series) or 1.0
    return abs(s) <= 1e-6 * scale


def concrete(cfg, inputs, only=None):
    spec = spec_of(cfg)
    vals = econ.concrete_vals(spec, inputs)
    try:
        m = drive(cfg, vals, symbolic=False)
        obs = obligations(cfg, m)
    except ZeroDivisionError:
        return False, {'note': 'division by zero in floats: no result'}
    bad = [o[0] for o in obs if not o[1] and (only is None or o[0] == only)]
    e = m.economics
    return bool(bad), {'failed': bad[:6], 'CCap': e.CCap.value, 'Coam': e.Coam.value,
                       'TotalRevenue': [float(x) for x in e.TotalRevenue.value],
                       'TotalCummRevenue': [float(x) for x in e.TotalCummRevenue.value],
                       'NPV': e.ProjectNPV.value, 'IRR': e.ProjectIRR.value, 'VIR': e.ProjectVIR.value,
                       'MOIC': e.ProjectMOIC.value, 'payback': e.ProjectPaybackPeriod.value}


def units(tier, seed):
    us = [cfg_of(*b) for b in BOUNDS[tier]] + [cfg_of(*b) for b in ADDON_BOUNDS[tier]]
    from . import c09     # how the payback period is shown in the report (N/A clause): the real writer on the symbolic model
    shown = c09.CONFIGS[tier][:3] if tier == 'quick' else c09.CONFIGS[tier][:12]
    from . import c03     # closed-loop family: SBTEconomics.Calculate carries its own copy of the cash-flow code
    us.append({k: v for k, v in c03.sbt_cfg({}).items() if k != 'flags'})
    us.append({k: v for k, v in c03.sbt_cfg({}, K=2).items() if k != 'flags'})
    us += [{'harness': 'payback-display', 'kind': k, 'L': L, 'T': T, 'K': K, 'variant': x} for (k, L, T, K, x) in shown]
    us.append({'harness': 'rate-sync'})
    # with direct air capture switched on, the capture's own consumption is deducted from the energy the project sells: the cash flow is
    # built from the energy series the run reports
    us.append(cfg_of('electricity', 2, 1, False, extra={'Do S-DAC-GT Calculations': True}))
    if tier == 'thorough':
        us.append(cfg_of('direct-use', 2, 2, False, extra={'Do S-DAC-GT Calculations': True}))
        us.append(cfg_of('cogen-topping', 3, 1, False, extra={'Do S-DAC-GT Calculations': True}))
    return us


def run_rate_sync(unit):
    """the stated rate reaches the NPV: 'Discount Rate' (a fraction) and 'Fixed Internal Rate' (percent) are documented synonyms that
    Economics.sync_interest_rate reconciles after reading; the NPV code discounts at FixedInternalRate.  Real sync_interest_rate (pint
    conversions included) on symbolic values, which of the two names was given symbolic."""
    cfg = {'harness': 'rate-sync'}
    log = harness.UnitLog(cfg)
    names = ['discount rate (fraction)', 'fixed internal rate (percent)']
    zv = {n: z3.Real(n) for n in names}
    zv.update({'discount rate given': z3.Bool('discount rate given'), 'fixed internal rate given': z3.Bool('fixed internal rate given')})

    def run(dr, fir, pd_, pf):
        m = prepared(cfg_of('electricity', 2, 1, False)).reset()
        e = m.economics
        e.discountrate.value, e.FixedInternalRate.value = dr, fir
        e.discountrate.Provided, e.FixedInternalRate.Provided = pd_, pf
        e.sync_interest_rate(m)
        out = []
        D, F, I = e.discountrate.value, e.FixedInternalRate.value, e.interest_rate.value
        if pd_ and not pf:
            out.append(('only a discount rate is given: the NPV rate (percent) is that rate', core.near(F, dr * 100.0, 1e-12)))
            out.append(('only a discount rate is given: it is kept as stated', core.near(D, dr, 1e-12)))
        elif pf and not pd_:
            out.append(('only a fixed internal rate is given: it is kept as stated (the NPV discounts at it)', core.near(F, fir, 1e-12)))
            out.append(('only a fixed internal rate is given: the discount rate (fraction) follows it', core.near(D, fir / 100.0, 1e-12)))
        else:
            out.append(('both or neither given: the fixed internal rate is left as it is', core.near(F, fir, 1e-12)))
            out.append(('both or neither given: the discount rate is left as it is', core.near(D, dr, 1e-12)))
        out.append(('the reported interest rate (percent) is the discount rate in force', core.near(I, D * 100.0, 1e-12)))
        return out

    def concrete(inp, only=None):
        obs = run(float(inp.get(names[0], 0.07)), float(inp.get(names[1], 6.25)), bool(inp.get('discount rate given', False)), bool(inp.get('fixed internal rate given', False)))
        bad = [n for n, ok in obs if not ok and (only is None or n == only)]
        return bool(bad), {'failed': bad}

    def fn():
        dr, fir = core.sym(names[0], 0, 1), core.sym(names[1], 0, 100)
        return run(dr, fir, bool(core.symbool('discount rate given')), bool(core.symbool('fixed internal rate given')))
    for pr in core.explore(fn, max_paths=64):
        log.path(pr)
        if pr.error is not None:
            raise pr.error
        if pr.aborted:
            continue
        harness.reachable(log, pr.ctx, 1000)
        for name, cond in pr.value:
            harness.discharge(log, pr.ctx, name, cond, zv, lambda inp, name=name: concrete(inp, name), timeout_ms=10000, sample=True)
    yield log.result()


def example_inputs(cfg):
    """a concrete in-range point used as reachability witness / encoding self-check."""
    ex = {}
    for name, kind, lo, hi in spec_of(cfg):
        if kind == 'bool':
            ex[name] = False
        elif 'Produced' in name:
            ex[name] = 3.0e7
        elif name.endswith('totalcapcost'):
            ex[name] = 40.0
        elif name.endswith('oamtotalfixed'):
            ex[name] = 1.5
        elif name.endswith('TotalGrant'):
            ex[name] = 1.0
        elif name.endswith('FixedInternalRate'):
            ex[name] = 6.25
        elif 'StartPrice' in name:
            ex[name] = 0.0625
        elif 'EndPrice' in name:
            ex[name] = 0.125
        elif 'EscalationRate' in name:
            ex[name] = 0.015625
        elif 'Intensity' in name:
            ex[name] = 0.5
        else:
            ex[name] = 1.0
    return ex


def run_unit(unit):
    if unit.get('harness') == 'payback-display':
        from . import c09
        yield from c09.run_payback_display(unit)
        return
    if unit.get('harness') == 'rate-sync':
        yield from run_rate_sync(unit)
        return
    cfg = {k: v for k, v in unit.items() if k != 'tier'}
    tmo = 20000 if unit['tier'] == 'quick' else 60000
    spec = spec_of(cfg)
    log = harness.UnitLog({k: v for k, v in cfg.items() if k != 'extra'})
    prepared(cfg)
    ex = example_inputs(cfg)
    # concrete witness: which path does the example point take?
    _, zv0 = None, None

    def fn():
        vals, zv = econ.make_symbolic(spec)
        m = drive(cfg, vals, symbolic=True)
        return zv, obligations(cfg, m), m.economics.ProjectNPV.value
    npaths = 0
    exwit = None
    for pr in core.explore(fn, max_paths=60000):
        log.path(pr)
        npaths += 1
        if pr.error is not None:
            raise pr.error
        if pr.aborted:
            continue
        zv, obs, npv = pr.value
        c = pr.ctx
        if exwit is None:
            exwit = [zv[k] == (core.rv(v) if not isinstance(v, bool) else v) for k, v in ex.items()]
        r, _, _ = core.check_sat(c.all_constraints() + exwit, 3000)
        if r == 'sat':
            log['reachable'] += 1
            # encoding self-check on the path the example point follows
            m = drive(cfg, econ.concrete_vals(spec, ex), symbolic=False)
            sub = [(zv[k], core.rv(v) if not isinstance(v, bool) else z3.BoolVal(v)) for k, v in ex.items()]
            t = z3.simplify(z3.substitute(core.lift(npv), *sub))
            if z3.is_rational_value(t):
                sv = t.numerator_as_long() / t.denominator_as_long()
                fv = float(m.economics.ProjectNPV.value)
                rel = abs(sv - fv) / max(1e-12, abs(fv))
                log['selfcheck_cases'] += 1
                log['selfcheck_max_rel'] = max(log['selfcheck_max_rel'], rel)
                if rel > 1e-7:
                    raise core.HarnessError(f'encoding self-check failed: NPV symbolic {sv} vs float {fv}')
        elif npaths <= 40 or npaths % 25 == 0:
            harness.reachable(log, c, 2000)
        for ob in obs:
            name, cond, fid = ob[0], ob[1], (ob[2] if len(ob) > 2 else None)
            rob = ob[3] if len(ob) > 3 else None
            if isinstance(cond, bool):
                if cond:
                    log['obligations'] += 1
                    log['discharged'] += 1
                    log['trivial'] += 1
                    continue
            harness.discharge(log, c, name, cond, zv, lambda inp, name=name: concrete(cfg, inp, only=name), timeout_ms=tmo, finding=fid, robust=rob,
                              sample=(npaths == 1), desc=f'{name} [{cfg["kind"]} L={cfg["L"]} K={cfg["K"]}]')
        if npaths % 200 == 0:
            yield log.result()
            log = harness.UnitLog(cfg)
    yield log.result()


def replay(cex):
    if cex['config'].get('harness') == 'payback-display':
        from . import c09
        c = cex['config']
        return c09.replay_payback(c09.params_for(c['kind'], c['L'], c['T'], c['K'], c['variant']), cex['inputs'])
    return concrete(cex['config'], cex['inputs'], only=cex.get('obligation'))
