"""C13 — Monte Carlo iterations are independent draws from the requested distributions (DESIGN §4 C13)."""
from __future__ import annotations

import json
import os
import re
import shutil
import sys
import tempfile

import z3

from .. import core, gx, harness, mcworld, shim
from ..core import SymBool
from ..mcworld import MC, Draw

ID = 'C13'
FUNCTIONS = ['geophires_monte_carlo.MC_GeoPHIRES3:work_package', 'geophires_monte_carlo.MC_GeoPHIRES3:main']
UNIT_TIMEOUT = {'quick': 240, 'thorough': 900}
KW = {'quick': [(2, 2), (3, 2)], 'thorough': [(2, 2), (3, 2), (3, 3), (4, 2), (4, 3), (5, 2), (5, 3), (6, 2), (4, 4)]}
SETTINGS = [
    [['Reservoir Temperature', 'normal', '250', '25'], ['Reservoir Porosity', 'uniform', '8', '12']],
    [['Reservoir Thickness', 'triangular', '0.2', '0.25', '0.3'], ['Reservoir Area', 'lognormal', '4', '0.1']],
    [['Reservoir Life Cycle', 'binomial', '40', '0.7'], ['Rejection Temperature', 'uniform', '40', '60']],
]
META = {
    'explanation': 'The real work_package runs K times inside a symbolic process model: numpy\'s global generator is an object per worker '
                   'process (state term + draw counter); a forked worker starts with the parent\'s state; np.random.seed()/default_rng() '
                   'without argument yield fresh, pairwise distinct states; which worker executes which iteration and whether each '
                   'simulated run fails are solver variables; files, lock, temp names and simulation clients are in-memory stubs. z3 '
                   'proves for every schedule: the sampled vectors of any two iterations are distinct (different generator state or '
                   'different draw index), every variate is requested from the executing process\'s generator with the settings\' '
                   'distribution and parameters in order, is written to the simulated input with full precision (str/repr), and exactly '
                   'one row is appended iff the iteration succeeded. Main-level units (c13main): the REAL main() runs from the settings file to the end '
                   'of the pool phase around a model of ProcessPoolExecutor (map with chunks: a chunk runs in one solver-chosen worker forked from the parent, '
                   'an exception ends its chunk; submit), with os.cpu_count() part of the environment, uuid values fresh pairwise-distinct solver integers '
                   '(masking them is integer arithmetic for the solver), explicit seeds (equal seed <=> equal stream) and, in the lock-outcome units, pylocker '
                   'granting the lock with code 0/1/2 or refusing it: one header, ITERATIONS tasks, every iteration run whatever happens to the others, one row '
                   'per successful iteration, distinct sample vectors. Counterexamples replay the real main() with the real pool, numpy and pylocker, the '
                   'witness\' uuid values injected.',
    'bounds': {t: {'(iterations K, workers W)': KW[t], 'settings': SETTINGS,
                   'real main() around the pool model': 'c13main.BOUNDS (iterations, workers, settings, lock outcomes) and MANY (8-16 iterations on a 1-2 processor machine)'} for t in KW},
    'outside': ['statistical quality of numpy\'s PRNG (idealised: distinct states / indices give distinct continuous variates)',
                'more than 6 iterations / 4 workers (two workers suffice for the inheritance argument)', 'the OS scheduler beyond the assignment of iterations to workers'],
    'assumptions': ['os.fork copies the parent\'s generator state; OS entropy reseeds are pairwise distinct (DESIGN Appendix D)',
                    'ProcessPoolExecutor workers are forked from a parent that has drawn nothing'],
    'stubs': ['MC_GeoPHIRES3.np.random -> symbolic generator; open/Path/shutil/tempfile/uuid/Locker/clients -> in-memory world'],
}


def pick(name, n):
    """solver-chosen index in range(n)."""
    for i in range(n - 1):
        if bool(SymBool(z3.Bool(f'{name}_is_{i}'))):
            return i
    return n - 1


def run_schedule(K, W, settings, code):
    outputs = ['Out A', 'Out B']
    w = mcworld.MCWorld(outputs, [True, True], False)
    w.fs['/w/MC_Result.txt'] = 'Out A, Out B, ' + ', '.join(s[0] for s in settings) + '\n'
    workers = [w.parent_gen.fork(f'worker{i}') for i in range(W)]
    args = mcworld.make_args(code)
    pass_list = [settings, outputs, args, '/w/MC_Result.txt', '/w/', 'python']
    obs = []
    with shim.shadow(*mcworld.shadows(w)):
        for it in range(K):
            wi = pick(f'iteration[{it}]_worker', W)
            w.current_gen = workers[wi]
            w.fail = bool(SymBool(z3.Bool(f'fails[{it}]')))
            before = w.fs['/w/MC_Result.txt']
            ndraw = len(workers[wi].draws)
            nsim = len(w.sim_inputs)
            exc = None
            try:
                MC.work_package(pass_list)
            except (RuntimeError, mcworld.SimExit, SystemExit) as e:
                exc = e
            # draws made by ANY generator reachable in this call
            new_draws = workers[wi].draws[ndraw:]
            after = w.fs['/w/MC_Result.txt']
            sim_text = w.sim_inputs[nsim] if len(w.sim_inputs) > nsim else None
            obs.append({'it': it, 'worker': wi, 'failed': bool(w.fail), 'raised': exc is not None, 'draws': new_draws,
                        'appended': after[len(before):] if after.startswith(before) else None, 'sim_text': sim_text})
    return obs


DRAW_RE = re.compile(r'⟦draw(\d+):([^⟧]*)⟧')


def sampled(o, settings):
    """what the iteration fed to the simulation: list of (name, text) for the settings' inputs, parsed from the simulated input."""
    if o['sim_text'] is None:
        return None
    lines = o['sim_text'].splitlines()[1:]   # after the base input
    out = []
    for ln in lines:
        name, _, val = ln.partition(', ')
        out.append((name, val))
    return out


def replay_system(settings, iterations=None):
    """the real Monte-Carlo driver, real process pool, real HIP-RA-X: count replicated / imprecise samples."""
    d = tempfile.mkdtemp(prefix='symx_c13_')
    cwd, argv = os.getcwd(), sys.argv
    try:
        inp = os.path.join(d, 'hip.txt')
        with open(inp, 'w') as f:
            f.write('Reservoir Temperature, 250.0\nRejection Temperature, 60.0\nReservoir Porosity, 10.0\nReservoir Area, 55.0\n'
                    'Reservoir Thickness, 0.25\nReservoir Life Cycle, 25\n')
        st = os.path.join(d, 'settings.txt')
        out = os.path.join(d, 'MC_Result.txt')
        n = iterations or 3 * (os.cpu_count() or 4)
        with open(st, 'w') as f:
            for s in settings:
                f.write('INPUT, ' + ', '.join(s) + '\n')
            f.write('OUTPUT, Producible Electricity (reservoir)\nITERATIONS, %d\nMC_OUTPUT_FILE, %s\n' % (n, out))
        import contextlib
        import io
        import warnings
        with contextlib.redirect_stdout(io.StringIO()), warnings.catch_warnings():
            warnings.simplefilter('ignore')
            try:
                MC.main(command_line_args=[os.path.join(gx.SRC, 'hip_ra_x', 'hip_ra_x.py'), inp, st, out])
            except Exception as e:   # the summary may fail on degenerate data; the rows are what matters
                err = repr(e)[:120]
        rows = [ln for ln in open(out).read().splitlines()[1:] if '(' in ln and ':' in ln]
        vecs = [ln[ln.index('('):] for ln in rows]
        vecs = [v for v in vecs if ';' in v and v.count('(') == 1]
        distinct = len(set(vecs))
        # per continuous input: a replicated draw of ONE component is already a replicated draw
        cols = {}
        for v in vecs:
            for item in v.strip('()').strip(';').split(';'):
                name, _, val = item.partition(':')
                cols.setdefault(name, []).append(val)
        cont = {s[0] for s in settings if s[1] != 'binomial'}
        per_input = {k: len(set(x)) for k, x in cols.items() if k in cont}
        worst = min(per_input.values()) if per_input else len(vecs)
        return {'iterations': n, 'rows': len(vecs), 'distinct_sample_vectors': min(distinct, worst), 'distinct_vectors': distinct,
                'distinct_values_per_continuous_input': per_input, 'example_row': vecs[0] if vecs else None}
    finally:
        os.chdir(cwd)
        sys.argv = argv
        shutil.rmtree(d, ignore_errors=True)


def replay_requests_real(settings, iterations=4):
    """the real main(), real process pool, real numpy, real HIP-RA-X - with numpy's five sampling functions wrapped so that every request
    (function name, arguments, process id) is appended to a file the forked workers inherit: each iteration must have requested exactly one
    variate per INPUT line, from the distribution and with the parameters that line states, in order."""
    key = ('requests', json.dumps(settings))
    if key in _REPLAYED:
        return _REPLAYED[key]
    import contextlib
    import io
    import warnings
    import numpy as real_np
    from .. import shim
    d = tempfile.mkdtemp(prefix='symx_c13req_')
    cwd, argv = os.getcwd(), sys.argv
    try:
        inp, st, out, rec = (os.path.join(d, n) for n in ('hip.txt', 'settings.txt', 'MC_Result.txt', 'requests.txt'))
        with open(inp, 'w') as f:
            f.write('Reservoir Temperature, 250.0\nRejection Temperature, 60.0\nReservoir Porosity, 10.0\nReservoir Area, 55.0\n'
                    'Reservoir Thickness, 0.25\nReservoir Life Cycle, 25\n')
        with open(st, 'w') as f:
            for s_ in settings:
                f.write('INPUT, ' + ', '.join(s_) + '\n')
            f.write('OUTPUT, Producible Electricity (reservoir)\nITERATIONS, %d\nMC_OUTPUT_FILE, %s\n' % (iterations, out))

        class RandRec:
            def __getattr__(self, k):
                fn = getattr(real_np.random, k)
                if k not in ('normal', 'uniform', 'triangular', 'lognormal', 'binomial'):
                    return fn

                def wrapped(*a, **kw):
                    with open(rec, 'a') as f:
                        f.write(json.dumps([os.getpid(), k, [float(x) for x in a]]) + '\n')
                    return fn(*a, **kw)
                return wrapped

        class NpRec:
            random = RandRec()

            def __getattr__(self, k):
                return getattr(real_np, k)
        err = None
        with shim.shadow((MC, 'np', NpRec())), contextlib.redirect_stdout(io.StringIO()), contextlib.redirect_stderr(io.StringIO()), warnings.catch_warnings():
            warnings.simplefilter('ignore')
            try:
                MC.main(command_line_args=[os.path.join(gx.SRC, 'hip_ra_x', 'hip_ra_x.py'), inp, st, out])
            except Exception as e:   # the summary may fail on degenerate data; the requests are what matters
                err = repr(e)[:120]
        per_pid = {}
        for ln in (open(rec).read().splitlines() if os.path.exists(rec) else []):
            pid_, k, a = json.loads(ln)
            per_pid.setdefault(pid_, []).append((k, tuple(a)))
        want = [(s_[1], tuple(float(x) for x in s_[2:])) for s_ in settings]
        bad, n_it = [], 0
        for pid_, reqs in per_pid.items():
            for i in range(0, len(reqs), len(want)):
                chunk = reqs[i:i + len(want)]
                n_it += 1
                if chunk != want:
                    bad.append({'requested': chunk, 'settings': want})
        res = (bool(bad) or n_it != iterations), {'iterations': iterations, 'iterations whose requests were recorded': n_it, 'first deviating iterations': bad[:2],
                                                  'summary_error': err}
        _REPLAYED[key] = res
        return res
    finally:
        os.chdir(cwd)
        sys.argv = argv
        shutil.rmtree(d, ignore_errors=True)


def units(tier, seed):
    us = []
    for (K, W) in KW[tier]:
        for si in range(len(SETTINGS)):
            us.append({'K': K, 'W': W, 'settings': si, 'code': 'hip_ra_x.py' if si % 2 else 'GEOPHIRESv3.py'})
    from . import c13main
    us += c13main.units(tier)
    from . import c14stats      # the summarising step of main() rewrites nothing: rows of iterations that drew the same discrete vector both stay
    us += [u for u in c14stats.units(tier) if u.get('dup')]
    return us


_REPLAYED = {}


def check_obs(log, c, obs, settings, zv, concrete_dups, concrete_precision, first=False, row_finding=None):
    """the C13 obligations over the observations of one explored schedule (shared with the main()-level harness)."""
    obs = [o for o in obs if not o.get('skipped')]
    # environment contract: all entropy states are pairwise distinct and differ from the inherited parent state
    ent = set()
    for o in obs:
        for d in o['draws']:
            if d.state is not None and z3.is_const(d.state) and not z3.is_int_value(d.state):
                ent.add(d.state)
    seeded_ids = {q[1].get_id() for q in mcworld.Gen.seed_pairs}
    ent = [e for e in {e.get_id(): e for e in ent}.values() if e.get_id() not in seeded_ids]
    distinct = [z3.Distinct(*ent)] if len(ent) > 1 else []
    # explicit seeds: two generators seeded with equal values replay the same stream, with different values different streams;
    # an explicitly seeded stream is never an entropy-seeded one
    sp = list(mcworld.Gen.seed_pairs)
    for i in range(len(sp)):
        for j in range(i + 1, len(sp)):
            distinct.append((sp[i][0] == sp[j][0]) == (sp[i][1] == sp[j][1]))
        for e in ent:
            distinct.append(e != sp[i][1])
    harness.reachable(log, c, 1000)
    for o in obs:
        it = o['it']
        sm = sampled(o, settings)
        # (2) every variate is requested from the executing process's generator with the settings' parameters, in order
        ok_req = len(o['draws']) == len(settings)
        for d, s in zip(o['draws'], settings):
            want = tuple(float(x) if s[1] != 'binomial' or i else int(x) for i, x in enumerate(s[2:]))
            ok_req = ok_req and d.dist == s[1] and tuple(float(x) for x in d.params) == tuple(float(x) for x in want)
        harness.discharge(log, c, f'iteration {it}: one variate per INPUT, requested from the executing process\'s numpy generator with the settings\' distribution and parameters',
                          bool(ok_req), zv, lambda inp: replay_requests_real([list(s_) for s_ in settings]), sample=(first and it == 0))
        if sm is not None and ok_req:
            # (4) what the simulation receives is the variate itself, at full precision
            ok_txt = len(sm) == len(settings)
            for (name, val), d, s in zip(sm, o['draws'], settings):
                mt = DRAW_RE.fullmatch(val.strip())
                ok_txt = ok_txt and name == s[0] and mt is not None and int(mt.group(1)) == d.uid and mt.group(2) in ('str', 'repr')
            harness.discharge(log, c, f'iteration {it}: the simulated input carries (name, variate) for every INPUT in order, the variate written with full precision',
                              bool(ok_txt), zv, concrete_precision)
        # (3) exactly one row iff the iteration succeeded
        app = o['appended']
        nrows = None if app is None else app.count('\n')
        lost = (not o.get('lock_acquired', True)) and not (o['raised'] or o['failed'])
        harness.discharge(log, c, f'iteration {it}: exactly one result row is appended iff the simulated run succeeded'
                          + (' [region: the results-file lock was not granted]' if lost else ''),
                          app is not None and nrows == (0 if o['raised'] or o['failed'] else 1), zv,
                          (row_finding[1] if lost and row_finding else (lambda inp: (True, {'note': 'row accounting in the in-memory world'}))),
                          finding=(row_finding[0] if lost and row_finding else None))
    # (1) any two iterations sampled different vectors
    for a in range(len(obs)):
        for b in range(a + 1, len(obs)):
            da, db = obs[a]['draws'], obs[b]['draws']
            if len(da) != len(settings) or len(db) != len(settings):
                continue
            same = z3.And([z3.And(x.state == y.state, x.k == y.k) for x, y in zip(da, db)])
            harness.discharge(log, c, f'iterations {a} and {b} (workers {obs[a]["worker"]}, {obs[b]["worker"]}) draw different sample vectors',
                              z3.Not(same), zv, concrete_dups, extra=distinct,
                              finding='C13-forked-workers-share-rng-state' if obs[a]['worker'] != obs[b]['worker'] else None)


def run_unit(unit):
    if unit.get('harness') == 'main':
        from . import c13main
        yield from c13main.run_unit(unit)
        return
    if unit.get('harness') == 'stats':
        from . import c14stats
        yield from c14stats.run_unit(unit)
        return
    K, W, si, code = unit['K'], unit['W'], unit['settings'], unit['code']
    settings = [list(s) for s in SETTINGS[si]]
    cfg = {'K': K, 'W': W, 'settings': SETTINGS[si], 'code': code}
    log = harness.UnitLog(cfg)
    zv = {}
    for it in range(K):
        for i in range(W - 1):
            zv[f'iteration[{it}]_worker_is_{i}'] = z3.Bool(f'iteration[{it}]_worker_is_{i}')
        zv[f'fails[{it}]'] = z3.Bool(f'fails[{it}]')

    def concrete_dups(inp):
        key = ('dups', si)
        if key not in _REPLAYED:
            _REPLAYED[key] = replay_system(SETTINGS[si])
        r = _REPLAYED[key]
        return r['distinct_sample_vectors'] < r['rows'], r

    def concrete_precision(inp):
        narrow = [['Reservoir Temperature', 'normal', '250', '0.00001'], ['Reservoir Porosity', 'uniform', '10.000001', '10.000002']]
        key = ('prec',)
        if key not in _REPLAYED:
            _REPLAYED[key] = replay_system(narrow, iterations=24)
        r = _REPLAYED[key]
        return r['distinct_sample_vectors'] < r['rows'], r

    def fn():
        return run_schedule(K, W, [list(s) for s in settings], code)
    n = 0
    for pr in core.explore(fn, max_paths=200000):
        log.path(pr)
        n += 1
        if pr.error is not None:
            raise pr.error
        if pr.aborted:
            continue
        check_obs(log, pr.ctx, pr.value, settings, zv, concrete_dups, concrete_precision, first=(n == 1))
    yield log.result()


def replay(cex):
    si = SETTINGS.index(cex['config']['settings']) if cex['config']['settings'] in SETTINGS else 0
    r = replay_system(SETTINGS[si])
    return r['distinct_sample_vectors'] < r['rows'], r
