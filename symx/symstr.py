"""Bounded symbolic strings: concrete length, each cell a concrete code point or a symbolic one (z3 Int).
Only the str methods used by the code under test are provided; every character predicate is a fork."""
from __future__ import annotations

import z3

from . import core
from .core import SymBool

# str.isspace() is true for exactly these code points (CPython 3.12 / Unicode 15); str.strip() strips exactly these
WS = [9, 10, 11, 12, 13, 28, 29, 30, 31, 32, 133, 160, 5760, 8192, 8193, 8194, 8195, 8196, 8197, 8198, 8199, 8200, 8201, 8202,
      8232, 8233, 8239, 8287, 12288]


class Ch:
    __slots__ = ('t',)

    def __init__(self, t):
        self.t = t     # python int or z3 Int term

    @property
    def concrete(self):
        return isinstance(self.t, int)

    def isspace(self):
        if self.concrete:
            return self.t in WS
        return bool(SymBool(z3.Or([self.t == c for c in WS])))

    def eq(self, o):
        if self.concrete and o.concrete:
            return self.t == o.t
        return bool(SymBool(self.t == o.t))

    def term(self):
        return z3.IntVal(self.t) if self.concrete else self.t


def chars(x):
    if isinstance(x, SymStr):
        return x.cs
    return [Ch(ord(c)) for c in x]


class SymStr:
    def __init__(self, cs):
        self.cs = list(cs)

    @staticmethod
    def fresh(name, n):
        return SymStr([Ch(z3.Int(f'{name}[{i}]')) for i in range(n)])

    def __len__(self):
        return len(self.cs)

    def __add__(self, o):
        return SymStr(self.cs + chars(o))

    def __radd__(self, o):
        return SymStr(chars(o) + self.cs)

    def __getitem__(self, i):
        if isinstance(i, slice):
            return SymStr(self.cs[i])
        return SymStr([self.cs[i]])

    def __iter__(self):
        return iter(SymStr([c]) for c in self.cs)

    def __eq__(self, o):
        if not isinstance(o, (str, SymStr)):
            return NotImplemented
        oc = chars(o)
        if len(oc) != len(self.cs):
            return False
        return all(a.eq(b) for a, b in zip(self.cs, oc))

    def __ne__(self, o):
        r = self.__eq__(o)
        return r if r is NotImplemented else not r

    def __hash__(self):
        return 0     # dict / set lookups then decide equality symbolically through __eq__

    def __contains__(self, sub):
        sc = chars(sub)
        n = len(sc)
        if n == 0:
            return True
        for i in range(len(self.cs) - n + 1):
            if all(a.eq(b) for a, b in zip(self.cs[i:i + n], sc)):
                return True
        return False

    # ---- stripping -------------------------------------------------------------------------------------------------
    @staticmethod
    def _strip_pred(a):
        if a and a[0] is not None:
            cs = chars(a[0])
            return lambda c: any(c.eq(x) for x in cs)
        return lambda c: c.isspace()

    def strip(self, *a):
        return self.lstrip(*a).rstrip(*a)

    def lstrip(self, *a):
        pred = self._strip_pred(a)
        i, j = 0, len(self.cs)
        while i < j and pred(self.cs[i]):
            i += 1
        return SymStr(self.cs[i:j])

    def rstrip(self, *a):
        pred = self._strip_pred(a)
        j = len(self.cs)
        while j > 0 and pred(self.cs[j - 1]):
            j -= 1
        return SymStr(self.cs[:j])

    # ---- prefix / suffix / search -----------------------------------------------------------------------------------
    def _match_at(self, i, pc):
        if i < 0 or i + len(pc) > len(self.cs):
            return False
        return all(a.eq(b) for a, b in zip(self.cs[i:i + len(pc)], pc))

    def startswith(self, p, start=0):
        if isinstance(p, tuple):
            return any(self.startswith(q, start) for q in p)
        return self._match_at(start, chars(p))

    def endswith(self, p):
        if isinstance(p, tuple):
            return any(self.endswith(q) for q in p)
        pc = chars(p)
        return self._match_at(len(self.cs) - len(pc), pc)

    def removeprefix(self, p):
        return SymStr(self.cs[len(chars(p)):]) if len(chars(p)) and self.startswith(p) else SymStr(self.cs)

    def removesuffix(self, p):
        return SymStr(self.cs[:len(self.cs) - len(chars(p))]) if len(chars(p)) and self.endswith(p) else SymStr(self.cs)

    def find(self, sub, start=0):
        sc = chars(sub)
        for i in range(start, len(self.cs) - len(sc) + 1):
            if self._match_at(i, sc):
                return i
        return -1

    def rfind(self, sub):
        sc = chars(sub)
        for i in range(len(self.cs) - len(sc), -1, -1):
            if self._match_at(i, sc):
                return i
        return -1

    def index(self, sub, start=0):
        i = self.find(sub, start)
        if i < 0:
            raise ValueError('substring not found')
        return i

    def count(self, sub):
        sc = chars(sub)
        if not sc:
            return len(self.cs) + 1
        n = i = 0
        while i <= len(self.cs) - len(sc):
            if self._match_at(i, sc):
                n += 1
                i += len(sc)
            else:
                i += 1
        return n

    # ---- splitting --------------------------------------------------------------------------------------------------
    def split(self, sep=None, maxsplit=-1):
        if sep is None:
            out, cur, k = [], [], 0
            i, n = 0, len(self.cs)
            while i < n:
                if self.cs[i].isspace():
                    if cur:
                        out.append(SymStr(cur))
                        cur = []
                        k += 1
                    i += 1
                    continue
                if maxsplit != -1 and k >= maxsplit:
                    rest = SymStr(self.cs[i:]).rstrip()
                    out.append(rest)
                    return out
                cur.append(self.cs[i])
                i += 1
            if cur:
                out.append(SymStr(cur))
            return out
        sc = chars(sep)
        if not sc:
            raise ValueError('empty separator')
        out, cur, i, k = [], [], 0, 0
        while i < len(self.cs):
            if (maxsplit == -1 or k < maxsplit) and self._match_at(i, sc):
                out.append(SymStr(cur))
                cur = []
                i += len(sc)
                k += 1
            else:
                cur.append(self.cs[i])
                i += 1
        out.append(SymStr(cur))
        return out

    def rsplit(self, sep=None, maxsplit=-1):
        if maxsplit == -1:
            return self.split(sep, -1)
        if sep is None:
            raise core.HarnessError('rsplit(None, maxsplit) not modelled')
        sc = chars(sep)
        out, j, k = [], len(self.cs), 0
        i = len(self.cs) - len(sc)
        while i >= 0 and k < maxsplit:
            if self._match_at(i, sc):
                out.append(SymStr(self.cs[i + len(sc):j]))
                j = i
                i -= len(sc)
                k += 1
            else:
                i -= 1
        out.append(SymStr(self.cs[:j]))
        return out[::-1]

    def partition(self, sep):
        i = self.find(sep)
        if i < 0:
            return SymStr(self.cs), '', ''
        n = len(chars(sep))
        return SymStr(self.cs[:i]), SymStr(self.cs[i:i + n]), SymStr(self.cs[i + n:])

    def rpartition(self, sep):
        i = self.rfind(sep)
        if i < 0:
            return '', '', SymStr(self.cs)
        n = len(chars(sep))
        return SymStr(self.cs[:i]), SymStr(self.cs[i:i + n]), SymStr(self.cs[i + n:])

    _LINE_BREAKS = (10, 11, 12, 13, 28, 29, 30, 133, 8232, 8233)

    def splitlines(self, keepends=False):
        out, cur, i = [], [], 0
        while i < len(self.cs):
            c = self.cs[i]
            brk = (c.t in self._LINE_BREAKS) if c.concrete else bool(SymBool(z3.Or([c.t == b for b in self._LINE_BREAKS])))
            if brk:
                end = [c]
                if i + 1 < len(self.cs) and c.eq(Ch(13)) and self.cs[i + 1].eq(Ch(10)):
                    end.append(self.cs[i + 1])
                    i += 1
                out.append(SymStr(cur + (end if keepends else [])))
                cur = []
            else:
                cur.append(c)
            i += 1
        if cur:
            out.append(SymStr(cur))
        return out

    def replace(self, old, new, count=-1):
        oc, nc = chars(old), chars(new)
        if not oc:
            raise core.HarnessError('replace with an empty pattern not modelled')
        out, i, k = [], 0, 0
        while i < len(self.cs):
            if (count == -1 or k < count) and self._match_at(i, oc):
                out += nc
                i += len(oc)
                k += 1
            else:
                out.append(self.cs[i])
                i += 1
        return SymStr(out)

    def join(self, parts):
        out = []
        for k, p_ in enumerate(parts):
            if k:
                out += self.cs
            out += chars(p_)
        return SymStr(out)

    def __mul__(self, k):
        return SymStr(self.cs * int(k))

    __rmul__ = __mul__

    def __bool__(self):
        return len(self.cs) > 0

    def eq_term(self, o):
        """z3 Bool: this string equals o (same length required)."""
        oc = chars(o)
        if len(oc) != len(self.cs):
            return z3.BoolVal(False)
        return z3.And([a.term() == b.term() for a, b in zip(self.cs, oc)]) if self.cs else z3.BoolVal(True)

    def concrete(self, model=None):
        out = []
        for c in self.cs:
            if c.concrete:
                out.append(chr(c.t))
            else:
                v = model.eval(c.t, model_completion=True).as_long() if model is not None else 63
                out.append(chr(v) if 0 <= v < 0x110000 else '?')
        return ''.join(out)

    def __repr__(self):
        return 'SymStr(%s)' % ','.join(str(c.t) for c in self.cs)

    def __str__(self):
        return self.__repr__()
