"""C17 — heat-in-place assessment adds up and scales with reservoir size (DESIGN §4 C17)."""
from __future__ import annotations

import contextlib
import io

import z3

from .. import core, gx, harness, rel, shim
from ..core import sym, eq, SymReal, SymBool
from . import c07

import hip_ra_x.hip_ra_x as H

P = gx.P
ID = 'C17'
FUNCTIONS = ['hip_ra_x.hip_ra_x:HIP_RA_X.Calculate', 'hip_ra_x.hip_ra_x:HIP_RA_X.read_parameters', 'geophires_x.Parameter:ReadParameter',
             'geophires_x.Parameter:ConvertUnits']
UNIT_TIMEOUT = {'quick': 240, 'thorough': 1200}
META = {
    'explanation': 'The real HIP_RA_X.Calculate runs with all inputs symbolic under the four provided/derived depth/pressure configurations; the '
                   'CoolProp water properties, the recoverable-heat and utilisation-efficiency tables are uninterpreted functions of '
                   '(temperature, pressure) carrying only the thermodynamic contract the ordering clause needs. z3 proves: rock / fluid '
                   'volumes are the stated porosity fractions; stored = rock + fluid; available <= stored and producible <= available '
                   '(reservoir hotter than rejection temperature); area x lambda and thickness x lambda scale every extensive result by '
                   'exactly lambda and leave per-volume and percentage results unchanged (per-area results unchanged resp. x lambda) - '
                   'second run by substitution; an input written in another listed unit gives, through the real reader and the real '
                   'Calculate, exactly the outputs of the run given the converted value.',
    'bounds': {t: {'depth/pressure configurations': 4, 'unit clause': 'temperature (degF, K), length (m, ft ...), area, pressure units pint converts'} for t in ('quick', 'thorough')},
    'outside': ['the numeric content of CoolProp / the efficiency tables (only the listed contract is used)', 'IEEE rounding', 'inputs that make a denominator zero (porosity 100 %, equal temperatures)'],
    'assumptions': ['real arithmetic', 'water enthalpy and entropy increase with temperature at fixed pressure; exergy dh - T0*ds >= 0; density, heat capacity > 0; '
                    'recoverable-heat efficiency in [0,1] (instantiated on the applied arguments; sanity-evaluated against the real CoolProp on a grid in the thorough tier)',
                    'reservoir temperature > rejection temperature for the ordering clause', 'inputs inside declared ranges'],
    'stubs': ['hip_ra_x.density_water_kg_per_m3 / heat_capacity_water_J_per_kg_per_K / enthalpy_water_kJ_per_kg / entropy_water_kJ_per_kg_per_K / RecoverableHeat / UtilEff_func -> uninterpreted functions'],
}

INPUTS = [('reservoir_temperature', 50, 1000), ('rejection_temperature', 0.1, 200), ('reservoir_porosity', 0, 100), ('reservoir_area', 0, 10000),
          ('reservoir_thickness', 0, 10000), ('reservoir_life_cycle', 1, 200), ('rock_heat_capacity', 0, 1e14), ('rock_density', 1e11, 1e13),
          ('recoverable_fluid_factor', 0, 1), ('recoverable_rock_heat', 0, 1), ('reservoir_depth', 0.001, 15), ('reservoir_pressure', 0, 10000),
          ('fluid_heat_capacity', 3, 10), ('fluid_density', 1e11, 1e13)]
EXTENSIVE = ['reservoir_volume', 'volume_rock', 'volume_recoverable_fluid', 'mass_rock', 'mass_recoverable_fluid', 'reservoir_mass', 'stored_heat_rock',
             'stored_heat_fluid', 'reservoir_stored_heat', 'reservoir_available_heat', 'reservoir_producible_heat', 'reservoir_producible_electricity']
PER_AREA = ['producible_heat_per_unit_area', 'producible_electricity_per_unit_area']
INTENSIVE = ['heat_per_unit_volume_reservoir', 'electricity_per_unit_volume_reservoir', 'reservoir_recovery_factor', 'enthalpy_rock', 'enthalpy_fluid', 'reservoir_enthalpy']

R2 = [core.R, core.R, core.R]
UFS = {n: z3.Function('uf_' + n, *R2) for n in ('rho_w', 'cp_w', 'h_w', 's_w')}
UF1 = {n: z3.Function('uf_' + n, core.R, core.R) for n in ('recoverable_heat', 'util_eff')}


def _mag(p):
    m = getattr(p, 'magnitude', p)
    return m


def _uf2(name):
    def f(T, pressure=None, **k):
        pt = core.lift(_mag(pressure)) if pressure is not None else core.rv(0)
        return SymReal(UFS[name](core.lift(T), pt))
    return f


def _uf1(name):
    def f(T, *a, **k):
        return SymReal(UF1[name](core.lift(T)))
    return f


_real_c2k = H.celsius_to_kelvin


def _c2k(c):
    # the real function insists on int/float; on a proxy the same arithmetic (checked against the real one on floats below)
    if isinstance(c, SymReal):
        return c + 273.15
    return _real_c2k(c)


assert _real_c2k(12.5) == 12.5 + 273.15

SHADOWS = [(H, 'celsius_to_kelvin', _c2k), (H, 'density_water_kg_per_m3', _uf2('rho_w')), (H, 'heat_capacity_water_J_per_kg_per_K', _uf2('cp_w')), (H, 'enthalpy_water_kJ_per_kg', _uf2('h_w')),
           (H, 'entropy_water_kJ_per_kg_per_K', _uf2('s_w')), (H, 'RecoverableHeat', _uf1('recoverable_heat')), (H, 'UtilEff_func', _uf1('util_eff'))]


class NullLogger:
    def __getattr__(self, k):
        return lambda *a, **kw: None


def fresh():
    o = H.HIP_RA_X(enable_hip_ra_logging_config=False)
    o.logger = NullLogger()
    return o


def apps(terms, decl):
    seen, out, stack = set(), [], list(terms)
    while stack:
        t = stack.pop()
        if t.get_id() in seen:
            continue
        seen.add(t.get_id())
        if z3.is_app(t):
            if t.decl().eq(decl):
                out.append(t)
            stack.extend(t.children())
    return out


def thermo_axioms(terms):
    """the contract of the water-property functions, instantiated on the arguments that occur."""
    ax = []
    for n in ('rho_w', 'cp_w'):
        for a in apps(terms, UFS[n]):
            ax.append(a > 0)
    for n in ('h_w', 's_w'):
        A = apps(terms, UFS[n])
        for i, a in enumerate(A):
            for b in A[i + 1:]:
                same_p = a.arg(1) == b.arg(1)
                ax.append(z3.Implies(z3.And(same_p, a.arg(0) > b.arg(0)), a > b))
                ax.append(z3.Implies(z3.And(same_p, b.arg(0) > a.arg(0)), b > a))
    # exergy: for T > T0 at the same pressure, (h(T) - h(T0)) - (T0 + 273.15) (s(T) - s(T0)) >= 0
    Hs, Ss = apps(terms, UFS['h_w']), apps(terms, UFS['s_w'])
    for a in Hs:
        for b in Hs:
            if a.eq(b):
                continue
            sa = [s for s in Ss if s.arg(0).eq(a.arg(0)) and s.arg(1).eq(a.arg(1))]
            sb = [s for s in Ss if s.arg(0).eq(b.arg(0)) and s.arg(1).eq(b.arg(1))]
            if sa and sb:
                ax.append(z3.Implies(z3.And(a.arg(1) == b.arg(1), a.arg(0) > b.arg(0)),
                                     (a - b) - (b.arg(0) + core.rv(273.15)) * (sa[0] - sb[0]) >= 0))
    for a in apps(terms, UF1['recoverable_heat']):
        ax += [a >= 0, a <= 1]
    for a in apps(terms, UF1['util_eff']):
        ax += [a >= 0, a <= 1]
    return ax


def install(o, vals, cfg):
    for n, v in vals.items():
        getattr(o, n).value = v
    o.reservoir_depth.Provided = cfg['depth_provided']
    o.reservoir_pressure.Provided = cfg['pressure_provided']
    if not cfg['fluid_props_given']:
        o.fluid_heat_capacity.value = -1.0
        o.fluid_density.value = -1.0


def outs_of(o):
    return {n: getattr(o, n).value for n in EXTENSIVE + PER_AREA + INTENSIVE}


def drive(cfg, vals, symbolic):
    o = fresh()
    install(o, vals, cfg)
    if symbolic:
        with shim.shadow(*SHADOWS), contextlib.redirect_stderr(io.StringIO()):
            o.Calculate()
    else:
        with contextlib.redirect_stderr(io.StringIO()):
            o.Calculate()
    return o


def input_names(cfg):
    ns = [n for n, _, _ in INPUTS]
    if not cfg['fluid_props_given']:
        ns = [n for n in ns if n not in ('fluid_heat_capacity', 'fluid_density')]
    if not cfg['depth_provided']:
        ns = [n for n in ns if n != 'reservoir_depth']
    if not cfg['pressure_provided']:
        ns = [n for n in ns if n != 'reservoir_pressure']
    return ns


def run_calc(unit):
    cfg = {k: v for k, v in unit.items() if k not in ('tier', 'harness')}
    cfg['harness'] = 'calculate'
    log = harness.UnitLog(cfg)
    names = input_names(cfg)
    rng = {n: (lo, hi) for n, lo, hi in INPUTS}

    def fn():
        vals = {n: sym(n, *rng[n]) for n in names}
        o = drive(cfg, vals, True)
        return vals, o
    zv = {n: z3.Real(n) for n in names}

    def concrete_add(inp):
        vals = {n: float(inp[n]) for n in names}
        try:
            o = drive(cfg, vals, False)
        except Exception as e:
            return False, {'no result': repr(e)[:160]}
        V = vals['reservoir_area'] * vals['reservoir_thickness']
        phi = vals['reservoir_porosity'] / 100.0
        bad = []
        chk = lambda nm, a, b: bad.append((nm, a, b)) if not core.eq(float(a), float(b), rel=1e-9) else None
        chk('rock volume', o.volume_rock.value, V * (1 - phi))
        chk('fluid volume', o.volume_recoverable_fluid.value, V * phi * vals['recoverable_fluid_factor'])
        chk('stored heat', o.reservoir_stored_heat.value, o.stored_heat_rock.value + o.stored_heat_fluid.value)
        if vals['reservoir_temperature'] > vals['rejection_temperature']:
            if float(o.reservoir_available_heat.value) > float(o.reservoir_stored_heat.value) * (1 + 1e-9):
                bad.append(('available > stored', o.reservoir_available_heat.value, o.reservoir_stored_heat.value))
            if float(o.reservoir_producible_heat.value) > float(o.reservoir_available_heat.value) * (1 + 1e-9):
                bad.append(('producible > available', o.reservoir_producible_heat.value, o.reservoir_available_heat.value))
        return bool(bad), {'problems': [(a, float(b), float(c)) for a, b, c in bad]}
    paths, assume = [], None
    k = 0
    for pr in core.explore(fn, max_paths=200, catch=(RuntimeError,), name_threshold=unit.get("nt", 6)):
        log.path(pr)
        k += 1
        if pr.aborted:
            continue
        if pr.error is not None:
            log.note(f'path raises {str(pr.error)[:80]} (no result)')
            continue
        vals, o = pr.value
        c = pr.ctx
        assume = list(c.assume)
        harness.reachable(log, c, 2000)
        V = vals['reservoir_area'] * vals['reservoir_thickness']
        phi = vals['reservoir_porosity'] / 100.0
        harness.discharge(log, c, 'reservoir volume = area x thickness', eq(o.reservoir_volume.value, V), zv, concrete_add)
        harness.discharge(log, c, 'rock volume = (1 - porosity) x reservoir volume', eq(o.volume_rock.value, V * (1.0 - phi)), zv, concrete_add, sample=True)
        harness.discharge(log, c, 'recoverable fluid volume = porosity x recoverable fluid factor x reservoir volume',
                          eq(o.volume_recoverable_fluid.value, V * phi * vals['recoverable_fluid_factor']), zv, concrete_add)
        harness.discharge(log, c, 'stored heat = rock part + fluid part', eq(o.reservoir_stored_heat.value, o.stored_heat_rock.value + o.stored_heat_fluid.value), zv, concrete_add)
        terms = [core.lift(x) for x in outs_of(o).values() if core.lift(x) is not None] + list(c.defined) + list(c.defs) + list(c.side)
        ax = thermo_axioms(terms)
        hot = [vals['reservoir_temperature'].t > vals['rejection_temperature'].t]
        harness.discharge(log, c, 'available heat never exceeds stored heat (reservoir hotter than rejection temperature)',
                          SymBool(core.lift(o.reservoir_available_heat.value) <= core.lift(o.reservoir_stored_heat.value)), zv, concrete_add,
                          extra=ax + hot, timeout_ms=60000)
        harness.discharge(log, c, 'producible heat never exceeds available heat (reservoir hotter than rejection temperature)',
                          SymBool(core.lift(o.reservoir_producible_heat.value) <= core.lift(o.reservoir_available_heat.value)), zv, concrete_add,
                          extra=ax + hot, timeout_ms=60000)
        paths.append(rel.record(c, outs_of(o)))
    # scaling by substitution
    lam = z3.Real('lambda')
    for varied, per_area_factor in (('reservoir_area', False), ('reservoir_thickness', True)):
        lo, hi = rng[varied]
        sub = [(zv[varied], lam * zv[varied])]

        def replay(inp, varied=varied, per_area_factor=per_area_factor):
            v1 = {n: float(inp[n]) for n in names}
            v2 = dict(v1)
            L = float(inp['lambda'])
            v2[varied] = v1[varied] * L
            try:
                a, b = outs_of(drive(cfg, v1, False)), outs_of(drive(cfg, v2, False))
            except Exception as e:
                return False, {'no result': repr(e)[:120]}
            bad = []
            for n in EXTENSIVE:
                if not core.eq(float(b[n]), L * float(a[n]), rel=1e-7):
                    bad.append(n)
            for n in PER_AREA:
                if not core.eq(float(b[n]), (L if per_area_factor else 1.0) * float(a[n]), rel=1e-7):
                    bad.append(n)
            for n in INTENSIVE:
                if not core.eq(float(b[n]), float(a[n]), rel=1e-7):
                    bad.append(n)
            return bool(bad), {'varied': varied, 'lambda': L, 'not scaling as required': bad, 'before': {n: float(a[n]) for n in bad[:4]}, 'after': {n: float(b[n]) for n in bad[:4]}}
        ivars = dict(zv)
        ivars['lambda'] = lam
        for p in paths:
            for q in paths:
                defids = {d.get_id() for d in p.defs}
                c1_all = z3.And(p.cons) if p.cons else z3.BoolVal(True)
                c1_nodefs = z3.And([x for x in p.cons if x.get_id() not in defids] or [z3.BoolVal(True)])
                qdefids = {d.get_id() for d in q.defs}
                c2s_all, o2s = rel.substituted(z3.And(q.cons) if q.cons else z3.BoolVal(True), q.outs, sub)
                c2s_nodefs, _ = rel.substituted(z3.And([x for x in q.cons if x.get_id() not in qdefids] or [z3.BoolVal(True)]), q.outs, sub)
                common = assume + [lam > 0, lam * zv[varied] <= core.rv(hi)]
                lemmas = infer_scaling(p, q, sub, lam, common + [c1_nodefs, c2s_nodefs], log)   # scaling type of every named intermediate
                for n in EXTENSIVE + PER_AREA + INTENSIVE:
                    if p.outs[n] is None or o2s[n] is None:
                        continue
                    factor = lam if (n in EXTENSIVE or (n in PER_AREA and per_area_factor)) else 1
                    name = f'{varied.split("_")[1]} x lambda: {n} {"x lambda" if factor is lam else "unchanged"}'
                    if harness._CEX_SEEN[0] >= harness.MAX_CEX_PER_PROCESS:
                        continue
                    log['obligations'] += 1
                    goal = o2s[n] == factor * p.outs[n]
                    # stage 1: named terms uninterpreted + lemmas (generalisation); stage 2: complete definitions
                    r, mdl, dt = core.check_sat(common + [c1_nodefs, c2s_nodefs] + lemmas + [z3.Not(goal)], 5000)
                    log['solver_s'] += dt
                    if r != 'unsat':
                        r, mdl, dt = core.check_sat(common + [c1_all, c2s_all] + lemmas + [z3.Not(goal)], 30000)
                        log['solver_s'] += dt
                    if r == 'unsat':
                        log['discharged'] += 1
                        lemmas.append(goal)
                    elif r == 'sat':
                        inp = harness.model_inputs(mdl, ivars)
                        viol, detail = replay(inp)
                        log['cex'].append({'obligation': name, 'finding': None, 'config': cfg, 'reproduced': bool(viol), 'inputs': inp, 'detail': detail,
                                           'how': 'model', 'attempts': []})
                        if viol:
                            harness._CEX_SEEN[0] += 1
                    else:
                        log['inconclusive'].append({'obligation': name, 'why': 'solver ' + r})
    yield log.result()


def infer_scaling(p, q, sub, lam, common, log):
    """For every named intermediate v (definition v == t, in creation order) of a path that both runs follow, prove from the
    lemmas found so far and the two copies of ITS OWN definition that v' == lambda*v or v' == v.  The results are lemmas for
    the goals (each lemma is itself an unsat-discharged query, so chaining them is sound)."""
    if len(p.defs) != len(q.defs):
        return []
    lemmas = []
    for d1, d2 in zip(p.defs, q.defs):
        v = d1.arg(0)
        d2s, _ = rel.substituted(d2, {}, sub)
        v2 = d2s.arg(0)
        for cand in (v2 == lam * v, v2 == v, v2 * lam == v):
            r, _, dt = core.check_sat(common + lemmas + [d1, d2s, z3.Not(cand)], 3000)
            log['solver_s'] += dt
            if r == 'unsat':
                lemmas.append(cand)
                break
    log['scaling_lemmas'] = log.d.get('scaling_lemmas', 0) + len(lemmas)
    return lemmas


# ---- unit clause: "v <unit>" through the real reader and the real Calculate --------------------------------------------
UNIT_CASES = [('Reservoir Temperature', 'degF'), ('Reservoir Temperature', 'degK'), ('Rejection Temperature', 'degF'), ('Reservoir Thickness', 'm'),
              ('Reservoir Thickness', 'ft'), ('Reservoir Depth', 'm'), ('Reservoir Pressure', 'kPa'), ('Reservoir Pressure', 'psi'), ('Reservoir Pressure', 'bar')]


def run_units(unit):
    pname, u = unit['param'], unit['unit']
    cfg = {'harness': 'units', 'param': pname, 'unit': u}
    log = harness.UnitLog(cfg)
    base = {'Reservoir Temperature': '250.0', 'Rejection Temperature': '60.0', 'Reservoir Porosity': '10.0', 'Reservoir Area': '55.0', 'Reservoir Thickness': '0.25',
            'Reservoir Life Cycle': '25', 'Reservoir Depth': '2.5', 'Reservoir Pressure': '25'}
    shadows = c07.param_shadows() + [(H, 'read_input_file', lambda *a, **k: None)] + SHADOWS

    def run(entries, symbolic):
        o = fresh()
        o.InputParameters = {k: P.ParameterEntry(Name=k, sValue=v, raw_entry=f'{k}, {v}') for k, v in entries.items()}
        with contextlib.redirect_stdout(io.StringIO()), contextlib.redirect_stderr(io.StringIO()):
            if symbolic:
                with shim.shadow(*shadows):
                    o.read_parameters()
                    stored = o.ParameterDict[pname].value
                    o.Calculate()
            else:
                with shim.shadow((H, 'read_input_file', lambda *a, **k: None)):
                    o.read_parameters()
                    stored = o.ParameterDict[pname].value
                    o.Calculate()
        return o, stored

    # a concrete probe decides whether this unit is accepted for this parameter at all
    try:
        probe = dict(base)
        probe[pname] = f'1.0 {u}'
        o = fresh()
        with contextlib.redirect_stdout(io.StringIO()):
            P.ReadParameter(P.ParameterEntry(Name=pname, sValue=probe[pname]), o.ParameterDict[pname], o)
    except ValueError:
        pass
    except BaseException as e:
        log.note(f'unit {u} is not converted for {pname} on this tree ({type(e).__name__}); outside the property (C06 lists these)')
        log['inconclusive'].append({'obligation': f'{pname} in {u}', 'why': 'unit not accepted by the reader'})
        yield log.result()
        return
    prm0 = fresh().ParameterDict[pname]
    lo, hi = float(prm0.Min), float(prm0.Max)

    def fn():
        v = sym('v')
        e1 = dict(base)
        e1[pname] = f'{v!s} {u}'
        oA, stored = run(e1, True)
        if not isinstance(stored, SymReal):
            return None
        core.ctx().add_assume(stored.t >= core.rv(lo), stored.t <= core.rv(hi))
        tok = c07.NumStr('SYMW')
        tok.proxy = stored
        e2 = dict(base)
        e2[pname] = tok
        oB, stored2 = run(e2, True)
        from . import c06
        want = c06.pint_convert(v, u, prm0.PreferredUnits.value)       # independent conversion of what the user wrote
        return outs_of(oA), outs_of(oB), (stored, want)
    zv = {'v': z3.Real('v')}

    def concrete_stored(inp):
        from . import c06
        v = float(inp['v'])
        e1 = dict(base)
        e1[pname] = f'{v!r} {u}'
        try:
            oA, stored = run(e1, False)
        except Exception as e:
            return False, {'no result': repr(e)[:160]}
        want = float(c06.pint_convert(v, u, prm0.PreferredUnits.value))
        return (not core.eq(float(stored), want, rel=1e-9)), {'input': e1[pname], 'value the reader stored': float(stored), 'the quantity written, in the working unit': want}

    def concrete(inp):
        v = float(inp['v'])
        e1 = dict(base)
        e1[pname] = f'{v!r} {u}'
        try:
            oA, stored = run(e1, False)
            e2 = dict(base)
            e2[pname] = repr(float(stored))
            oB, _ = run(e2, False)
        except Exception as e:
            return False, {'no result': repr(e)[:160]}
        a, b = outs_of(oA), outs_of(oB)
        bad = [n for n in a if not core.eq(float(a[n]), float(b[n]), rel=1e-9)]
        return bool(bad), {'input': e1[pname], 'value the reader stored': float(stored), 'outputs that differ from the run given that value directly': bad[:6],
                           'with unit': {n: float(a[n]) for n in bad[:3]}, 'converted value': {n: float(b[n]) for n in bad[:3]}}
    k = 0
    for pr in core.explore(fn, max_paths=300, catch=(ValueError, RuntimeError)):
        log.path(pr)
        k += 1
        if pr.aborted or pr.error is not None or pr.value is None:
            continue
        a, b, (stored, want) = pr.value
        c = pr.ctx
        if k <= 3:
            harness.reachable(log, c, 2000)
        from . import c06
        harness.discharge(log, c, f'{pname} written in {u}: the value the assessment works with is the quantity written (exact conversion to {prm0.PreferredUnits.value})',
                          c06.approx(core.lift(stored), core.lift(want)), zv, concrete_stored, timeout_ms=20000)
        for n in a:
            if core.lift(a[n]) is None or core.lift(b[n]) is None:
                continue
            harness.discharge(log, c, f'{pname} written in {u}: {n} equals the result of the run given the converted value', eq(a[n], b[n]), zv, concrete,
                              timeout_ms=20000, sample=(n == 'reservoir_stored_heat'))
    yield log.result()


# ---- the assessment entered through the real reader: porosity / area / thickness as the input lines state them ----------------------------
def run_input(unit):
    """HIP_RA_X.read_parameters + Calculate with the numeric tokens of the input lines symbolic: the volumes are the STATED porosity fractions
    of the STATED area x thickness (whatever the reader does to the numbers on the way in)."""
    from . import c07
    P = c07.P
    cfg = {'harness': 'from-input-lines'}
    again = bool(unit.get('again'))
    if again:
        cfg['history'] = 'the same HIP_RA_X object has read and assessed another input before (its own symbolic values); the second assessment is checked'
    log = harness.UnitLog(cfg)
    lines = {'Reservoir Porosity': (0, 100), 'Reservoir Area': (0.001, 10000), 'Reservoir Thickness': (0.001, 10000), 'Reservoir Temperature': (100, 400),
             'Recoverable Fluid Factor': (0, 1)}
    attr = {'Reservoir Porosity': 'reservoir_porosity', 'Reservoir Area': 'reservoir_area', 'Reservoir Thickness': 'reservoir_thickness',
            'Reservoir Temperature': 'reservoir_temperature', 'Recoverable Fluid Factor': 'recoverable_fluid_factor'}

    FIRST_LINES = ('Reservoir Area', 'Reservoir Thickness')      # what the earlier input stated (read, not assessed: the read is what leaves state behind)

    def drive(vals, symbolic, first=None):
        o = fresh()
        for vs in ([first] if first is not None else []) + [vals]:
            ents = {}
            for n in lines:
                if vs is first and n not in FIRST_LINES:
                    continue
                if symbolic:
                    tok = c07.NumStr('SYMV')
                    tok.proxy = vs[n]
                else:
                    tok = repr(float(vs[n]))
                ents[n] = P.ParameterEntry(Name=n, sValue=tok, raw_entry=f'{n}, {tok}')
            ents['Rejection Temperature'] = P.ParameterEntry(Name='Rejection Temperature', sValue='60', raw_entry='Rejection Temperature, 60')
            o.InputParameters = ents
            with contextlib.redirect_stdout(io.StringIO()), contextlib.redirect_stderr(io.StringIO()):
                if symbolic:
                    with shim.shadow(*(list(c07.param_shadows()) + SHADOWS + [(H, 'read_input_file', lambda *a, **k: None)])):
                        o.read_parameters()
                        if vs is not first:
                            o.Calculate()
                else:
                    with shim.shadow((H, 'read_input_file', lambda *a, **k: None)):
                        o.read_parameters()
                        if vs is not first:
                            o.Calculate()
        return o

    def obligations(vals, o):
        V = vals['Reservoir Area'] * vals['Reservoir Thickness']
        phi = vals['Reservoir Porosity'] / 100.0
        return [('reservoir volume = stated area x stated thickness', core.near(o.reservoir_volume.value, V)),
                ('rock volume = (1 - stated porosity) x reservoir volume', core.near(o.volume_rock.value, V * (1 - phi))),
                ('recoverable fluid volume = stated porosity x recoverable fluid factor x reservoir volume',
                 core.near(o.volume_recoverable_fluid.value, V * phi * vals['Recoverable Fluid Factor'])),
                ('stored heat = rock part + fluid part', core.near(o.reservoir_stored_heat.value, o.stored_heat_rock.value + o.stored_heat_fluid.value))]

    def concrete(inp, only=None):
        vals = {n: float(inp[n]) for n in lines}
        try:
            o = drive(vals, False, first=({n: float(inp['first.' + n]) for n in FIRST_LINES} if again else None))
        except Exception as e:
            return False, {'no result': repr(e)[:160]}
        bad = [n for n, ok in obligations(vals, o) if not ok and (only is None or n == only)]
        return bool(bad), {'failed': bad, 'input lines': vals, 'porosity used': float(o.reservoir_porosity.value), 'reservoir volume': float(o.reservoir_volume.value),
                           'rock volume': float(o.volume_rock.value), 'fluid volume': float(o.volume_recoverable_fluid.value)}

    def fn():
        first = {n: sym('first.' + n, *lines[n]) for n in FIRST_LINES} if again else None
        vals = {n: sym(n, *lines[n]) for n in lines}
        o = drive(vals, True, first=first)
        return obligations(vals, o)
    zv = {n: z3.Real(n) for n in lines}
    if again:
        zv.update({'first.' + n: z3.Real('first.' + n) for n in FIRST_LINES})
    k = 0
    for pr in core.explore(fn, max_paths=20000, catch=(RuntimeError, ValueError)):
        log.path(pr)
        k += 1
        if pr.aborted or pr.error is not None:
            continue
        harness.reachable(log, pr.ctx, 2000)
        for name, cond in pr.value:
            harness.discharge(log, pr.ctx, 'from the input lines: ' + name, cond, zv, lambda inp, name=name: concrete(inp, name), timeout_ms=20000, sample=(k == 1))
    yield log.result()


def units(tier, seed):
    us = [{'harness': 'input'}, {'harness': 'input', 'again': True}]
    # the client in front of the assessment: a rewritten input (doubled area ...) must be assessed again, not answered from an earlier result
    us.append({'harness': 'client-real-files', 'client': 'hip', 'H': 2, 'caching': True})
    us.append({'harness': 'client-params'})      # a porosity / factor of exactly 0 passed through the dict API must reach the assessment
    for dp in (False, True):
        for pp in (False, True):
            for fg in ((False,) if tier == 'quick' and (dp != pp) else (False, True)):
                us.append({'harness': 'calc', 'depth_provided': dp, 'pressure_provided': pp, 'fluid_props_given': fg})
    for pname, u in UNIT_CASES:
        us.append({'harness': 'units', 'param': pname, 'unit': u})
    return us


def run_unit(unit):
    if unit['harness'] == 'client-params':
        from . import c07
        yield from c07.run_client_params(unit)
    elif unit['harness'] == 'client-real-files':
        from . import c08files
        yield from c08files.run_unit(unit)
    elif unit['harness'] == 'input':
        yield from run_input(unit)
    elif unit['harness'] == 'calc':
        yield from run_calc(unit)
    else:
        yield from run_units(unit)


def replay(cex):
    raise NotImplementedError
