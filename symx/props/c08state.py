"""C08, process-global state: a component's Calculate leaves the numeric-library and process settings every later run in the same process
depends on (mpmath working precision, numpy error state, decimal context, recursion limit, cwd, argv) as it found them - on every path,
including the paths on which the step FAILS at a solver-chosen point (the k-th numerical inversion raises).  The reservoir models with a
numerical Laplace inversion (1, 2) run for real under the C05 stubs; whether and where an inversion fails is a solver Boolean per call."""
from __future__ import annotations

import decimal
import os
import sys

import numpy as np
import z3

from .. import core, harness, shim
from ..core import SymReal
from . import c05


def knobs():
    import mpmath
    return {'mpmath.mp.dps': int(mpmath.mp.dps), 'mpmath.mp.prec': int(mpmath.mp.prec), 'numpy.geterr': dict(np.geterr()),
            'decimal precision': decimal.getcontext().prec, 'recursion limit': sys.getrecursionlimit(), 'cwd': os.getcwd(), 'argv': list(sys.argv)}


def restore(k):
    import mpmath
    mpmath.mp.dps = k['mpmath.mp.dps']
    np.seterr(**k['numpy.geterr'])
    decimal.getcontext().prec = k['decimal precision']
    sys.setrecursionlimit(k['recursion limit'])
    os.chdir(k['cwd'])


def run_unit(unit):
    if unit.get('what') == 'csv-history':
        yield from run_csv_history(unit)
        return
    from geophires_x import MPFReservoir, LHSReservoir
    resmodel, L, T = unit['model'], unit['L'], unit['T']
    mod = {1: MPFReservoir, 2: LHSReservoir}[resmodel]
    N = L * T
    cfg = {'harness': 'global-state', 'reservoir_model': resmodel, 'L': L, 'T': T}
    log = harness.UnitLog(cfg)
    real_inv = mod.invertlaplace

    def drive(symbolic, fault_at=None):
        m = c05.base_model(resmodel, 1, L, T)
        calls = {'n': 0}

        def inv(*a, **k):
            calls['n'] += 1
            if symbolic:
                if bool(core.symbool(f'inversion {calls["n"]} fails')):
                    raise ArithmeticError('injected: the numerical inversion does not converge')
                return SymReal(core.ctx().fresh_real('invlaplace'))
            if fault_at == calls['n']:
                raise ArithmeticError('injected: the numerical inversion does not converge')
            return real_inv(*a, **k)
        binds = [(mod, 'invertlaplace', inv), (mod, 'print', lambda *a, **k: None)]
        if symbolic:
            binds += list(c05.RES_SHADOWS) + [(mod, 'float', shim.FloatShadow), (mod, 'np', c05.NPW)] + ([(mod, 'math', shim.MATH)] if resmodel == 2 else [])
        before = knobs()
        outcome = 'returned'
        try:
            with shim.shadow(*binds):
                m.reserv.Calculate(m)
        except SystemExit:
            outcome = 'aborted the run (sys.exit)'
        except Exception as e:
            if isinstance(e, (core.PathAbort, core.Realize)) if hasattr(core, 'PathAbort') else False:
                raise
            outcome = f'raised {type(e).__name__}'
        after = knobs()
        restore(before)
        changed = {k: (before[k], after[k]) for k in before if before[k] != after[k]}
        return outcome, changed, calls['n']

    zv = {f'inversion {k} fails': z3.Bool(f'inversion {k} fails') for k in range(1, N + 1)}

    def concrete(inp):
        first = next((k for k in range(1, N + 1) if inp.get(f'inversion {k} fails')), None)
        outcome, changed, n = drive(False, fault_at=first)
        return bool(changed), {'first failing inversion': first, 'the step': outcome, 'process-global settings left changed (before, after)': changed}
    k = 0
    for pr in core.explore(lambda: drive(True), max_paths=200, catch=(Exception,)):
        log.path(pr)
        k += 1
        if pr.aborted:
            continue
        if pr.error is not None:
            raise pr.error
        outcome, changed, n = pr.value
        harness.reachable(log, pr.ctx, 1000)
        harness.discharge(log, pr.ctx, f'reservoir model {resmodel}: process-global numeric / process settings are the same after the step as before it (the step {outcome.split(" ")[0]})',
                          not changed, zv, concrete, sample=(k == 1))
    yield log.result()




# ---- data read for one request is not handed to the next one (district-heating demand / temperature profiles) -------------------------------
def run_csv_history(unit):
    """SurfacePlantDistrictHeating.read_csv called twice in one process - two requests: file f1 column c1, then file f2 column c2 - with the
    column numbers solver integers and 'f2 is the same file as f1' a solver Boolean; pandas is a stand-in whose cells are uninterpreted values
    cell(file, column, row).  The second call must return column c2 of file f2."""
    from geophires_x import SurfacePlantDistrictHeating as DH
    ROWS = 3
    cell = z3.Function('csv_cell', z3.IntSort(), z3.RealSort(), z3.IntSort(), z3.RealSort())      # (file id, column index, row) -> value
    cfg = {'harness': 'csv-history', 'rows': ROWS, 'columns': [1, 2, 3]}
    log = harness.UnitLog(cfg)

    class Col:
        def __init__(self, fid, col):
            self.fid, self.col = fid, col

        def to_numpy(self):
            c = core.lift(self.col)
            return core.as_symarray([SymReal(cell(self.fid, c, i)) for i in range(ROWS)])

    class ILoc:
        def __init__(self, fid):
            self.fid = fid

        def __getitem__(self, key):
            return Col(self.fid, key[1])

    class Frame:
        def __init__(self, fid):
            self.iloc = ILoc(fid)
    FILES = {'demand_a.csv': 1, 'demand_b.csv': 2}

    class PD:
        @staticmethod
        def read_csv(name, *a, **k):
            return Frame(FILES[str(name)])

    def drive(symbolic, inp=None):
        core.HASH_CONST = False
        if symbolic:
            c1, c2 = core.symint('c1', 1, 3), core.symint('c2', 1, 3)
            same = bool(core.symbool('second request names the same file'))
        else:
            c1, c2, same = int(inp['c1']), int(inp['c2']), bool(inp['second request names the same file'])
        f1, f2 = 'demand_a.csv', ('demand_a.csv' if same else 'demand_b.csv')
        mem = getattr(DH, '_CSV_PROFILE_CACHE', None)
        if isinstance(mem, dict):
            mem.clear()        # (a fresh process for this history)
        for attr in dir(DH):
            obj = getattr(DH, attr, None)
            if hasattr(obj, 'cache_clear'):
                obj.cache_clear()
        with shim.shadow((DH, 'pd', PD)):
            sp = DH.SurfacePlantDistrictHeating.__new__(DH.SurfacePlantDistrictHeating)
            DH.SurfacePlantDistrictHeating.read_csv(sp, f1, c1)
            got = DH.SurfacePlantDistrictHeating.read_csv(sp, f2, c2)
        want = [SymReal(cell(FILES[f2], core.lift(c2) - 1, i)) for i in range(ROWS)]
        return list(got), want

    zv = {'c1': z3.Int('c1'), 'c2': z3.Int('c2'), 'second request names the same file': z3.Bool('second request names the same file')}

    def concrete(inp):
        # real pandas on two real files with distinguishable cells
        import tempfile
        import shutil
        d = tempfile.mkdtemp(prefix='symx_c08csv_')
        try:
            paths = {}
            for nm, base in (('demand_a.csv', 100), ('demand_b.csv', 500)):
                paths[nm] = os.path.join(d, nm)
                with open(paths[nm], 'w') as f:
                    f.write('h1,h2,h3\n' + ''.join(f'{base + 10 * r + 1},{base + 10 * r + 2},{base + 10 * r + 3}\n' for r in range(ROWS)))
            c1, c2, same = int(inp['c1']), int(inp['c2']), bool(inp['second request names the same file'])
            f1, f2 = 'demand_a.csv', ('demand_a.csv' if same else 'demand_b.csv')
            mem = getattr(DH, '_CSV_PROFILE_CACHE', None)
            if isinstance(mem, dict):
                mem.clear()
            sp = DH.SurfacePlantDistrictHeating.__new__(DH.SurfacePlantDistrictHeating)
            DH.SurfacePlantDistrictHeating.read_csv(sp, paths[f1], c1)
            got = [float(x) for x in DH.SurfacePlantDistrictHeating.read_csv(sp, paths[f2], c2)]
            base = 100 if f2 == 'demand_a.csv' else 500
            want = [float(base + 10 * r + c2) for r in range(ROWS)]
            return got != want, {'first request': [f1, c1], 'second request': [f2, c2], 'second request received': got, 'column requested holds': want}
        finally:
            shutil.rmtree(d, ignore_errors=True)
    k = 0
    for pr in core.explore(lambda: drive(True), max_paths=200):
        log.path(pr)
        k += 1
        if pr.aborted:
            continue
        if pr.error is not None:
            raise pr.error
        got, want = pr.value
        harness.reachable(log, pr.ctx, 1000)
        ok = len(got) == len(want)
        prop = z3.And([core.lift(g) == core.lift(w) for g, w in zip(got, want)]) if ok else False
        harness.discharge(log, pr.ctx, 'district-heating profile: the second request in a process receives the column of the file it names (not data kept from the first request)',
                          prop, zv, concrete, sample=(k == 1))
    yield log.result()


def units(tier):
    return [{'harness': 'global-state', 'model': mdl, 'L': 2, 'T': 2} for mdl in (1, 2)] + [{'harness': 'global-state', 'what': 'csv-history'}]
