"""Symbolic run of the real report writer: every numeric quantity of the model is a proxy, every unit a unique tag.

The real Outputs.PrintOutputs then produces the report text in which each figure is a provenance marker (term, format spec)
and each unit label a tag naming the parameter (and whether its Current or Preferred unit was printed)."""
from __future__ import annotations

import re

import numpy as np
import z3

from . import core, econ, gx, shim
from .core import SymReal

from geophires_x import Outputs as O

P = gx.P


class UnitTag:
    """stands in for a units Enum member: .value is a unique, recognisable string."""

    def __init__(self, text):
        self.value = text
        self.name = text

    def __eq__(self, o):
        return isinstance(o, UnitTag) and o.value == self.value

    def __hash__(self):
        return hash(self.value)

    def __repr__(self):
        return self.value


TAG_RE = re.compile(r'‹(cur|pref):([^›]*)›')

SKIP_ATTRS = {'timevector'}


def symbolize(model, prefix_filter=None, tag_units=True):
    """replace every numeric Parameter / OutputParameter value of the four core components by proxies and every unit by a tag.
    Returns vals: name -> proxy / list of proxies."""
    vals = {}
    comps = ['reserv', 'wellbores', 'surfaceplant', 'economics']
    if getattr(model, 'sdacgteconomics', None) is not None:
        comps.append('sdacgteconomics')
    for cn in comps:
        comp = getattr(model, cn)
        for an, p in list(vars(comp).items()):
            if not gx.is_param(p) or an in SKIP_ATTRS:
                continue
            name = f'{cn}.{an}'
            if tag_units:
                p.CurrentUnits = UnitTag(f'‹cur:{name}›')
                p.PreferredUnits = UnitTag(f'‹pref:{name}›')
            v = p.value
            if isinstance(v, bool) or isinstance(v, (str, type(None))) or hasattr(v, 'int_value'):
                continue
            if isinstance(p, (P.intParameter, P.boolParameter, P.strParameter)):
                continue
            if isinstance(v, (int, np.integer)) and isinstance(p, P.OutputParameter) and an in ('redrill',):
                p.value = core.sym(name, 0, None)
                vals[name] = p.value
            elif isinstance(v, (float, np.floating, int, np.integer)):
                p.value = core.sym(name)
                vals[name] = p.value
            elif isinstance(v, (list, np.ndarray)) and len(v) > 0 and all(isinstance(x, (int, float, np.floating, np.integer)) for x in np.ravel(v)[:3]):
                n = len(v)
                arr = [core.sym(f'{name}[{i}]') for i in range(n)]
                p.value = arr if isinstance(v, list) else core.as_symarray(arr)
                vals[name] = arr
    return vals


class Capture:
    def __init__(self):
        self.text = ''

    def write(self, s):
        self.text += s

    def __enter__(self):
        return self

    def __exit__(self, *a):
        return False


def run_writer(model):
    """the real PrintOutputs on the symbolised model; returns the report text (markers + tags)."""
    cap = Capture()
    binds = [(O, 'open', lambda *a, **k: cap), (O, 'np', shim.NP), (O, 'print_outputs_rich', lambda *a, **k: None), (O, 'round', shim.sround),
             (O.Outputs, '_convert_units', lambda self, model: None), (O, 'sum', _sum)]
    if getattr(model, 'sdacgtoutputs', None) is not None and model.economics.DoSDACGTCalculations.value:
        from geophires_x import OutputsS_DAC_GT as OS
        binds += [(OS, 'open', lambda *a, **k: cap), (OS, 'pd', _PD)]
    with shim.shadow(*binds):
        try:
            model.outputs.PrintOutputs(model)
            if getattr(model, 'sdacgtoutputs', None) is not None and model.economics.DoSDACGTCalculations.value:
                model.sdacgtoutputs.PrintOutputs(model)       # what print_outputs_rich (shadowed above) calls for this section of the text report
        except RuntimeError as e:
            cause = e.__cause__
            if isinstance(cause, (core.PathAbort, core.Realize)):
                raise cause
            if e.args and isinstance(e.args[-1], (core.PathAbort, core.Realize)):
                raise e.args[-1]
            raise
    return cap.text


def print_sections(model):
    """concrete replays: the optional sections that print_outputs_rich (shadowed in the replays) appends to the text report."""
    if getattr(model, 'sdacgtoutputs', None) is not None and model.economics.DoSDACGTCalculations.value:
        model.sdacgtoutputs.output_file = model.outputs.output_file
        with shim.shadow((O.Outputs, '_convert_units', lambda self, model: None)):
            model.sdacgtoutputs.PrintOutputs(model)


class _DF(dict):
    """stand-in for the pandas DataFrame the section writers fill for the rich output (the text report does not read it)."""

    def reset_index(self, *a, **k):
        return self

    def __getattr__(self, k):
        return lambda *a, **kw: self


class _PD:
    DataFrame = _DF


def _sum(xs, *a):
    xs = list(xs)
    if not xs:
        return 0
    tot = xs[0]
    for x in xs[1:]:
        tot = tot + x
    return tot if not a else tot + a[0]


MARK_RE = re.compile('[-]')


def tokens_in(line):
    return [ord(ch) - core.MARK_BASE for ch in line if core.MARK_BASE <= ord(ch) < 0xF8FF]


def parse_lines(text):
    """figure lines 'label: <marker> unit...' -> list of dict(label, token index, rest, line number, section)."""
    out = []
    section = None
    for n, raw in enumerate(text.splitlines()):
        s = raw.strip()
        if s.startswith('***') and s.endswith('***'):
            section = s.strip('*').strip()
            continue
        if s.startswith('*') and s.endswith('*') and len(s) > 6:
            t = s.strip('*').strip()
            if t:
                section = t
            continue
        toks = tokens_in(raw)
        if ':' in raw and len(toks) == 1 and raw.index(':') < raw.index(chr(core.MARK_BASE + toks[0])):
            label, _, rest = raw.partition(':')
            after = rest[rest.index(chr(core.MARK_BASE + toks[0])) + 1:]
            out.append({'label': label.strip(), 'token': toks[0], 'unit_text': after.strip(), 'line': n, 'section': section, 'raw': raw})
    return out, text.splitlines()
