#!/bin/sh
# usage: tools/run_all.sh [tier] [ids...]   - run the registered checks one after another on /repo, log exit codes and wall time
TIER="${1:-quick}"; shift
IDS="${*:-C01 C02 C03 C04 C05 C06 C07 C08 C09 C10 C11 C12 C13 C14 C15 C16 C17 C18 C19 C20}"
cd /verif
mkdir -p /root/symx_logs
for p in $IDS; do
  T0=$(date +%s)
  ./.venv/bin/python -m symx.check "$p" --tier "$TIER" > "/root/symx_logs/${p}_$TIER.log" 2>&1
  RC=$?
  T1=$(date +%s)
  echo "$p tier=$TIER exit=$RC wall=$((T1-T0))s violations=$(grep -c '^VIOLATION' /root/symx_logs/${p}_$TIER.log) known=$(grep -c '^KNOWN-FINDING' /root/symx_logs/${p}_$TIER.log)"
done
