"""C18 — outputs respond monotonically where the model says they must (DESIGN §4 C18)."""
from __future__ import annotations

import types

import z3

from .. import core, econ, gx, harness, rel, shim
from ..core import sym, SymReal
from . import c03, c04, c05

from geophires_x import Economics as E
from geophires_x import Reservoir as R
from geophires_x.OptionList import WellDrillingCostCorrelation

ID = 'C18'
FUNCTIONS = ['geophires_x.Reservoir:Reservoir.Calculate', 'geophires_x.TDPReservoir:TDPReservoir.Calculate',
             'geophires_x.Economics:calculate_cost_of_one_vertical_well', 'geophires_x.OptionList:WellDrillingCostCorrelation.calculate_cost_MUSD',
             'geophires_x.Economics:Economics.Calculate']
UNIT_TIMEOUT = {'quick': 280, 'thorough': 1700}
SEGS = {'quick': [1, 2, 3], 'thorough': [1, 2, 3, 4]}
KINDS = {'quick': ['electricity', 'direct-use', 'heat-pump', 'chiller'], 'thorough': list(c04.KINDS)}
META = {
    'explanation': 'Monotonicity is a relation between two runs; each clause is decided as a product program built from one symbolic '
                   'exploration of the real code (second run = recorded path terms with the varied input replaced by input + delta, '
                   'delta >= 0; one SMT query per pair of paths): bottom-hole temperature vs every gradient and vs depth (real layer '
                   'walk, 1..4 segments); TDP reservoir temperature at every step vs drawdown rate; cost of one well vs depth inside '
                   '[500, 7000] m for all 17 correlations (through calculate_cost_of_one_vertical_well); NPV non-increasing and every '
                   'levelized cost non-decreasing in every cost input and adjustment factor (real Economics.Calculate, user-fixed and '
                   'correlation routes, three economic models).',
    'bounds': {t: {'segments': SEGS[t], 'TDP series length': 4, 'well cost correlations': '1..17', 'economics kinds': KINDS[t], '(L,K)': (1, 1)} for t in SEGS},
    'outside': ['"initial production temperature vs flow rate" goes through Ramey\'s A*(1-exp(-D/A)): a calculus fact about exp that an SMT solver with exp '
                'uninterpreted cannot derive — NOT decided (stated)', 'depths outside [500, 7000] m for the well-cost clause (the property says "wherever the correlation applies")',
                'IEEE rounding'],
    'assumptions': ['real arithmetic', 'bottom-hole temperature >= injection temperature for the drawdown clause (cf. C05 known finding)',
                    'positive yearly net energy for the levelized-cost clause (the base model\'s own concrete production is used and is positive)'],
    'stubs': ['as C05 (reservoir) and C04 (economics)'],
}


def _decide(log, cfg, name, conds, prop, ivars, replay, tmo=20000, finding=None):
    if harness._CEX_SEEN[0] >= harness.MAX_CEX_PER_PROCESS:
        return
    if finding is not None and finding in _FOUND:
        return   # one reproduced witness per recorded finding is enough
    log['obligations'] += 1
    r, mdl, dt = core.check_sat(conds + [z3.Not(prop)], tmo)
    log['solver_s'] += dt
    log['max_query_s'] = max(log['max_query_s'], dt)
    if r == 'unsat':
        log['discharged'] += 1
        if len(log['samples']) < 2:
            log['samples'].append({'obligation': name, 'verdict': 'unsat', 'time_s': round(dt, 3), 'config': cfg})
        return
    if r != 'sat':
        log['inconclusive'].append({'obligation': name, 'why': 'solver ' + r})
        return
    inp = harness.model_inputs(mdl, ivars)
    try:
        viol, detail = replay(inp)
    except Exception as e:
        viol, detail = False, {'replay_exception': repr(e)[:200]}
    log['cex'].append({'obligation': name, 'finding': finding, 'config': cfg, 'reproduced': bool(viol), 'inputs': inp, 'detail': detail,
                       'how': 'model', 'attempts': []})
    if viol and finding is None:
        harness._CEX_SEEN[0] += 1
    if viol and finding is not None:
        _FOUND.add(finding)


_FOUND = set()


# ---- 1. bottom-hole temperature vs gradient / depth ----------------------------------------------------------
def run_walk(unit):
    S = unit['S']
    cfg = {'harness': 'layerwalk-monotone', 'S': S}
    log = harness.UnitLog(cfg)
    names = c05.walk_inputs_names(S)

    def drive(v, symbolic):
        m = c05.base_model(4, S, 2, 2)
        c05.install_walk(m, S, v)
        if symbolic:
            with shim.shadow(*c05.RES_SHADOWS):
                gx.unwrapped(R.Reservoir.Calculate)(m.reserv, m)
        else:
            gx.unwrapped(R.Reservoir.Calculate)(m.reserv, m)
        return m

    def fn():
        v = c05.walk_inputs(S, True)
        m = drive(v, True)
        return {'Trock': m.reserv.Trock.value}
    paths, assume = [], None
    for pr in core.explore(fn, max_paths=5000):
        log.path(pr)
        if pr.aborted or pr.error is not None:
            continue
        assume = list(pr.ctx.assume)
        paths.append(rel.record(pr.ctx, pr.value))
    zv = {n: z3.Real(n) for n in names}
    delta = z3.Real('delta')
    ivars = dict(zv, delta=delta)
    if core.check_sat(assume + paths[0].cons, 3000)[0] == 'sat':
        log['reachable'] += 1
    groups = [(z3.And(p.cons) if p.cons else z3.BoolVal(True), p.outs) for p in paths]
    varied = [n for n in names if n.startswith('gradient') or n == 'depth']
    for vn in varied:
        lo, hi = c05.WALK_RANGES[vn.split('[')[0]]

        def replay(inp, vn=vn):
            v1 = {n: float(inp[n]) for n in names}
            v2 = dict(v1)
            v2[vn] = v1[vn] + float(inp['delta'])
            a, b = float(drive(v1, False).reserv.Trock.value), float(drive(v2, False).reserv.Trock.value)
            return b < a - 1e-9 * max(1.0, abs(a)), {'varied': vn, 'Trock': a, 'Trock after increase': b, 'delta': inp['delta']}
        sub = [(zv[vn], zv[vn] + delta)]
        for (c1, o1) in groups:
            for (c2, o2) in groups:
                c2s, o2s = rel.substituted(c2, o2, sub)
                _decide(log, cfg, f'bottom-hole temperature does not decrease when {vn.split("[")[0]} {vn[vn.find("["):] if "[" in vn else ""} increases',
                        assume + [delta >= 0, zv[vn] + delta <= core.rv(hi), c1, c2s], o2s['Trock'] >= o1['Trock'], ivars, replay)
    yield log.result()


# ---- 2. TDP reservoir temperature vs drawdown rate ------------------------------------------------------------
def run_tdp(unit):
    L, T = 2, 2
    N = L * T
    cfg = {'harness': 'tdp-drawdown-monotone', 'L': L, 'T': T}
    log = harness.UnitLog(cfg)
    names = ['Tsurf', 'gradient[0]', 'Tinj', 'drawdp']
    ranges = {'Tsurf': (-50, 50), 'gradient[0]': (1e-6, 0.5), 'Tinj': (0, 200), 'drawdp': (0, 0.2)}

    def drive(v, symbolic):
        m = c05.base_model(4, 1, L, T)
        r = m.reserv
        r.Tsurf.value = v['Tsurf']
        g = list(r.gradient.value)
        g[0] = v['gradient[0]']
        r.gradient.value = g
        m.wellbores.Tinj.value = v['Tinj']
        m.wellbores.tempgaininj.value = 0.0
        r.drawdp.value = v['drawdp']
        if symbolic:
            with shim.shadow(*c05.RES_SHADOWS):
                m.reserv.Calculate(m)
        else:
            m.reserv.Calculate(m)
        return m

    def fn():
        v = {n: sym(n, *ranges[n]) for n in names}
        m = drive(v, True)
        outs = {f'Tres[{i}]': m.reserv.Tresoutput.value[i] for i in range(N)}
        outs['Trock'] = m.reserv.Trock.value
        return outs
    paths, assume = [], None
    for pr in core.explore(fn, max_paths=200):
        log.path(pr)
        if pr.aborted or pr.error is not None:
            continue
        assume = list(pr.ctx.assume)
        paths.append(rel.record(pr.ctx, pr.value))
    zv = {n: z3.Real(n) for n in names}
    delta = z3.Real('delta')
    ivars = dict(zv, delta=delta)
    if core.check_sat(assume + paths[0].cons, 3000)[0] == 'sat':
        log['reachable'] += 1
    sub = [(zv['drawdp'], zv['drawdp'] + delta)]

    def replay(inp):
        v1 = {n: float(inp[n]) for n in names}
        v2 = dict(v1, drawdp=v1['drawdp'] + float(inp['delta']))
        a, b = [float(x) for x in drive(v1, False).reserv.Tresoutput.value], [float(x) for x in drive(v2, False).reserv.Tresoutput.value]
        bad = [i for i in range(N) if b[i] > a[i] + 1e-9 * max(1.0, abs(a[i]))]
        return bool(bad), {'Tres': a, 'Tres at higher drawdown rate': b}
    groups = [(z3.And(p.cons) if p.cons else z3.BoolVal(True), p.outs) for p in paths]
    for (c1, o1) in groups:
        for (c2, o2) in groups:
            c2s, o2s = rel.substituted(c2, o2, sub)
            base = assume + [delta >= 0, zv['drawdp'] + delta <= core.rv(0.2), c1, c2s, o1['Trock'] >= zv['Tinj']]
            for i in range(N):
                _decide(log, cfg, f'percentage-drawdown model: reservoir temperature[{i}] does not increase when the drawdown rate increases',
                        base, o2s[f'Tres[{i}]'] <= o1[f'Tres[{i}]'], ivars, replay)
    yield log.result()


# ---- 4. cost of one well vs depth ----------------------------------------------------------------------------
def run_wellcost(unit):
    cfg = {'harness': 'well-cost-vs-depth'}
    log = harness.UnitLog(cfg)
    model = types.SimpleNamespace(logger=types.SimpleNamespace(warning=lambda *a, **k: None, info=lambda *a, **k: None))
    d, delta, adj, perm = z3.Real('depth'), z3.Real('delta'), z3.Real('adj'), z3.Real('per_m')
    for corr in WellDrillingCostCorrelation:
        def call(depth, a, pm, corr=corr):
            return E.calculate_cost_of_one_vertical_well(model, depth, corr, pm, 'Well Drilling and Completion Capital Cost', a)

        def fn():
            dep = sym('depth', 500, 7000)
            a = sym('adj', 0, 10)
            pm = sym('per_m', 0, 10000)
            return {'cost': call(dep, a, pm)}
        paths, assume = [], None
        for pr in core.explore(fn, max_paths=50):
            log.path(pr)
            if pr.error is not None:
                raise pr.error
            assume = list(pr.ctx.assume)
            paths.append(rel.record(pr.ctx, pr.value))
        log['reachable'] += 1 if core.check_sat(assume + paths[0].cons, 2000)[0] == 'sat' else 0
        sub = [(d, d + delta)]

        def replay(inp, corr=corr):
            a = float(call(float(inp['depth']), float(inp['adj']), float(inp['per_m'])))
            b = float(call(float(inp['depth']) + float(inp['delta']), float(inp['adj']), float(inp['per_m'])))
            return b < a - 1e-12 * max(1.0, abs(a)), {'correlation': corr.name, 'cost': a, 'cost deeper': b}
        for p in paths:
            for q in paths:
                c1 = z3.And(p.cons) if p.cons else z3.BoolVal(True)
                c2 = z3.And(q.cons) if q.cons else z3.BoolVal(True)
                c2s, o2s = rel.substituted(c2, q.outs, sub)
                _decide(log, dict(cfg, correlation=corr.int_value), f'cost of one well does not decrease with depth inside [500, 7000] m (correlation {corr.int_value})',
                        assume + [delta >= 0, d + delta <= 7000, c1, c2s], o2s['cost'] >= p.outs['cost'],
                        {'depth': d, 'delta': delta, 'adj': adj, 'per_m': perm}, replay)
    yield log.result()


# ---- 5. NPV / levelized costs vs every cost input and adjustment factor --------------------------------------
ECON_VARIED = [n for n, lo, hi in c03.REALS if n not in ('RITC', 'TotalGrant', 'OtherIncentives', 'TaxRelief')]
# (grants, incentives and tax relief are negative cost inputs: they are varied in the other direction)
ECON_NEG = ['TotalGrant', 'OtherIncentives', 'TaxRelief']


def run_econ(unit):
    cfg = {k: v for k, v in unit.items() if k != 'tier'}
    log = harness.UnitLog(cfg)
    kind, em, route = cfg['kind'], cfg['em'], cfg['route']
    base = c04.cfg_of(kind, 1, 1, False)
    base['em'] = em
    flags = {f: (route == 'user-fixed') for f in c03.ALL_FLAGS}
    flags['RITC.Provided'] = False
    if route == 'components-fixed':
        flags = {f: True for f in c03.ALL_FLAGS}
        flags['totalcapcost.Valid'] = flags['oamtotalfixed.Valid'] = False
        flags['RITC.Provided'] = False
    if route == 'capex-total-fixed':       # the user states the total capital cost only: components and every O&M item come from the correlations
        flags = {f: False for f in c03.ALL_FLAGS}
        flags['totalcapcost.Valid'] = True
        flags['RITC.Provided'] = False
    if route == 'correlations-itc':        # as 'correlations', with an investment tax credit rate supplied
        flags = {f: False for f in c03.ALL_FLAGS}
        flags['RITC.Provided'] = True
    c3 = dict(base, flags=flags)
    spec = [s for s in c03.spec_of(c3) if s[1] == 'real' and not s[0].startswith('wellbores.')]
    names = [s[0] for s in spec]

    def drive(vals, symbolic):
        return c03.drive(c3, vals, symbolic)

    def outs(m):
        e = m.economics
        return {'NPV': e.ProjectNPV.value, 'LCOE': e.LCOE.value, 'LCOH': e.LCOH.value, 'LCOC': e.LCOC.value}

    def fn():
        vals, zvv = econ.make_symbolic(spec)
        m = drive(vals, True)
        return zvv, outs(m)
    paths, assume, zv = [], None, None
    for pr in core.explore(fn, max_paths=20000):
        log.path(pr)
        if pr.error is not None:
            raise pr.error
        if pr.aborted:
            continue
        zv, o = pr.value
        assume = list(pr.ctx.assume)
        paths.append(rel.record(pr.ctx, o))
    delta = z3.Real('delta')
    ivars = dict(zv, delta=delta)
    ctr = float(c04.prepared({k: v for k, v in c3.items() if k != 'flags'}).model.economics.CTR.value)
    if core.check_sat(assume + paths[0].cons, 3000)[0] == 'sat':
        log['reachable'] += 1
    keys = ['NPV', 'LCOE', 'LCOH', 'LCOC']
    groups = rel.group_weak(paths, keys)
    rng = {s[0]: (s[2], s[3]) for s in spec}
    for n in names:
        short = n.split('.', 1)[1]
        neg = short in ECON_NEG
        if short == 'RITC':
            continue
        sub = [(zv[n], zv[n] - delta if neg else zv[n] + delta)]
        lo, hi = rng[n]
        inr = [zv[n] - delta >= core.rv(lo)] if neg else [zv[n] + delta <= core.rv(hi)]

        def replay(inp, n=n, neg=neg):
            v1 = econ.concrete_vals(spec, inp)
            v2 = dict(v1)
            v2[n] = v1[n] + (-1 if neg else 1) * float(inp['delta'])
            a, b = outs(drive(v1, False)), outs(drive(v2, False))
            bad = []
            if float(b['NPV']) > float(a['NPV']) + 1e-9 * max(1.0, abs(float(a['NPV']))):
                bad.append('NPV')
            for x in ('LCOE', 'LCOH', 'LCOC'):
                if float(b[x]) < float(a[x]) - 1e-9 * max(1.0, abs(float(a[x]))):
                    bad.append(x)
            return bool(bad), {'varied': n, 'direction': 'decreased' if neg else 'increased', 'before': {k: float(v) for k, v in a.items()},
                               'after': {k: float(v) for k, v in b.items()}, 'wrong direction': bad}
        for (c1, o1) in groups:
            for (c2, o2) in groups:
                c2s, o2s = rel.substituted(c2, o2, sub)
                b = assume + inr + [delta >= 0, c1, c2s]
                what = f'{"a smaller" if neg else "a larger"} {short}'
                _decide(log, cfg, f'NPV does not increase with {what}', b, o2s['NPV'] <= o1['NPV'], ivars, replay)
                for x in ('LCOE', 'LCOH', 'LCOC'):
                    if c11_is_zero(o1[x]) and c11_is_zero(o2s[x]):
                        continue
                    if em == 3:
                        # BICYCLE subtracts RITC/(1-CTR) x capital cost: with an ITC rate above 1 - CTR the levelized cost FALLS when
                        # capital cost rises (recorded finding); the main claim excludes that region, the region itself is queried too
                        region = zv['economics.RITC'] > core.rv(1.0) - core.rv(ctr)
                        _decide(log, cfg, f'{x} does not decrease with {what}', b + [z3.Not(region)], o2s[x] >= o1[x], ivars, replay)
                        _decide(log, cfg, f'{x} does not decrease with {what} [region: BICYCLE, ITC rate > 1 - combined income tax rate]',
                                b + [region], o2s[x] >= o1[x], ivars, replay, finding='C18-bicycle-itc-above-one-minus-ctr')
                    else:
                        _decide(log, cfg, f'{x} does not decrease with {what}', b, o2s[x] >= o1[x], ivars, replay)
    log.note(f'{len(paths)} paths merged into {len(groups)} groups')
    yield log.result()


def c11_is_zero(t):
    return t is not None and z3.is_rational_value(t) and t.numerator_as_long() == 0


def units(tier, seed):
    us = [{'harness': 'walk', 'S': S} for S in SEGS[tier]]
    us.append({'harness': 'tdp'})
    us.append({'harness': 'wellcost'})
    for kind in KINDS[tier]:
        for em in ((2, 3) if tier == 'quick' else (1, 2, 3)):
            for route in ('user-fixed', 'correlations', 'components-fixed'):
                us.append({'harness': 'econ', 'kind': kind, 'em': em, 'route': route})
    # cogeneration: the plant-cost split between the electricity and the heat side, and the tax-credit term of each side
    for kind, em, route in ([('cogen-parallel', 2, 'correlations'), ('cogen-topping', 3, 'correlations-itc')] if tier == 'quick' else
                            [(k, em, 'correlations-itc') for k in ('cogen-topping', 'cogen-bottoming', 'cogen-parallel', 'electricity', 'direct-use') for em in (1, 2, 3)]):
        us.append({'harness': 'econ', 'kind': kind, 'em': em, 'route': route})
    for kind, em in ([('electricity', 2), ('direct-use', 3)] if tier == 'quick' else [(k, em) for k in KINDS[tier] for em in (1, 2, 3)]):
        us.append({'harness': 'econ', 'kind': kind, 'em': em, 'route': 'capex-total-fixed'})
    us.append({'harness': 'factor-sync'})       # which adjustment factor scales the injection wells' correlation cost
    return us


def run_unit(unit):
    h = unit['harness']
    if h == 'factor-sync':
        yield from c03.run_factor_sync(unit)
        return
    yield from {'walk': run_walk, 'tdp': run_tdp, 'wellcost': run_wellcost, 'econ': run_econ}[h](unit)


def replay(cex):
    raise NotImplementedError
