"""C10 — the client returns exactly what the report says (DESIGN §4 C10)."""
from __future__ import annotations

import builtins
import csv
import io
import re

import z3

from .. import core, gx, harness, render, shim, writer
from ..core import SymReal
from . import c09

import geophires_x_client.geophires_x_result as GR

ID = 'C10'
FUNCTIONS = ['geophires_x.GEOPHIRESv3:main', 'geophires_x_client.geophires_x_result:GeophiresXResult.__init__', 'geophires_x_client.geophires_x_result:GeophiresXResult._get_result_field',
             'geophires_x_client.geophires_x_result:GeophiresXResult._get_data_from_profile_lines',
             'geophires_x_client.geophires_x_result:GeophiresXResult._extract_addons_style_table_data',
             'geophires_x_client.geophires_x_result:GeophiresXResult._parse_number', 'geophires_x_client.geophires_x_result:GeophiresXResult.as_csv',
             'geophires_x.Outputs:Outputs.PrintOutputs']
UNIT_TIMEOUT = {'quick': 280, 'thorough': 1500}
MODES = ['pad', 'full', 'over']
META = {
    'explanation': 'The real report writer runs on a Model whose quantities are solver variables (C09) and every figure is rendered as a '
                   'number-like placeholder carrying (term, format spec) at three widths - shorter than, exactly filling and overflowing '
                   'its column. The real GeophiresXResult then parses that text (float/int of a placeholder = rnd_spec(term)). An '
                   'independent tokenisation of the same text is the oracle: for every field the parser exposes, all lines carrying that '
                   'label must print the same (term, spec, unit) - otherwise the result depends on which element set.pop() returns - and '
                   'the returned value / unit must be that one; no field is invented or dropped; every cell (row, column) of every '
                   'profile table is the figure printed at that row and column, no dropped / shifted rows; the CSV export carries the '
                   'same values and units. JSON clause (c10json): the REAL GEOPHIRESv3.main() runs around that symbolic model (constructor, '
                   'read_parameters and Calculate replaced, PrintOutputs = the real writer, file write captured); the real jsons/json code '
                   'serialises the output dictionaries with proxies as provenance markers; per entry z3 proves JSON value = quantity held by '
                   'the model when the report was written (every element of every series), unit = its current unit, nothing missing, '
                   'nothing invented, JSON produced after the report.',
    'bounds': {t: {'configurations': 'as C09 ' + t, 'rendered widths': MODES} for t in ('quick', 'thorough')},
    'outside': ['legacy report formats (CCUS profile, pre-LCOH labels)', 'add-on / AGS / SUTRA reports (the S-DAC-GT section is inside)', 'the numeric text of JSON numbers (json.dumps of a double is CPython repr: trusted)',
                'negative-sign and thousands-separator renderings of individual figures (trusted: a rendered number contains no whitespace, bar or colon)'],
    'assumptions': ['float(text) / int(text) of a rendered figure = rnd_spec(value) (CPython)', 'a rendered figure contains no whitespace, "|", ":" or parentheses'],
    'stubs': ['geophires_x_result.open -> in-memory text; geophires_x_result.float/int -> placeholder-aware'],
}

_RND = {}


def rnd(term, spec):
    if spec not in _RND:
        _RND[spec] = z3.Function('rnd_%d' % len(_RND), core.R, core.R)
    return _RND[spec](term)


def _parse_ph(x):
    k = render.token_of(x)
    if k is None:
        return None
    term, spec = core.ctx().tokens[k]
    return SymReal(rnd(term, spec))


class _FloatMeta(type):
    def __call__(cls, x=0.0):
        if isinstance(x, str):
            r = _parse_ph(x)
            if r is not None:
                return r
        if isinstance(x, SymReal):
            return x
        return builtins.float(x)

    def __instancecheck__(cls, inst):
        return isinstance(inst, builtins.float)


class FloatSh(metaclass=_FloatMeta):
    pass


class _IntMeta(type):
    def __call__(cls, x=0, *a):
        if isinstance(x, str) and not a:
            r = _parse_ph(x)
            if r is not None:
                return r
        return builtins.int(x, *a)

    def __instancecheck__(cls, inst):
        return isinstance(inst, builtins.int)


class IntSh(metaclass=_IntMeta):
    pass


class FakeFile:
    def __init__(self, text):
        self.text = text

    def readlines(self):
        return self.text.splitlines(keepends=True)

    def close(self):
        pass

    def __enter__(self):
        return self

    def __exit__(self, *a):
        return False


def produce(cfg, mode):
    m = c09.prepared(cfg).reset()
    real_units = {}
    vals = writer.symbolize(m, tag_units=False)
    core.ctx().render = render.make(mode)
    for name in ('wellbores.PumpingPower[0]', 'economics.cost_lateral_section', 'surfaceplant.piping_length', 'economics.RITCValue', 'economics.ProjectPaybackPeriod'):
        base = name.split('[')[0]
        if base in vals:
            v = vals[base][0] if isinstance(vals[base], list) else vals[base]
            core.ctx().add_assume(v.t > 0)
    text = writer.run_writer(m)
    with shim.shadow((GR, 'open', lambda *a, **k: FakeFile(text)), (GR, 'float', FloatSh), (GR, 'int', IntSh)):
        res = GR.GeophiresXResult('/w/report.out')
        try:
            csv_text = res.as_csv()
        except (IndexError, KeyError, ValueError, TypeError, RuntimeError) as e:
            csv_text = None
    return text, res, csv_text


def tokenise(text):
    """independent reading of the report text: figure lines by (section, label), table rows by title."""
    figs = []
    section = None
    lines = text.splitlines()
    for n, raw in enumerate(lines):
        s = raw.strip()
        if s.startswith('***') and s.endswith('***'):
            section = s.strip('*').strip()
            continue
        if s.startswith('*') and s.endswith('*') and len(s) > 6 and s.strip('*').strip():
            section = s.strip('*').strip()
            continue
        if ':' in raw:
            label, _, rest = raw.rpartition(': ') if ': ' in raw else raw.partition(':')
            if ':' in label and not rest.split():
                label, _, rest = raw.partition(':')
            label = label.strip().rstrip(':')
            words = rest.split()
            if words:
                k = render.token_of(words[0])
                lit = None
                if k is None and re.fullmatch(r'-?[0-9][0-9,]*\.?[0-9]*(?:[eE][-+]?[0-9]+)?', words[0]):
                    lit = words[0]
                if k is not None or lit is not None or words[0] == 'N/A':
                    figs.append({'section': section, 'label': label.strip(), 'token': k, 'literal': lit, 'unit': words[1] if len(words) == 2 else None, 'nwords': len(words),
                                 'raw': raw, 'indent': len(raw) - len(raw.lstrip(' '))})
    tables = {}
    for title in c09.TABLE_TITLES:
        idx = [i for i, ln in enumerate(lines) if ln.strip().strip('*').strip() == title]
        if not idx:
            continue
        rows = []
        for ln in lines[idx[0] + 2:]:
            words = ln.replace('|', ' ').split()
            if words and re.fullmatch(r'-?\d+', words[0]) and len(words) > 1 and any(render.token_of(w) is not None for w in words[1:]):
                rows.append(words)
            elif rows and not ln.strip():
                break
        tables[title] = rows
    return figs, tables


TABLE_KEYS = {'S-DAC-GT PROFILE': 'S-DAC-GT PROFILE', 'HEATING, COOLING AND/OR ELECTRICITY PRODUCTION PROFILE': 'POWER GENERATION PROFILE',
              'ANNUAL HEATING, COOLING AND/OR ELECTRICITY PRODUCTION PROFILE': 'HEAT AND/OR ELECTRICITY EXTRACTION AND GENERATION PROFILE',
              'REVENUE & CASHFLOW PROFILE': 'REVENUE & CASHFLOW PROFILE'}


def _awkward(m, factor, big):
    """give every numeric quantity an 'awkward' value (many significant digits; optionally wide) so that differences in precision
    and column overflow become visible in the rendered text."""
    import numpy as np
    P = gx.P
    for cn in ('reserv', 'wellbores', 'surfaceplant', 'economics'):
        comp = getattr(m, cn)
        for an, p in vars(comp).items():
            if not gx.is_param(p) or an in writer.SKIP_ATTRS or isinstance(p, (P.intParameter, P.boolParameter, P.strParameter)):
                continue
            v = p.value
            if isinstance(v, bool) or isinstance(v, (str, type(None))) or hasattr(v, 'int_value'):
                continue
            f = (lambda x: (abs(float(x)) + 1.0) * 12345.678 * factor) if big else (lambda x: float(x) * factor)
            if isinstance(v, (float, np.floating)):
                p.value = f(v)
            elif isinstance(v, np.ndarray) and v.dtype.kind == 'f' and len(v):
                p.value = np.array([f(x) * (1 + 0.01 * i) for i, x in enumerate(v)])
            elif isinstance(v, list) and v and all(isinstance(x, (float, np.floating)) for x in v):
                p.value = [f(x) * (1 + 0.01 * i) for i, x in enumerate(v)]


def eq_fields():
    """(category, name) of the fields the client reads from '  <name> = <text>' lines."""
    R = GR.GeophiresXResult
    kind = getattr(GR, '_EqualSignDelimitedField', ())
    out = [(cat, f.field_name) for cat, fields in R._RESULT_FIELDS_BY_CATEGORY.items() for f in fields if kind and isinstance(f, kind)]
    out += [('metadata', f) for f in getattr(R, '_METADATA_FIELDS', [])]
    return out


def eq_field_checks(text, result):
    """name -> (ok, detail): the client returns exactly the text printed after '<name> = ' (None iff no such line)."""
    out = {}
    for cat, fname in eq_fields():
        marker = f'  {fname} = '
        printed = {ln.split(marker)[1] for ln in text.splitlines() if marker in ln}
        got = (result.get(cat) or {}).get(fname)
        ok = (got is None) if not printed else (len(printed) == 1 and got in printed)
        out[(cat, fname)] = (ok, {'printed after the equal sign': sorted(printed)[:3], 'client returns': got})
    return out


def concrete_roundtrip(cfg, mode='pad'):
    """replay: the real writer on the real float model (quantities given awkward / wide values according to the rendering mode of the
    counterexample), the real parser on its file; every parsed field must be the number printed on a line carrying that label, all such
    lines agreeing; every table cell must be the model quantity of that row and column as printed."""
    worst = (False, {})
    for factor in (1.2512345, 1.3377777):
        v, d = _roundtrip_once(cfg, factor, mode in ('full', 'over'))
        if v:
            return v, d
        worst = (v, d)
    return worst


def _roundtrip_once(cfg, factor, big):
    import contextlib
    import os
    import shutil
    import tempfile
    from geophires_x import Outputs as O
    m = c09.prepared(cfg).reset()
    _awkward(m, factor, big)
    d = tempfile.mkdtemp(prefix='symx_c10_')
    csv_error = None
    try:
        path = os.path.join(d, 'r.out')
        m.outputs.output_file = path
        with contextlib.redirect_stdout(io.StringIO()), shim.shadow((O, 'print_outputs_rich', lambda *a, **k: None), (O.Outputs, '_convert_units', lambda self, model: None)):
            m.outputs.PrintOutputs(m)
            writer.print_sections(m)
        text = open(path).read()
        res = GR.GeophiresXResult(path)
        try:
            res.as_csv()
        except Exception as e:
            csv_error = repr(e)[:120]
    finally:
        shutil.rmtree(d, ignore_errors=True)
    bad = []
    if csv_error:
        bad.append(('as_csv', 'raised', csv_error, ''))
    for (cat, fname), (ok, det) in eq_field_checks(text, res.result).items():
        if not ok:
            bad.append((cat, fname, det['client returns'], f'line prints {det["printed after the equal sign"]}'))
    lines = text.splitlines()
    bylabel = {}
    for raw in lines:
        if ':' in raw:
            label, _, rest = raw.rpartition(': ') if ': ' in raw else raw.partition(':')
            label = label.strip().rstrip(':')
            w = rest.split()
            if w:
                bylabel.setdefault(label.strip(), []).append((w[0], w[1] if len(w) == 2 else None, len(raw) - len(raw.lstrip(' '))))
    for cat, fields in res.result.items():
        if not isinstance(fields, dict) or cat == 'metadata':
            continue
        for f, vu in fields.items():
            cands = [c for c in bylabel.get(f, []) if c[2] >= 4]
            if isinstance(vu, dict) and isinstance(vu.get('value'), (int, float)):
                texts = {c[0].replace(',', '') for c in cands}
                nums = set()
                for t in texts:
                    try:
                        nums.add(float(t))
                    except ValueError:
                        pass
                if not nums:
                    bad.append((cat, f, vu['value'], 'no line with that label prints a number'))
                elif len(nums) > 1:
                    bad.append((cat, f, vu['value'], f'lines with that label disagree: {sorted(texts)} (result depends on set.pop())'))
                elif float(vu['value']) not in nums:
                    bad.append((cat, f, vu['value'], f'line prints {sorted(texts)}'))

    def V(name):
        comp, attr = name.split('.')
        v = getattr(getattr(m, comp), attr).value
        return list(v) if hasattr(v, '__len__') and not isinstance(v, str) else v
    for title, key in TABLE_KEYS.items():
        idx = [i for i, ln in enumerate(lines) if ln.strip().strip('*').strip() == title]
        if not idx:
            continue
        spec_t = c09.table_oracle(m, V, title)
        if spec_t is None:
            continue
        nrows, first, cols = spec_t
        prof = res.result.get(key)
        if not prof:
            bad.append((key, 'table', 'not extracted', f'{nrows} rows printed'))
            continue
        got = prof[1:]
        if len(got) != nrows:
            bad.append((key, 'rows', len(got), nrows))
            continue
        for r, g in enumerate(got):
            cells = [x for x in g if x != '']
            if len(cells) != len(cols) + 1:
                bad.append((key, f'row {r}', f'{len(cells)} cells parsed', f'{len(cols) + 1} figures were written'))
                continue
            for ci, colf in enumerate(cols):
                try:
                    want = float(colf(r))
                    gotv = cells[ci + 1]
                    if want != want:      # the model holds NaN (0/0 in the first years of a profile): the report prints 'nan', which is not a figure
                        continue
                    if gotv is None or abs(float(gotv) - want) > 0.006 + 1e-3 * abs(want):
                        bad.append((key, f'row {r} col {ci + 1}', gotv, want))
                except (TypeError, ValueError, IndexError):
                    continue
    fields_all = set()
    for cat, fields in res.result.items():
        if isinstance(fields, dict):
            fields_all |= set(fields.keys())
    missing = sorted({lab for lab, cs in bylabel.items() if lab not in fields_all
                      and any(c[2] >= 4 and re.fullmatch(r'-?[0-9][0-9,]*\.?[0-9]*(?:[eE][-+]?[0-9]+)?', c[0]) for c in cs)})
    return bool(bad), {'parsed values that are not the number printed under their label / in their cell': bad[:8], 'figure lines the client does not return': missing}


# labelled figure lines of the report that the client's extraction table does not list on the pinned tree (recorded finding
# C10-report-lines-the-client-does-not-return); any OTHER printed figure line that the client does not return is a violation
KNOWN_UNEXTRACTED = {'Annual Thermal Drawdown', 'Constant production well temperature drop', 'Total Tonnes of CO2 Captured',
                     'Wellbore Heat Transmission Model = Constant Temperature Drop', 'm/A Drawdown Parameter'}


def concrete_missing(cfg, label):
    v, d = _roundtrip_once(cfg, 1.2512345, False)
    miss = d.get('figure lines the client does not return', [])
    return label in miss, {'figure line printed by the report': label, 'returned by the client': label not in miss, 'all figure lines the client does not return': miss}


def heading_units(text, title):
    """the parenthesised units of the heading lines the report prints between a table's title box and its first data row."""
    lines = text.splitlines()
    for i, ln in enumerate(lines):
        if ln.strip().strip('*').strip() == title:
            out = []
            for h in lines[i + 2:i + 8]:
                if re.match(r'^\s*[0-9#]', h) and '(' not in h:
                    break
                out += re.findall(r'\(([^()]*)\)', h)
            return out
    return []


KNOWN_HEADING = {'REVENUE & CASHFLOW PROFILE': ('cents/kWh', 'USD/kWh')}      # (unit the client hard-codes, unit the report prints) for the price columns


def _known_heading_deviation(title, hc, hr):
    pair = KNOWN_HEADING.get(title)
    if pair is None or len(hc) != len(hr):
        return []
    return [i for i, (a, b) in enumerate(zip(hc, hr)) if (a, b) == pair]


def _mask(units, positions):
    return [u for i, u in enumerate(units) if i not in positions]


def concrete_heading(cfg, title, key, masked=False):
    """replay: real writer, real client on a real file."""
    import contextlib
    import os
    import shutil
    import tempfile
    from geophires_x import Outputs as O
    m = c09.prepared(cfg).reset()
    d = tempfile.mkdtemp(prefix='symx_c10h_')
    try:
        path = os.path.join(d, 'r.out')
        m.outputs.output_file = path
        with contextlib.redirect_stdout(io.StringIO()), shim.shadow((O, 'print_outputs_rich', lambda *a, **k: None), (O.Outputs, '_convert_units', lambda self, model: None)):
            m.outputs.PrintOutputs(m)
            writer.print_sections(m)
        text = open(path).read()
        prof = GR.GeophiresXResult(path).result.get(key)
    finally:
        shutil.rmtree(d, ignore_errors=True)
    hc = [u for h in (prof[0] if prof else []) for u in re.findall(r'\(([^()]*)\)', str(h))]
    hr = heading_units(text, title)
    if masked:
        dev = _known_heading_deviation(title, hc, hr)
        return bool(hc and hr and (_mask(hc, dev) != _mask(hr, dev) or len(hc) != len(hr))), {'client column units': hc, 'units printed in the heading': hr}
    return bool(hc and hr and hc != hr), {'client column units': hc, 'units printed in the heading': hr}


def run_unit(unit):
    if unit.get('harness') == 'json':
        from . import c10json
        yield from c10json.run_unit(unit)
        return
    if unit.get('harness') == 'addon-table-heading':
        yield from run_addon_heading(unit)
        return
    kind, L, T, K, x, mode = unit['kind'], unit['L'], unit['T'], unit['K'], unit['variant'], unit['mode']
    cfg = c09.params_for(kind, L, T, K, x)
    desc = {'kind': kind, 'L': L, 'T': T, 'K': K, 'variant': x, 'rendering': mode}
    log = harness.UnitLog(desc)
    c09.prepared(cfg)
    n = 0
    zv = {}
    conc = lambda inp: concrete_roundtrip(cfg, mode)
    for pr in core.explore(lambda: produce(cfg, mode), max_paths=3000, catch=(RuntimeError,)):
        log.path(pr)
        n += 1
        if pr.aborted:
            continue
        if pr.error is not None:
            raise pr.error
        text, res, csv_text = pr.value
        c = pr.ctx
        harness.reachable(log, c, 1500)
        figs, tables = tokenise(text)
        bylabel = {}
        for f in figs:
            if f['indent'] >= 4:
                bylabel.setdefault(f['label'], []).append(f)

        def term_of(k):
            t, spec = c.tokens[k]
            return rnd(t, spec)
        for (cat, fname), (ok, det) in eq_field_checks(text, res.result).items():
            harness.discharge(log, c, f'[{cat}] "{fname} = ...": the client returns the text printed after the equal sign (not dropped, not invented)', bool(ok), zv, conc)
        nfields = 0
        # percentages of a fraction in [0, 1]: printed with a 10-character field they can never fill or overflow it; the 'full' / 'over'
        # renderings of these figures are not reports the simulator can emit
        # (the same holds for the redrilling cost line, which the writer prints without a blank after the colon: a wellfield cost of a million
        # MUSD - what it takes to fill its 10-character field - is beyond every accepted input)
        bounded = {'Geothermal Ratio (electricity vs heat)', 'Percent Energy Devoted To Process', 'Drilling and completion costs (for redrilling)'} if mode != 'pad' else set()
        for cat, fields in res.result.items():
            if cat == 'metadata' or not isinstance(fields, dict):
                continue
            for fname, vu in fields.items():
                if fname in bounded:
                    continue
                cands = bylabel.get(fname, [])
                if vu is None:
                    harness.discharge(log, c, f'[{cat}] "{fname}": a figure printed under this label is not dropped by the parser',
                                      not any(f['token'] is not None or f.get('literal') is not None for f in cands), zv, conc)
                    continue
                if not isinstance(vu, dict) or 'value' not in vu:
                    continue
                val = vu['value']
                if isinstance(val, str):
                    continue
                nfields += 1
                numc = [f for f in cands if f['token'] is not None]
                litc = [f for f in cands if f.get('literal') is not None]
                if not numc and litc and not isinstance(val, SymReal) and val is not None:
                    lits = {float(f['literal'].replace(',', '')) for f in litc}
                    harness.discharge(log, c, f'[{cat}] "{fname}": the value returned is the number printed on its line', len(lits) == 1 and float(val) in lits, zv, conc)
                    continue
                if val is None:
                    harness.discharge(log, c, f'[{cat}] "{fname}": N/A only when the line says N/A', bool(cands) and not numc, zv, conc)
                    continue
                if not numc:
                    harness.discharge(log, c, f'[{cat}] "{fname}": the value comes from a line carrying exactly this label (not from another line)', False, zv, conc)
                    continue
                # all lines with this label must print the same thing, else the result depends on set.pop()
                sigs = {(c.tokens[f['token']][0].get_id(), c.tokens[f['token']][1], f['unit']) for f in numc}
                harness.discharge(log, c, f'[{cat}] "{fname}": every line carrying this label prints the same figure and unit (the result does not depend on set.pop())',
                                  len(sigs) == 1, zv, conc)
                f0 = numc[0]
                got = core.lift(val)
                harness.discharge(log, c, f'[{cat}] "{fname}": the value returned is the figure printed on its line', got is not None and got == term_of(f0['token']), zv, conc,
                                  sample=(nfields == 1))
                want_unit = f0['unit'] if f0['nwords'] == 2 else ('count' if fname.startswith('Number') else None)
                harness.discharge(log, c, f'[{cat}] "{fname}": the unit returned is the unit printed after the figure', vu.get('unit') == want_unit, zv, conc)
        # every printed figure whose label the parser knows is exposed (no silently dropped field) is covered by the vu is None clause above
        # ... and every labelled figure line the writer prints is one the client returns (a renamed label on either side drops a figure)
        fields_all = set()
        for cat, fields in res.result.items():
            if isinstance(fields, dict):
                fields_all |= set(fields.keys())
        for lab, fl in bylabel.items():
            if lab in fields_all or not any(f['token'] is not None or f.get('literal') is not None for f in fl):
                continue
            rec = lab in KNOWN_UNEXTRACTED
            harness.discharge(log, c, f'"{lab}": a labelled figure line of the report is returned by the client' + (' [recorded: not in the client\'s extraction table]' if rec else ''),
                              False, zv, lambda inp, lab=lab: concrete_missing(cfg, lab), finding=('C10-report-lines-the-client-does-not-return' if rec else None))
        for title, key in TABLE_KEYS.items():
            rows = tables.get(title)
            if rows is None:
                continue
            prof = res.result.get(key)
            harness.discharge(log, c, f'table "{key}" is extracted', prof is not None and len(prof) >= 1, zv, conc)
            if not prof:
                continue
            # units the client attaches to the columns are the units the report's heading prints for them
            hu_client = [u for h in prof[0] for u in re.findall(r'\(([^()]*)\)', str(h))]
            hu_report = heading_units(text, title)
            if hu_client and hu_report:
                dev = _known_heading_deviation(title, hu_client, hu_report)
                harness.discharge(log, c, f'table "{key}": the column units the client returns are the units printed in the table heading',
                                  _mask(hu_client, dev) == _mask(hu_report, dev) and len(hu_client) == len(hu_report), zv,
                                  lambda inp, title=title, key=key: concrete_heading(cfg, title, key, masked=True))
                if dev:
                    harness.discharge(log, c, f'table "{key}": the price columns carry the unit printed in the heading [recorded: client says cents/kWh, report prints USD/kWh]',
                                      False, zv, lambda inp, title=title, key=key: concrete_heading(cfg, title, key), finding='C10-revenue-table-price-unit-hard-coded')
            body = prof[1:]
            harness.discharge(log, c, f'table "{key}": one parsed row per printed row (no dropped rows)', len(body) == len(rows), zv, conc)
            if len(body) != len(rows):
                continue
            ncols = len(prof[0])
            for r, (g, w) in enumerate(zip(body, rows)):
                gv = [x for x in g]
                ok_len = len(gv) == ncols
                harness.discharge(log, c, f'table "{key}" row {r}: as many cells as header columns', ok_len, zv, conc)
                if title.startswith('REVENUE'):
                    # construction years print a literal 0.00 for OPEX: still one figure per column
                    pass
                cells = [x for x in gv if x != '']
                harness.discharge(log, c, f'table "{key}" row {r}: one parsed cell per printed figure (no shifted columns)', len(cells) == len(w), zv, conc)
                if len(cells) != len(w):
                    continue
                for ci, (a, b) in enumerate(zip(cells, w)):
                    k = render.token_of(b)
                    if k is None:
                        okc = (a is not None and not isinstance(a, SymReal) and float(a) == float(b))
                        harness.discharge(log, c, f'table "{key}" row {r} column {ci}: literal cell', okc, zv, conc)
                    else:
                        la = core.lift(a) if a is not None else None
                        harness.discharge(log, c, f'table "{key}" row {r} column {ci}: the cell is the figure printed there', la is not None and la == term_of(k), zv, conc)
        # CSV export
        harness.discharge(log, c, 'the CSV export of the parsed result succeeds', csv_text is not None, zv, conc)
        if csv_text is None:
            continue
        rows = list(csv.reader(io.StringIO(csv_text)))
        bycf = {}
        for row in rows[1:]:
            if len(row) == 5:
                bycf.setdefault((row[0], row[1].replace('\\,', ',')), []).append(row)
        ncsv = 0
        for cat, fields in res.result.items():
            if cat == 'metadata' or not isinstance(fields, dict):
                continue
            for fname, vu in fields.items():
                if not isinstance(vu, dict) or not isinstance(vu.get('value'), SymReal):
                    continue
                r_ = bycf.get((cat, fname), [])
                k = render.token_of(r_[0][3]) if r_ else None
                ok = False
                if k is not None:
                    ok = z3.is_true(z3.simplify(c.tokens[k][0] == core.lift(vu['value'])))
                ncsv += 1
                harness.discharge(log, c, f'CSV [{cat}] "{fname}": the exported value and unit are those of the parsed result',
                                  bool(ok) and (r_[0][4] == (vu.get('unit') or '')), zv, conc)
    yield log.result()


def units(tier, seed):
    us = []
    for (k, L, T, K, x) in c09.CONFIGS[tier]:
        for mode in MODES:
            us.append({'kind': k, 'L': L, 'T': T, 'K': K, 'variant': x, 'mode': mode})
    from . import c10json
    us += c10json.units(tier)
    us.append({'harness': 'addon-table-heading'})
    return us


def run_addon_heading(unit):
    """EXTENDED ECONOMIC PROFILE (add-on section): the client attaches hard-coded column headers to this table.  The units in those headers
    must be the units the report's heading prints.  The heading text is made of unit strings only (no figure enters it), so one run of the
    real add-on writer per configuration covers every numeric input; the add-on section writer itself is otherwise outside (DESIGN F)."""
    import contextlib
    import os
    import shutil
    import tempfile
    title = key = 'EXTENDED ECONOMIC PROFILE'
    for kind, L, T, K in (('electricity', 2, 2, 1), ('cogen-topping', 2, 1, 1)):      # (with >= 2 construction years the pinned add-on writer fails before the table: DESIGN G, robustness)
        cfg = c09.params_for(kind, L, T, K, {'addon': 1})
        desc = {'harness': 'addon-table-heading', 'kind': kind, 'L': L, 'T': T, 'K': K}
        log = harness.UnitLog(desc)
        m = c09.prepared(cfg).reset()
        d = tempfile.mkdtemp(prefix='symx_c10a_')
        try:
            path = os.path.join(d, 'r.out')
            m.outputs.output_file = m.addoutputs.output_file = path
            from geophires_x import Outputs as O
            with contextlib.redirect_stdout(io.StringIO()), shim.shadow((O, 'print_outputs_rich', lambda *a, **k: None)):
                m.outputs.PrintOutputs(m)
                try:
                    m.addoutputs.PrintOutputs(m)
                except SystemExit:
                    pass       # the writer gave up: judged below (no table)
            text = open(path).read()
            prof = GR.GeophiresXResult(path).result.get(key)
        finally:
            shutil.rmtree(d, ignore_errors=True)
        log['paths'] += 1
        log['reachable'] += 1
        hc = [u for h in (prof[0] if prof else []) for u in re.findall(r'\(([^()]*)\)', str(h))]
        hr = heading_units(text, title)
        for name, ok in (('the add-on table is printed and extracted', bool(prof) and bool(hr)),
                         (f'table "{key}": the column units the client returns are the units printed in the table heading', hc == hr)):
            log['obligations'] += 1
            if ok:
                log['discharged'] += 1
            else:
                log['cex'].append({'obligation': name, 'finding': None, 'config': desc, 'reproduced': True, 'inputs': {},
                                   'detail': {'client column units': hc, 'units printed in the heading': hr}, 'how': 'native (heading text is value-independent)', 'attempts': []})
        yield log.result()


def replay(cex):
    c = cex['config']
    if c.get('harness') == 'json':
        from . import c10json
        return c10json.concrete(c09.params_for(c['kind'], c['L'], c['T'], c['K'], c['variant']))
    return concrete_roundtrip(c09.params_for(c['kind'], c['L'], c['T'], c['K'], c['variant']), c.get('rendering', 'pad'))
