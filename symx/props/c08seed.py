"""C08, hash-seed clause: the same input read (and the reservoir calculated) by fresh interpreters started with different PYTHONHASHSEED
values must end in the same parameter state.  The input mixes the list style and the enumerated style of the segment parameters and
repeats keys across the classes, so that any iteration over a set of strings in a reader shows up as an order change.  (Concrete
differential over an enumerated set of seeds: hash randomisation is an environment input that no solver variable stands for here.)"""
from __future__ import annotations

import json
import os
import subprocess
import sys

from .. import gx, harness

INPUT = {'Reservoir Model': 4, 'Number of Segments': 3, 'Gradients': '40, 50, 60', 'Gradient 2': 70, 'Gradient 1': 45, 'Thicknesses': '1, 1', 'Thickness 1': 1.5, 'Thickness 2': 0.5,
         'Reservoir Depth': 4, 'Maximum Temperature': 350, 'End-Use Option': 2, 'Power Plant Type': 9, 'Plant Lifetime': 3, 'Time steps per year': 1, 'Print Output to Console': 0,
         'Production Well Diameter': 8, 'Injection Well Diameter': 9, 'Ending Heat Sale Price': 0.04, 'Starting Heat Sale Price': 0.03}
SCRIPT = r'''
import json, sys
from symx import gx
m = gx.make_model(json.loads(sys.argv[1]))
m.reserv.Calculate(m)
state = {}
for cn in ('reserv', 'wellbores', 'surfaceplant', 'economics'):
    comp = getattr(m, cn)
    for k, p in comp.ParameterDict.items():
        state[f'{cn}.{k}'] = repr((p.value, str(getattr(p, 'CurrentUnits', None)), getattr(p, 'Provided', None)))
state['reserv.Trock'] = repr(float(m.reserv.Trock.value))
state['reserv.depth'] = repr(float(m.reserv.depth.value))
print('STATE' + json.dumps(state, sort_keys=True))
'''


# the whole pipeline through the client parser: figures with more significant digits than any display format keeps, so that two lines
# printing one quantity with different precision (the parser collects matching lines in a set) show up as a seed-dependent result
CLIENT_INPUT = {'Reservoir Model': 4, 'Gradient 1': 41.275, 'Reservoir Depth': 3.123456, 'Maximum Temperature': 350, 'End-Use Option': 1, 'Power Plant Type': 2,
                'Plant Lifetime': 4, 'Time steps per year': 2, 'Print Output to Console': 0, 'Production Flow Rate per Well': 41.23456, 'Surface Temperature': 14.56789,
                'Ambient Temperature': 13.45678, 'Drawdown Parameter': 0.00312345, 'Injection Temperature': 51.23456, 'Starting Electricity Sale Price': 0.0612345,
                'Ending Electricity Sale Price': 0.0712345, 'Fixed Internal Rate': 6.12345}
CLIENT_SCRIPT = r'''
import json, os, sys, tempfile, io, contextlib
d = tempfile.mkdtemp(prefix='symx_c08seedc_')
inp, out = os.path.join(d, 'in.txt'), os.path.join(d, 'out.out')
open(inp, 'w').write(''.join(f'{k}, {v}\n' for k, v in json.loads(sys.argv[1]).items()))
cwd = os.getcwd()
sys.argv = ['', inp, out]
from geophires_x import GEOPHIRESv3
with contextlib.redirect_stdout(io.StringIO()), contextlib.redirect_stderr(io.StringIO()):
    try:
        GEOPHIRESv3.main(enable_geophires_logging_config=False)
    except SystemExit:
        pass
os.chdir(cwd)
from geophires_x_client.geophires_x_result import GeophiresXResult
res = GeophiresXResult(out).result
res.pop('metadata', None)
print('STATE' + json.dumps({'client result': json.dumps(res, sort_keys=True, default=str)}, sort_keys=True))
import shutil
shutil.rmtree(d, ignore_errors=True)
'''


def run_seed(seed, script=None, payload=None):
    env = dict(os.environ, PYTHONHASHSEED=str(seed), PYTHONPATH=os.pathsep.join([os.path.dirname(os.path.dirname(os.path.dirname(os.path.abspath(__file__)))), gx.SRC]),
               SYMX_REPO=gx.REPO)
    r = subprocess.run([sys.executable, '-c', script or SCRIPT, json.dumps(payload or INPUT)], env=env, capture_output=True, text=True, timeout=180)
    for ln in r.stdout.splitlines():
        if ln.startswith('STATE'):
            return json.loads(ln[5:])
    raise RuntimeError('no state from the sub-interpreter: ' + (r.stderr or r.stdout)[-400:])


def units(tier):
    return [{'harness': 'hash-seed', 'seeds': list(range(4 if tier == 'quick' else 12))}]


def run_unit(unit):
    cfg = {'harness': 'hash-seed', 'seeds': unit['seeds']}
    log = harness.UnitLog(cfg)
    ref = None
    for sd in unit['seeds']:
        st = run_seed(sd)
        st.update(run_seed(sd, CLIENT_SCRIPT, CLIENT_INPUT))       # + what the client parser returns for a full run's report
        log['paths'] += 1
        log['reachable'] += 1
        if ref is None:
            ref = st
            continue
        log['obligations'] += 1
        diff = [k for k in sorted(set(ref) | set(st)) if ref.get(k) != st.get(k)]
        if not diff:
            log['discharged'] += 1
        else:
            log['cex'].append({'obligation': 'the parameter state after reading (and the bottom-hole temperature), and what the client returns for a run, do not depend on the hash seed', 'finding': None, 'config': cfg,
                               'reproduced': True, 'inputs': {'PYTHONHASHSEED': [unit['seeds'][0], sd]},
                               'detail': {'differs in': diff[:6], 'values': {k: [ref.get(k), st.get(k)] for k in diff[:3]}},
                               'how': 'fresh interpreters with different hash seeds on the same input', 'attempts': []})
    log['samples'].append({'input': INPUT, 'seeds': unit['seeds']})
    log.d['exhaustive'] = True
    yield log.result()
