"""C08 — a run is a pure function of its input; runs do not contaminate each other (DESIGN §4 C08).

World model: the process state (cwd, argv), the file system (path -> content id) and the simulator are symbolic; the REAL client
code (GeophiresXClient.get_geophires_result, HipRaXClient.get_hip_ra_result, GeophiresInputParameters hashing / paths,
GeophiresXSchemaGenerator._get_dummy_model) runs against it over histories of H requests with arbitrary rewrites and failures."""
from __future__ import annotations

import itertools
import os
import sys
import tempfile
from pathlib import Path

import z3

from .. import core, gx, harness, shim
from ..core import SymBool

import geophires_x_client as CL
from geophires_x_client import geophires_input_parameters as GIP
import hip_ra_x as HX
import hip_ra

ID = 'C08'
FUNCTIONS = ['geophires_x_client:GeophiresXClient.get_geophires_result', 'geophires_x_client.geophires_input_parameters:GeophiresInputParameters.__init__',
             'geophires_x_client.geophires_input_parameters:GeophiresInputParameters.__hash__',
             'geophires_x_client.geophires_input_parameters:GeophiresInputParameters.get_output_file_path',
             'hip_ra_x:HipRaXClient.get_hip_ra_result', 'geophires_x_schema_generator:GeophiresXSchemaGenerator._get_dummy_model']
UNIT_TIMEOUT = {'quick': 200, 'thorough': 900}
HS = {'quick': [1, 2], 'thorough': [1, 2, 3, 4, 5]}
META = {
    'explanation': 'The real client methods run inside a symbolic world: the working directory, the argument vector, the content of every '
                   'input file at every call (an arbitrary rewrite may happen between calls), whether each simulated run fails (exception '
                   'or SystemExit) and which of two files each request names are solver variables; the simulator is a stub with its real '
                   'observable behaviour (reads argv[1], writes R(content) to argv[2], leaves the process in the package directory, may '
                   'raise). Over every history of H requests z3 proves: after every call - successful or failed - cwd and argv are what '
                   'they were before it; every returned result equals R(content of the requested file at the time of that call).',
    'bounds': {t: {'history length H': HS[t], 'distinct input files': 2, 'caching': ['on', 'off'], 'clients': ['GeophiresXClient', 'HipRaXClient', 'schema generator dummy model']} for t in HS},
    'outside': ['that the simulator core as a whole is a function of the file content (lru_cache tables, pint registry): an ASSUMPTION of the history model (R is a function); the fresh-objects units decide one part of it: no value read by one run is reachable from the parameter state of a freshly constructed later run',
                'hash collisions (the hash is modelled as injective)', 'histories longer than the bound', 'hash-seed dependence of set.pop() (C10)'],
    'assumptions': ['simulator stub contract (DESIGN Appendix D)', 'idealised injective hash', 'the package directory differs from the caller\'s working directory'],
    'stubs': ['geophires_x_client.geophires / hip_ra_x.hip_ra_x -> simulator stub', 'geophires_x_client.Path/os/sys/hash, GeophiresXResult, HipRaResult, open -> world objects'],
}

PKG = 'PKGDIR'


class Content:
    """content id of a file (z3 Int); equality is decided symbolically; hashing goes through the world hash."""

    def __init__(self, t):
        self.t = t

    def __eq__(self, o):
        if isinstance(o, Content):
            return bool(SymBool(self.t == o.t))
        return NotImplemented

    def __hash__(self):
        return 0


class Key:
    """value of the (shadowed) builtin hash(): an injective function of what was hashed."""
    H = z3.Function('hash_of_content', z3.IntSort(), z3.IntSort())

    def __init__(self, kind, v):
        self.kind, self.v = kind, v

    def __eq__(self, o):
        if not isinstance(o, Key):
            return NotImplemented
        if self.kind != o.kind:
            return False
        if self.kind == 'concrete':
            return self.v == o.v
        return bool(SymBool(self.v == o.v))   # injective: equal hashes <=> equal contents

    def __hash__(self):
        return 0


class World:
    def __init__(self, cwd0, argv0):
        self.cwd = cwd0
        self.argv = argv0
        self.fs = {}          # str(path) -> Content
        self.R = z3.Function('R', z3.IntSort(), z3.IntSort())
        self.fail = None
        self.failkind = None
        self.log = []

    # simulator stub ------------------------------------------------------------------------------------------
    def simulator_main(self, *a, **k):
        inp, outp = str(self.argv[1]), str(self.argv[2])
        self.cwd = PKG                       # the real main() chdir()s into the package directory and stays there
        c = self.fs[inp]
        if self.fail:                        # symbolic: this run fails
            if self.failkind:
                raise SystemExit()
            raise ValueError('simulated failure')
        self.fs[outp] = Content(self.R(c.t))

    def world_hash(self, x):
        if isinstance(x, Content):
            return Key('content', x.t)   # injective hash: equal hashes <=> equal contents
        if isinstance(x, tuple):
            return Key('tuple', None) if False else tuple(self.world_hash(e) for e in x)
        h = x.__hash__() if not isinstance(x, (str, int)) else hash(x)
        return Key('concrete', h)


def make_stubs(w: World):
    class PathStub(type(Path())):
        @classmethod
        def cwd(cls):
            return w.cwd

    class OsStub:
        def __getattr__(self, k):
            return getattr(os, k)

        @staticmethod
        def chdir(p):
            w.cwd = p

    class SysStub:
        def __getattr__(self, k):
            return getattr(sys, k)

        @property
        def argv(self):
            return w.argv

        @argv.setter
        def argv(self, v):
            w.argv = v

    class SimModule:
        main = staticmethod(w.simulator_main)

    class Result:
        def __init__(self, path, *a, **k):
            if str(path) not in w.fs:
                raise FileNotFoundError(str(path))
            self.content = w.fs[str(path)]

    class FileObj:
        def __init__(self, path):
            self.c = w.fs[str(path)]

        def read(self):
            return self.c

        def readlines(self):
            return [self.c]

        def __enter__(self):
            return self

        def __exit__(self, *a):
            return False

    def world_open(path, *a, **k):
        return FileObj(path)
    return PathStub, OsStub(), SysStub(), SimModule, Result, world_open


def client_shadows(w, which):
    PathStub, os_, sys_, Sim, Result, wopen = make_stubs(w)
    if which == 'geophires':
        return [(CL, 'Path', PathStub), (CL, 'os', os_), (CL, 'sys', sys_), (CL, 'geophires', Sim), (CL, 'GeophiresXResult', Result),
                (CL, 'hash', w.world_hash), (GIP, 'open', wopen)]
    if which == 'hip':
        return [(HX, 'Path', PathStub), (HX, 'os', os_), (HX, 'sys', sys_), (HX, 'hip_ra_x', Sim), (HX, 'HipRaResult', Result)]
    raise ValueError(which)


def history(which, H, caching):
    """runs the real client over a symbolic history; returns the list of observations."""
    c = core.ctx()
    cwd0 = 'CALLER_CWD'
    argv0 = ['caller-argv']
    w = World(cwd0, argv0)
    files = ['/w/in_A.txt', '/w/in_B.txt']
    if which == 'geophires':
        params = [CL.GeophiresInputParameters(from_file_path=Path(f)) for f in files]
        client = CL.GeophiresXClient(enable_caching=caching)
        call = client.get_geophires_result
    else:
        params = []
        for f in files:
            p = hip_ra.HipRaInputParameters.__new__(hip_ra.HipRaInputParameters)
            p._input_file_path = Path(f)
            p._file_path = Path(f)
            p._output_file_path = Path(f.replace('in_', 'out_'))
            params.append(p)
        client = HX.HipRaXClient()
        call = client.get_hip_ra_result
    obs = []
    with shim.shadow(*client_shadows(w, which)):
        for j in range(H):
            # arbitrary rewrites between calls: each file holds an arbitrary content at call j
            for f in files:
                w.fs[f] = Content(z3.Int(f'content[{f[-5]}][{j}]'))
            pick_b = bool(SymBool(z3.Bool(f'request[{j}]_is_B'))) if len(files) > 1 else False
            p = params[1] if pick_b else params[0]
            w.fail = bool(SymBool(z3.Bool(f'fails[{j}]')))
            w.failkind = bool(SymBool(z3.Bool(f'fails_with_SystemExit[{j}]'))) if w.fail else False
            cwd_before, argv_before = w.cwd, w.argv
            requested = w.fs[files[1] if pick_b else files[0]]
            res = exc = None
            try:
                res = call(p)
            except (RuntimeError, FileNotFoundError) as e:
                exc = e
            obs.append({'call': j, 'file': 'B' if pick_b else 'A', 'failed': bool(w.fail) if exc is not None else False,
                        'raised': exc is not None, 'cwd_restored': w.cwd == cwd_before, 'argv_restored': w.argv is argv_before,
                        'cwd_after': str(w.cwd), 'result': res, 'requested': requested, 'R': w.R})
    return obs


def zvars(H):
    d = {}
    for j in range(H):
        for f in 'AB':
            d[f'content[{f}][{j}]'] = z3.Int(f'content[{f}][{j}]')
        d[f'request[{j}]_is_B'] = z3.Bool(f'request[{j}]_is_B')
        d[f'fails[{j}]'] = z3.Bool(f'fails[{j}]')
        d[f'fails_with_SystemExit[{j}]'] = z3.Bool(f'fails_with_SystemExit[{j}]')
    return d


# ---- replay on the REAL client, real files, real simulator ---------------------------------------------------------
GOOD = 'Reservoir Model, 4\nReservoir Depth, {d}\nGradient 1, 50\nEnd-Use Option, 2\nPower Plant Type, 9\nPlant Lifetime, 3\nTime steps per year, 2\nPrint Output to Console, 0\n'
BAD = 'Reservoir Model, 4\nReservoir Depth, 3\nGradient 1, 50\nMaximum Temperature, 9999\nPrint Output to Console, 0\n'
# an input on which the simulator aborts with a bare sys.exit() (missing reservoir profile file)
BAD_EXIT = 'Reservoir Model, 5\nReservoir Output File Name, /nonexistent/profile.txt\nReservoir Depth, 3\nGradient 1, 50\nPrint Output to Console, 0\n'


def concrete_history(which, inp, H, caching):
    """the solver's history replayed through the real GeophiresXClient on real files with the real simulator."""
    if which != 'geophires':
        return False, {'note': 'HIP-RA-X replay not implemented (the pinned client already restores in finally)'}
    import shutil
    d = tempfile.mkdtemp(prefix='symx_c08_')
    cwd0 = os.getcwd()
    argv0 = sys.argv
    try:
        files = {'A': Path(d, 'in_A.txt'), 'B': Path(d, 'in_B.txt')}
        params = {k: CL.GeophiresInputParameters(from_file_path=f) for k, f in files.items()}
        client = CL.GeophiresXClient(enable_caching=caching)
        viol = []
        trace = []
        for j in range(H):
            for k, f in files.items():
                cid = int(inp.get(f'content[{k}][{j}]', 0))
                fails_here = bool(inp.get(f'fails[{j}]', False)) and (k == ('B' if inp.get(f'request[{j}]_is_B') else 'A'))
                bad = BAD_EXIT if inp.get(f'fails_with_SystemExit[{j}]') else BAD
                f.write_text(bad if fails_here else GOOD.format(d=2.0 + (cid % 17) * 0.25))
            k = 'B' if inp.get(f'request[{j}]_is_B') else 'A'
            before = (os.getcwd(), sys.argv)
            # a request whose file currently holds the failing input can only be answered by an error
            want_depth = -1.0 if bool(inp.get(f'fails[{j}]', False)) else 2.0 + (int(inp.get(f'content[{k}][{j}]', 0)) % 17) * 0.25
            try:
                r = client.get_geophires_result(params[k])
                got = r.result['SUMMARY OF RESULTS']['Well depth']['value'] if 'Well depth' in r.result['SUMMARY OF RESULTS'] else \
                    r.result['ENGINEERING PARAMETERS']['Well depth']['value']
                trace.append({'call': j, 'file': k, 'depth_in_file': want_depth, 'depth_in_result': got})
                if want_depth is not None and abs(float(got) - want_depth) > 0.06:
                    viol.append(f'call {j}: result computed from other content (file says depth {want_depth}, result says {got})')
            except (RuntimeError, FileNotFoundError) as e:
                trace.append({'call': j, 'file': k, 'raised': str(e)[:80]})
            if os.getcwd() != before[0]:
                viol.append(f'call {j}: working directory left at {os.getcwd()}')
            if sys.argv is not before[1]:
                viol.append(f'call {j}: sys.argv left rewritten')
            os.chdir(before[0])
            sys.argv = before[1]
        return bool(viol), {'violations': viol, 'trace': trace}
    finally:
        os.chdir(cwd0)
        sys.argv = argv0
        shutil.rmtree(d, ignore_errors=True)


def run_history_unit(unit):
    which, H, caching = unit['client'], unit['H'], unit['caching']
    cfg = {'harness': 'history', 'client': which, 'H': H, 'caching': caching}
    log = harness.UnitLog(cfg)
    zv = zvars(H)

    def fn():
        return history(which, H, caching)
    n = 0
    for pr in core.explore(fn, max_paths=400000):
        log.path(pr)
        n += 1
        if isinstance(pr.error, (AttributeError, TypeError)) and 'Content' in str(pr.error):
            # the client processes the TEXT of the input (this world keeps file contents opaque): the real-files units decide such code
            log['inconclusive'].append({'obligation': 'history world', 'why': 'client code operates on the text of the input file: ' + str(pr.error)[:100]})
            break
        if pr.error is not None:
            raise pr.error
        if pr.aborted:
            continue
        c = pr.ctx
        r = harness.reachable(log, c, 2000)
        for o in pr.value:
            j = o['call']
            conc = lambda inp: concrete_history(which, inp, H, caching)
            fid_state = 'C08-client-failure-leaves-cwd-argv' if o['raised'] else None
            harness.discharge(log, c, f'call {j} ({"failed" if o["raised"] else "ok"}): the caller\'s working directory is restored',
                              bool(o['cwd_restored']), zv, conc, finding=fid_state, sample=(n == 1))
            harness.discharge(log, c, f'call {j} ({"failed" if o["raised"] else "ok"}): the caller\'s argument vector is restored',
                              bool(o['argv_restored']), zv, conc, finding=fid_state)
            if o['result'] is not None:
                got, want = o['result'].content.t, o['R'](o['requested'].t)
                harness.discharge(log, c, f'call {j}: the returned result was computed from the content the request named at the time of the call',
                                  got == want, zv, conc, finding='C08-client-stale-cache' if caching else None)
            elif not o['raised']:
                harness.discharge(log, c, f'call {j}: a result or an error', False, zv, conc)
    yield log.result()


# ---- schema generator dummy model wrapper -----------------------------------------------------------------------
def run_dummy_model(unit):
    cfg = {'harness': 'schema-generator-dummy-model'}
    log = harness.UnitLog(cfg)
    import geophires_x_schema_generator as SG

    def fn():
        w = World('CALLER_CWD', ['caller-argv'])
        PathStub, os_, sys_, Sim, Result, wopen = make_stubs(w)
        fail = bool(SymBool(z3.Bool('model_init_fails')))

        class ModelStub:
            def __init__(self, *a, **k):
                w.cwd = PKG
                if fail:
                    raise ValueError('simulated failure in Model()')
        argv_before = w.argv
        with shim.shadow((SG, 'Path', PathStub), (SG, 'os', os_), (SG, 'sys', sys_), (SG, 'Model', ModelStub)):
            try:
                SG.GeophiresXSchemaGenerator._get_dummy_model()
            except ValueError:
                pass
        return w.cwd == 'CALLER_CWD', w.argv is argv_before
    zv = {'model_init_fails': z3.Bool('model_init_fails')}
    for pr in core.explore(fn, max_paths=10):
        log.path(pr)
        if pr.error is not None:
            raise pr.error
        harness.reachable(log, pr.ctx, 1000)
        cwd_ok, argv_ok = pr.value
        harness.discharge(log, pr.ctx, 'schema generator dummy model: working directory restored (success or failure)', bool(cwd_ok), zv, lambda inp: (True, {}))
        harness.discharge(log, pr.ctx, 'schema generator dummy model: argument vector restored (success or failure)', bool(argv_ok), zv, lambda inp: (True, {}))
    yield log.result()


# ---- fresh objects per run: nothing a run reads may reach a later, freshly constructed run -----------------------
def _state(obj, model):
    """every Parameter / OutputParameter value reachable from a freshly built object and its model."""
    out = {}
    holders = [('obj', obj)] + [(cn, getattr(model, cn, None)) for cn in gx.COMPONENTS]
    for hn, h in holders:
        if h is None:
            continue
        for dn in ('ParameterDict', 'OutputParameterDict'):
            for k, p in getattr(h, dn, {}).items():
                v = p.value
                if isinstance(v, list):
                    for i, e in enumerate(v):
                        out[f'{hn}.{dn}[{k}][{i}]'] = e
                    out[f'{hn}.{dn}[{k}].len'] = len(v)
                else:
                    out[f'{hn}.{dn}[{k}]'] = v
                if hasattr(p, 'DefaultValue') and isinstance(p.DefaultValue, list):
                    for i, e in enumerate(p.DefaultValue):
                        out[f'{hn}.{dn}[{k}].DefaultValue[{i}]'] = e
        # the parameter objects the holder's own attributes refer to (these are what its calculation reads; a registry shared between
        # objects can make them differ from what the dictionaries show)
        for an, p in vars(h).items():
            if gx.is_param(p) and not isinstance(p.value, (list, dict)) and not hasattr(p.value, '__len__'):
                out[f'{hn}.attribute[{an}]'] = p.value
    return out


def _base(k):
    return k.split('] ', 1)[1] if k.startswith('[objects alive') else k


def run_fresh(unit):
    from . import c07
    modn, clsn = unit['module'], unit['cls']
    P = gx.P
    hip = modn == 'hip_ra_x.hip_ra_x'
    obj0, model0, mod = c07._fresh(modn, clsn)
    pristine = _state(obj0, model0)
    names = [k for k, p in obj0.ParameterDict.items() if isinstance(p, (P.floatParameter, P.listParameter))]
    extra = []
    for k, p in obj0.ParameterDict.items():
        if isinstance(p, P.listParameter) and k in ('Gradients', 'Thicknesses'):
            pass
    for pname in names:
        prm0 = obj0.ParameterDict[pname]
        cfg = {'harness': 'fresh-objects', 'class': clsn, 'param': pname}
        log = harness.UnitLog(cfg)
        is_list = isinstance(prm0, P.listParameter)
        lo, hi = float(prm0.Min), float(prm0.Max)

        def first_run(value, symbolic):
            objA, modelA, _ = c07._fresh(modn, clsn)
            objB0, modelB0, _ = c07._fresh(modn, clsn)      # another run's objects already exist while this one reads (two requests alive in one process)
            name = vars(objA).get('ParameterDict', objA.ParameterDict)[pname].Name.strip() if False else obj0.ParameterDict[pname].Name.strip()
            if symbolic:
                tok = c07.NumStr('SYMV')
                tok.proxy = value
                entry = P.ParameterEntry(Name=name, sValue=tok, raw_entry=f'{name}, SYMV')
            else:
                entry = P.ParameterEntry(Name=name, sValue=repr(value), raw_entry=f'{name}, {value!r}')
            modelA.InputParameters = {name: entry}
            import contextlib, io
            sh = list(c07.param_shadows()) if symbolic else []
            if hip:
                sh.append((mod, 'read_input_file', lambda *a, **k: None))
            try:
                with contextlib.redirect_stdout(io.StringIO()), shim.shadow(*sh):
                    if hip:
                        objA.read_parameters()
                    else:
                        objA.read_parameters(modelA)
            except (ValueError, RuntimeError, IndexError):
                pass
            objB, modelB, _ = c07._fresh(modn, clsn)     # the next run: real constructors, nothing else
            st = _state(objB, modelB)
            for k, v in _state(objB0, modelB0).items():      # the run whose objects existed during the read
                st['[objects alive during the read] ' + k] = v
            return st

        def concrete(inp, only=None):
            st = first_run(float(inp['v']), False)
            bad = [k for k in st if _base(k) in pristine and st[k] != pristine[_base(k)] and not (isinstance(st[k], float) and st[k] != st[k])]
            return bool(bad), {'state of a freshly constructed run that differs from a pristine one': bad[:5],
                               'values': {k: (repr(pristine[_base(k)]), repr(st[k])) for k in bad[:5]}}

        def fn():
            v = core.sym('v', lo, hi)
            return first_run(v, True)
        zv = {'v': z3.Real('v')}
        n = 0
        try:
            for pr in core.explore(fn, max_paths=60):
                log.path(pr)
                n += 1
                if pr.error is not None or pr.aborted:
                    continue
                if n <= 2:
                    harness.reachable(log, pr.ctx, 1000)
                st = pr.value
                diffs = [k for k in st if _base(k) in pristine and (core.is_sym(st[k]) or st[k] != pristine[_base(k)])]
                log['obligations'] += 1
                if not diffs:
                    log['discharged'] += 1
                    log['trivial'] += 1
                    continue
                log['obligations'] -= 1
                for k in diffs[:4]:
                    val = st[k]
                    prop = core.eq(val, pristine[_base(k)]) if core.is_sym(val) and isinstance(pristine[_base(k)], (int, float)) else False
                    harness.discharge(log, pr.ctx, f'a freshly constructed run is independent of what an earlier run read ({k})', prop, zv, concrete)
        except core.Realize:
            log.note(f'{clsn}/{pname}: post-read code realises the value; not decided')
        yield log.result()


def units(tier, seed):
    us = []
    fresh_classes = [('geophires_x.Reservoir', 'Reservoir'), ('geophires_x.TDPReservoir', 'TDPReservoir'), ('geophires_x.WellBores', 'WellBores'),
                     ('geophires_x.SurfacePlant', 'SurfacePlant'), ('geophires_x.Economics', 'Economics'), ('geophires_x.EconomicsAddOns', 'EconomicsAddOns')]
    if tier == 'thorough':
        fresh_classes = list(gx.SOURCE_CLASSES)
    fresh_classes = fresh_classes + [('hip_ra_x.hip_ra_x', 'HIP_RA_X')]
    for modn, clsn in fresh_classes:
        us.append({'harness': 'fresh', 'module': modn, 'cls': clsn})
    for H in HS[tier]:
        for caching in (True, False):
            us.append({'harness': 'history', 'client': 'geophires', 'H': H, 'caching': caching})
        us.append({'harness': 'history', 'client': 'hip', 'H': H, 'caching': False})
    us.append({'harness': 'dummy'})
    from . import c08files, c08seed, c08state
    us += c08files.units(tier)
    us += c08seed.units(tier)
    us += c08state.units(tier)
    return us


def run_unit(unit):
    if unit['harness'] == 'hash-seed':
        from . import c08seed
        yield from c08seed.run_unit(unit)
    elif unit['harness'] == 'client-real-files':
        from . import c08files
        yield from c08files.run_unit(unit)
    elif unit['harness'] == 'global-state':
        from . import c08state
        yield from c08state.run_unit(unit)
    elif unit['harness'] == 'history':
        yield from run_history_unit(unit)
    elif unit['harness'] == 'fresh':
        yield from run_fresh(unit)
    else:
        yield from run_dummy_model(unit)


def replay(cex):
    cfg = cex['config']
    return concrete_history(cfg['client'], cex['inputs'], cfg['H'], cfg['caching'])
