"""C01 — levelized cost equals its documented definition (DESIGN §4 C01, Appendix A)."""
from __future__ import annotations

import types

import numpy as np
import z3

from .. import core, gx, harness
from ..core import sym, symarr, SymReal

from geophires_x import Economics as E
from geophires_x.OptionList import EndUseOptions, PlantType, EconomicModel

ID = 'C01'
FUNCTIONS = ['geophires_x.Economics:CalculateLCOELCOHLCOC', 'geophires_x.Economics:Economics.Calculate', 'geophires_x.EconomicsAddOns:EconomicsAddOns.Calculate']
UNIT_TIMEOUT = {'quick': 200, 'thorough': 1500}
LS = {'quick': [1, 2, 3], 'thorough': [1, 2, 3, 4, 5, 6, 8]}
META = {
    'explanation': 'The real Economics.CalculateLCOELCOHLCOC is executed on z3-term proxies for every economic model x end-use x '
                   'plant type x lifetime L in the bound; all cost, rate and yearly energy inputs are independent symbolic reals '
                   '(each year its own variable). The returned (LCOE, LCOH, LCOC) terms are compared by z3 (nonlinear real '
                   'arithmetic) with an independently written reference (DESIGN Appendix A); unsat of "implementation != '
                   'reference" means equality for every real-valued input with non-zero denominators. Level B: the real '
                   'Economics.Calculate (with and without the real EconomicsAddOns.Calculate) runs on a real Model with capital cost, O&M, '
                   'the yearly energy series and the add-on energy symbolic; the LCOE/LCOH/LCOC it finally reports are proved equal to the '
                   'reference formula applied to the quantities the run reports (post-add-on energy series, CCap, Coam, averaged costs).',
    'bounds': {'quick': {'L': LS['quick'], 'configurations': '3 economic models x 8 end-use options x 9 plant types'},
               'thorough': {'L': LS['thorough'], 'configurations': '3 economic models x 8 end-use options x 9 plant types'}},
    'outside': ['lifetimes outside the listed L', 'IEEE rounding (claims are over the reals)', 'AGS/CLGS economic model 4, SUTRA, S-DAC-GT',
                'inputs that make a denominator zero (no result is produced)'],
    'assumptions': ['real arithmetic instead of IEEE doubles', 'every denominator that the code or the reference divides by is non-zero (definedness assumptions, recorded per path)'],
    'stubs': ['none: numpy (object dtype) runs natively over the proxies'],
}

SC = ['CCap', 'Coam', 'CAPEX_heat_electricity_plant_ratio', 'FCR', 'inflrateconstruction', 'averageannualpumpingcosts',
      'averageannualheatpumpelectricitycost', 'averageannualngcost', 'discountrate', 'FIB', 'BIR', 'CTR', 'EIR', 'RINFL',
      'PTR', 'RITC', 'GTR']
ARR_SP = ['NetkWhProduced', 'HeatkWhProduced', 'cooling_kWh_Produced', 'PumpingkWh', 'heat_pump_electricity_kwh_used']
COGEN = [EndUseOptions.COGENERATION_TOPPING_EXTRA_HEAT, EndUseOptions.COGENERATION_TOPPING_EXTRA_ELECTRICITY,
         EndUseOptions.COGENERATION_BOTTOMING_EXTRA_ELECTRICITY, EndUseOptions.COGENERATION_BOTTOMING_EXTRA_HEAT,
         EndUseOptions.COGENERATION_PARALLEL_EXTRA_HEAT, EndUseOptions.COGENERATION_PARALLEL_EXTRA_ELECTRICITY]


def V(v):
    return types.SimpleNamespace(value=v)


def build(vals, em, eu, pt, n):
    """vals: dict name -> number/proxy (scalars) or list (arrays).  Returns (econ-like, model-like)."""
    e = types.SimpleNamespace()
    for nm in SC:
        setattr(e, nm, V(vals[nm]))
    e.econmodel = V(em)
    e.annualngcost = V(_arr(vals['annualngcost']))
    sp = types.SimpleNamespace(enduse_option=V(eu), plant_type=V(pt), plant_lifetime=V(n))
    for nm in ARR_SP:
        setattr(sp, nm, V(_arr(vals[nm])))
    sp.annual_heating_demand = V(vals['annual_heating_demand'])
    sp.electricity_cost_to_buy = V(vals['electricity_cost_to_buy'])
    return e, types.SimpleNamespace(surfaceplant=sp)


def _arr(xs):
    if any(isinstance(x, SymReal) for x in xs):
        return core.as_symarray(list(xs))
    return np.array([float(x) for x in xs])


class _Mul:
    """unit factor applied by multiplication *after* the quantity is formed (constants are never pre-multiplied
    with each other in floats: the claim is over exact reals and the literals are the code's own doubles)."""

    def __init__(self, k, inner=None):
        self.k, self.inner = k, inner

    def __mul__(self, o):
        if isinstance(o, _Mul):
            return _Mul(self.k, o)
        x = o if self.inner is None else self.inner * o
        return x * self.k


def kind_of(eu, pt):
    if eu == EndUseOptions.ELECTRICITY:
        return 'elec'
    if eu in COGEN:
        return 'cogen'
    if pt == PlantType.ABSORPTION_CHILLER:
        return 'ac'
    if pt == PlantType.HEAT_PUMP:
        return 'hp'
    if pt == PlantType.DISTRICT_HEATING:
        return 'dh'
    return 'du'


def oracle(v, em, eu, pt, n):
    """Reference definition (DESIGN Appendix A), plain arithmetic: runs on proxies and on floats alike."""
    g = v.__getitem__
    E_, H_, Q_, Pk, U_, G_ = (list(g(k)) for k in ('NetkWhProduced', 'HeatkWhProduced', 'cooling_kWh_Produced', 'PumpingkWh',
                                                   'heat_pump_electricity_kwh_used', 'annualngcost'))
    Dm, pi = g('annual_heating_demand'), g('electricity_cost_to_buy')
    C, O, iota, rho = g('CCap'), g('Coam'), g('inflrateconstruction'), g('CAPEX_heat_electricity_plant_ratio')
    K8, K2, B = _Mul(1E8), _Mul(1E2), _Mul(2.931)
    mean = lambda xs: sum(xs[1:], xs[0]) / n
    tot = lambda xs: sum(xs[1:], xs[0])
    kind = kind_of(eu, pt)
    Z = 0.0
    if em == EconomicModel.FCR:
        cap = lambda c: g('FCR') * (1 + iota) * c
        pump, hpc, ngc = g('averageannualpumpingcosts'), g('averageannualheatpumpelectricitycost'), g('averageannualngcost')
        if kind == 'elec':
            return K8 * (cap(C) + O) / mean(E_), Z, Z
        if kind == 'du':
            return Z, B * K8 * (cap(C) + O + pump) / mean(H_), Z
        if kind == 'ac':
            return Z, Z, B * K8 * (cap(C) + O + pump) / mean(Q_)
        if kind == 'hp':
            return Z, B * K8 * (cap(C) + O + pump + hpc) / mean(H_), Z
        if kind == 'dh':
            return Z, B * K2 * (cap(C) + O + pump + ngc) / Dm, Z
        return K8 * (cap(rho * C) + rho * O) / mean(E_), B * K8 * (cap((1 - rho) * C) + (1 - rho) * O + pump) / mean(H_), Z
    pc = [pi * p / 1000000 for p in Pk]
    hc = [pi * u / 1000000 for u in U_]
    if em == EconomicModel.STANDARDIZED_LEVELIZED_COST:
        d = [1 / (1 + g('discountrate')) ** t if t else 1.0 for t in range(n)]
        S = lambda xs: tot([x * dd for x, dd in zip(xs, d)])
        if kind == 'elec':
            return K8 * ((1 + iota) * C + S([O] * n)) / S(E_), Z, Z
        if kind == 'du':
            return Z, B * K8 * ((1 + iota) * C + S([O + x for x in pc])) / S(H_), Z
        if kind == 'ac':
            return Z, Z, B * K8 * ((1 + iota) * C + S([O + x for x in pc])) / S(Q_)
        if kind == 'hp':
            return Z, B * K8 * ((1 + iota) * C + S([O + x + y for x, y in zip(pc, hc)])) / S(H_), Z
        if kind == 'dh':
            return Z, B * K2 * ((1 + iota) * C + S([O + x + y for x, y in zip(pc, G_)])) / S([Dm] * n), Z
        return (K8 * ((1 + iota) * rho * C + S([rho * O] * n)) / S(E_),
                B * K8 * ((1 + iota) * (1 - rho) * C + S([(1 - rho) * O + x for x in pc])) / S(H_), Z)
    # BICYCLE
    i = g('FIB') * g('BIR') * (1 - g('CTR')) + (1 - g('FIB')) * g('EIR')
    CRF = i / (1 - 1 / (1 + i) ** n)
    dv = [1 / (1 + i) ** t for t in range(1, n + 1)]
    iv = [(1 + g('RINFL')) ** t for t in range(1, n + 1)]

    def lev(Cx, Ox_series, X):
        Ch = (1 + iota) * Cx
        Ncap = tot([Ch * CRF * d for d in dv])
        Nfc = tot([Ch * g('PTR') * a * d for a, d in zip(iv, dv)])
        Nit = tot([g('CTR') / (1 - g('CTR')) * (Ch * CRF - Cx / n) * d for d in dv])
        Nitc = Ch * g('RITC') / (1 - g('CTR'))
        Nom = tot([o * a * d for o, a, d in zip(Ox_series, iv, dv)])
        Ngrt = g('GTR') / (1 - g('GTR')) * (Ncap + Nom + Nfc + Nit - Nitc)
        return (Ncap + Nom + Nfc + Nit + Ngrt - Nitc) / tot([x * a * d for x, a, d in zip(X, iv, dv)])
    if kind == 'elec':
        return K8 * lev(C, [O] * n, E_), Z, Z
    if kind == 'du':
        return Z, B * K8 * lev(C, [O + x for x in pc], H_), Z
    if kind == 'ac':
        return Z, Z, B * K8 * lev(C, [O + x for x in pc], Q_)
    if kind == 'hp':
        return Z, B * K8 * lev(C, [O + x + y for x, y in zip(pc, hc)], H_), Z
    if kind == 'dh':
        return Z, B * K2 * lev(C, [O + x + y for x, y in zip(pc, G_)], [Dm] * n), Z
    return K8 * lev(rho * C, [rho * O] * n, E_), B * K8 * lev((1 - rho) * C, [(1 - rho) * O] * n, H_), Z


def variables(n):
    names = list(SC) + ['annual_heating_demand', 'electricity_cost_to_buy']
    for a in ARR_SP + ['annualngcost']:
        names += [f'{a}[{i}]' for i in range(n)]
    return names


def symbolic_vals(n, pre=''):
    v = {nm: sym(pre + nm) for nm in SC + ['annual_heating_demand', 'electricity_cost_to_buy']}
    for a in ARR_SP + ['annualngcost']:
        v[a] = [sym(f'{pre}{a}[{i}]') for i in range(n)]
    return v


def float_vals(inputs, n, pre=''):
    v = {nm: float(inputs.get(pre + nm, 0.0)) for nm in SC + ['annual_heating_demand', 'electricity_cost_to_buy']}
    for a in ARR_SP + ['annualngcost']:
        v[a] = [float(inputs.get(f'{pre}{a}[{i}]', 0.0)) for i in range(n)]
    return v


def concrete(cfg, inputs):
    em, eu, pt, n = EconomicModel(cfg['em']), EndUseOptions(cfg['eu']), PlantType(cfg['pt']), cfg['L']
    v = float_vals(inputs, n)
    e, m = build(v, em, eu, pt, n)
    if cfg.get('after_an_earlier_call'):
        # the earlier evaluation in the same process, on its own inputs
        e0, m0 = build(float_vals(inputs, n, 'first.'), em, eu, pt, n)
        try:
            E.CalculateLCOELCOHLCOC(e0, m0)
        except ZeroDivisionError:
            pass
    try:
        out = E.CalculateLCOELCOHLCOC(e, m)
        ref = oracle(v, em, eu, pt, n)
    except ZeroDivisionError:
        return False, {'note': 'division by zero in floats'}
    out = [float(x) for x in out]
    ref = [float(x) for x in ref]
    bad = [i for i in range(3) if not harness.close(out[i], ref[i], rel=1e-7)]
    return bool(bad), {'reported(LCOE,LCOH,LCOC)': out, 'reference': ref, 'differs_in': [('LCOE', 'LCOH', 'LCOC')[i] for i in bad]}


def units(tier, seed):
    us = []
    for n in LS[tier]:
        for em in (EconomicModel.FCR, EconomicModel.STANDARDIZED_LEVELIZED_COST, EconomicModel.BICYCLE):
            us.append({'em': em.value, 'L': n})
    for (kind, em, L, K, addon) in CALC_BOUNDS[tier]:
        us.append({'harness': 'calculate', 'kind': kind, 'em': em, 'L': L, 'K': K, 'addon': addon})
    # the levelized cost of a run is the formula on THAT run's inputs also when another evaluation took place earlier in the same process
    # (client, Monte-Carlo worker, a loop over Models): two evaluations on independent symbolic inputs, the second one is checked
    for em in (EconomicModel.FCR, EconomicModel.STANDARDIZED_LEVELIZED_COST, EconomicModel.BICYCLE):
        for n in ((2,) if tier == 'quick' else (2, 3)):
            us.append({'em': em.value, 'L': n, 'history': 2})
    return us


# ---- level B: the value Economics.Calculate finally reports, with and without add-ons -------------------------------------
CALC_BOUNDS = {
    'quick': [(k, em, 2, 1, a) for k in ('electricity', 'direct-use', 'cogen-topping') for em in (1, 2, 3) for a in (0, 1)] + [('sbt', 3, 2, 1, 0), ('chiller', 3, 2, 1, 1), ('heat-pump', 2, 2, 1, 1)],
    'thorough': [(k, em, L, K, a) for k in ('electricity', 'direct-use', 'chiller', 'heat-pump', 'district-heating', 'cogen-topping', 'cogen-bottoming', 'cogen-parallel')
                 for em in (1, 2, 3) for (L, K, a) in ((2, 1, 0), (2, 1, 1), ((3, 2, 2) if em != 2 else (3, 2, 0)))] + [('sbt', em, 2, 1, 0) for em in (1, 2, 3)],
    # (standard model: the largest configuration runs without add-ons - with two add-ons the symbolic NPV-convention flag, purchase rate and sale prices push a unit past its 1500 s limit, measured)
}
META['bounds']['quick']['level B (kind, economic model, L, K, add-ons)'] = [list(x) for x in CALC_BOUNDS['quick']]
META['bounds']['thorough']['level B (kind, economic model, L, K, add-ons)'] = [list(x) for x in CALC_BOUNDS['thorough']]


def calc_spec(cfg):
    from . import c04
    L = cfg['L']
    s = [('economics.totalcapcost', 'real', 0, 1000), ('economics.oamtotalfixed', 'real', 0, 100)]
    # the rate inputs of the selected model are symbolic too (concrete doubles would make the two sides differ by float rounding of constants)
    rates = {1: ['FCR', 'inflrateconstruction'], 2: ['discountrate', 'inflrateconstruction'],
             3: ['FIB', 'BIR', 'CTR', 'EIR', 'RINFL', 'PTR', 'RITC', 'GTR', 'inflrateconstruction']}[cfg['em']]
    s += [(f'economics.{r}', 'real', 0.001, 0.5) for r in rates]
    s += [('economics.AnnualLicenseEtc', 'real', -100, 100), ('economics.TaxRelief', 'real', 0, 100)]      # annual fees / tax relief are part of the reported O&M
    # the electricity purchase rate (0 is an accepted rate) prices pumping / heat-pump electricity; the sale prices must not reach a levelized cost
    s += [('surfaceplant.electricity_cost_to_buy', 'real', 0, 1)]
    s += [(f'economics.{p_}StartPrice', 'real', 0, 100) for p_ in c04.products_of(cfg['kind'])]
    if cfg['em'] == 2:
        s += [('economics.discount_initial_year_cashflow', 'bool', None, None)]      # the NPV convention flag must not reach the levelized cost
    for p in c04.products_of(cfg['kind']):
        s += [(f'surfaceplant.{c04.PRODUCTS[p]}[{i}]', 'real', None, None) for i in range(L)]
    for j in range(cfg.get('addon', 0)):
        s += [(f'addeconomics.AddOnElecGainedPerYear[{j}]', 'real', None, None), (f'addeconomics.AddOnHeatGainedPerYear[{j}]', 'real', None, None)]
    return s


def calc_drive(cfg, vals, symbolic):
    from . import c04
    from .. import econ
    m = c04.prepared({k: v_ for k, v_ in cfg.items() if k != "harness"}).reset()
    v = dict(vals)
    v.update({'economics.totalcapcost.Valid': True, 'economics.oamtotalfixed.Valid': True})
    if cfg.get('addon') and symbolic:
        for arr in ('TotalkWhProduced', 'NetkWhProduced', 'HeatkWhProduced'):
            cur = getattr(m.surfaceplant, arr).value
            if hasattr(cur, '__len__') and not isinstance(cur, core.SymArray):
                getattr(m.surfaceplant, arr).value = core.as_symarray([float(x) for x in cur])
    econ.install(m, v)
    econ.run_econ(m, symbolic=symbolic)
    return m


def reported(m, n):
    """the quantities the run reports, in the shape the reference formula takes."""
    e, sp = m.economics, m.surfaceplant
    v = {nm: getattr(e, nm).value for nm in SC}

    def series(x):
        try:
            x = list(x)
        except TypeError:
            x = [x] * n
        return (x + [0.0] * n)[:n] if len(x) < n else x[:n]
    for a in ARR_SP:
        v[a] = series(getattr(sp, a).value) if hasattr(sp, a) else [0.0] * n
    v['annualngcost'] = series(e.annualngcost.value)
    v['annual_heating_demand'] = sp.annual_heating_demand.value if hasattr(sp, 'annual_heating_demand') else 0.0
    v['electricity_cost_to_buy'] = sp.electricity_cost_to_buy.value
    return v


def calc_concrete(cfg, inputs, only=None):
    from .. import econ
    spec = calc_spec(cfg)
    vals = econ.concrete_vals(spec, inputs)
    n = cfg['L']
    try:
        m = calc_drive(cfg, vals, symbolic=False)
        ref = oracle(reported(m, n), EconomicModel.from_int(cfg['em']), EndUseOptions.from_int(cfg['eu']), PlantType.from_int(cfg['pt']), n)
    except ZeroDivisionError:
        return False, {'note': 'division by zero in floats'}
    e = m.economics
    out = [float(e.LCOE.value), float(e.LCOH.value), float(e.LCOC.value)]
    ref = [float(x) for x in ref]
    bad = [nm for nm, o, r in zip(('LCOE', 'LCOH', 'LCOC'), out, ref) if not harness.close(o, r, rel=1e-7) and (only is None or nm == only)]
    return bool(bad), {'reported(LCOE,LCOH,LCOC)': out, 'reference on the reported quantities': ref, 'differs_in': bad,
                       'reported energy': {a: [float(x) for x in np.ravel(getattr(m.surfaceplant, a).value)][:n] for a in ('NetkWhProduced', 'HeatkWhProduced') if hasattr(m.surfaceplant, a)}}


def run_calc_unit(unit):
    from . import c04
    from .. import econ
    if unit['kind'] == 'sbt':       # closed-loop family: the levelized cost reported by SBTEconomics.Calculate
        from . import c03
        cfg = {k: v for k, v in c03.sbt_cfg({}).items() if k != 'flags'}
        cfg['em'] = unit['em']
    else:
        cfg = c04.cfg_of(unit['kind'], unit['L'], unit['K'], False, addon=unit['addon'], em=unit['em'])
    cfg['harness'] = 'calculate'
    tmo = 20000 if unit['tier'] == 'quick' else 90000
    n = cfg['L']
    spec = calc_spec(cfg)
    log = harness.UnitLog({k: v for k, v in cfg.items() if k != 'extra'})
    c04.prepared({k: v for k, v in cfg.items() if k != 'harness'})
    em, eu, pt = EconomicModel.from_int(cfg['em']), EndUseOptions.from_int(cfg['eu']), PlantType.from_int(cfg['pt'])

    def fn():
        vals, zv = econ.make_symbolic(spec)
        m = calc_drive(cfg, vals, symbolic=True)
        e = m.economics
        return zv, (e.LCOE.value, e.LCOH.value, e.LCOC.value), oracle(reported(m, n), em, eu, pt, n)
    def probe():
        import random
        rnd = random.Random(1)
        for j in range(3):
            inp = {}
            for name, kind, lo_, hi_ in spec:
                if kind != 'real':
                    continue
                if 'Produced' in name:
                    inp[name] = 3.0e7 * (1 + 0.1 * rnd.random())
                elif 'AddOn' in name:
                    inp[name] = 1.0e6 * (1 + rnd.random())
                else:
                    a, b = (lo_ if lo_ is not None else 0.0), (hi_ if hi_ is not None else 1.0)
                    inp[name] = a + (b - a) * (0.25 + 0.5 * rnd.random())
            yield inp
    k = 0
    for pr in core.explore(fn, max_paths=4000):
        log.path(pr)
        k += 1
        if pr.error is not None:
            raise pr.error
        if pr.aborted:
            continue
        zv, out, ref = pr.value
        c = pr.ctx
        if k <= 30 or k % 20 == 0:
            harness.reachable(log, c, 3000)
        for nm, o, rf in zip(('LCOE', 'LCOH', 'LCOC'), out, ref):
            lo, lr = core.lift(o), core.lift(rf)
            d = lo - lr
            robust = z3.And(z3.Or(d > 0.01 * lr, d < -0.01 * lr), lr > 0.01, lr < 1000)
            harness.discharge(log, c, f'{nm} finally reported by Economics.Calculate == reference formula on the reported quantities', lo == lr, zv,
                              lambda inp, nm=nm: calc_concrete(cfg, inp, only=nm), timeout_ms=tmo, robust=robust, sample=(k == 1), ctxfree_ms=tmo,
                              desc=f'{nm} [{cfg["kind"]} em={cfg["em"]} L={n} K={cfg["K"]} add-ons={cfg.get("addon", 0)}]', probe=probe)
        if log['cex'] or log['inconclusive']:      # hand over what was found so far: a later time-out of the unit must not lose it
            yield log.result()
            log = harness.UnitLog({k_: v for k_, v in cfg.items() if k_ != 'extra'})
    yield log.result()


EXAMPLE = {'CCap': 70.0, 'Coam': 2.5, 'CAPEX_heat_electricity_plant_ratio': 0.6, 'FCR': 0.05, 'inflrateconstruction': 0.05,
           'averageannualpumpingcosts': 0.3, 'averageannualheatpumpelectricitycost': 0.4, 'averageannualngcost': 0.2,
           'discountrate': 0.07, 'FIB': 0.5, 'BIR': 0.05, 'CTR': 0.3, 'EIR': 0.1, 'RINFL': 0.02, 'PTR': 0.01, 'RITC': 0.1,
           'GTR': 0.05, 'annual_heating_demand': 120.0, 'electricity_cost_to_buy': 0.07}


def example_inputs(n, scale=1.0):
    d = dict(EXAMPLE)
    for a, base in zip(ARR_SP + ['annualngcost'], (4.1e7, 1.9e8, 9.0e7, 3.0e6, 2.0e7, 0.15)):
        for i in range(n):
            d[f'{a}[{i}]'] = base * (1 - 0.03 * i) * scale
    return d


def run_unit(unit):
    if unit.get('harness') == 'calculate':
        yield from run_calc_unit(unit)
        return
    em, n = EconomicModel(unit['em']), unit['L']
    tmo = 20000 if unit['tier'] == 'quick' else 120000
    hist = bool(unit.get('history'))
    HIST_PLANTS = (PlantType.SUB_CRITICAL_ORC, PlantType.ABSORPTION_CHILLER, PlantType.HEAT_PUMP, PlantType.DISTRICT_HEATING, PlantType.INDUSTRIAL)
    HIST_USES = (EndUseOptions.ELECTRICITY, EndUseOptions.HEAT, EndUseOptions.COGENERATION_TOPPING_EXTRA_HEAT)
    for eu in EndUseOptions:
        for pt in PlantType:
            if hist and (eu not in HIST_USES or pt not in HIST_PLANTS or (eu != EndUseOptions.HEAT and pt != PlantType.SUB_CRITICAL_ORC)):
                continue
            cfg = {'em': em.value, 'eu': eu.value, 'pt': pt.value, 'L': n, 'names': f'{em.name}/{eu.name}/{pt.name}'}
            if hist:
                cfg['after_an_earlier_call'] = True
            log = harness.UnitLog(cfg)

            def fn():
                if hist:
                    core.HASH_CONST = True      # whether a key kept from the first call equals one of the second call is the solver's decision
                    try:
                        v0 = symbolic_vals(n, 'first.')
                        e0, m0 = build(v0, em, eu, pt, n)
                        E.CalculateLCOELCOHLCOC(e0, m0)
                        v = symbolic_vals(n)
                        e, m = build(v, em, eu, pt, n)
                        out = E.CalculateLCOELCOHLCOC(e, m)
                    finally:
                        core.HASH_CONST = False
                    return v, out, oracle(v, em, eu, pt, n)
                v = symbolic_vals(n)
                e, m = build(v, em, eu, pt, n)
                out = E.CalculateLCOELCOHLCOC(e, m)
                ref = oracle(v, em, eu, pt, n)
                return v, out, ref
            stub_gap = None
            for pr in core.explore(fn, max_paths=50, catch=(Exception,)):
                log.path(pr)
                if isinstance(pr.error, AttributeError) and 'SimpleNamespace' in str(pr.error):
                    # the function reads state that the documented inputs (DESIGN Appendix A) do not include: level A cannot stand in for the
                    # object that Economics.Calculate prepares - this configuration is decided by level B only (through the real Calculate)
                    stub_gap = str(pr.error)
                    break
                if pr.error is not None:
                    raise pr.error
                v, out, ref = pr.value
                c = pr.ctx
                zvars = {nm: z3.Real(nm) for nm in variables(n)}
                if hist:
                    zvars.update({'first.' + nm: z3.Real('first.' + nm) for nm in variables(n)})
                # reachability twin: concrete witness first (example values are a model of the path condition)
                ex = example_inputs(n)
                wit = [zvars[k] == core.rv(val) for k, val in ex.items()]
                r, _, _ = core.check_sat(c.all_constraints() + wit, 5000)
                if r == 'sat':
                    log['reachable'] += 1
                else:
                    harness.reachable(log, c)
                for nm, o, rf in zip(('LCOE', 'LCOH', 'LCOC'), out, ref):
                    lo, lr = core.lift(o), core.lift(rf)
                    prop = lo == lr
                    if z3.is_true(z3.simplify(prop)):
                        log['trivial'] += 1
                    robust = z3.And(lo - lr > 1e-3, lo - lr < 1e6) if False else None
                    def hist_probe():
                        # first call on (a scaled copy of) the example values; the second call differs from it in exactly one scalar - what a
                        # value kept from the first call would have to depend on.  Every probe uses its own scaling, so that something kept
                        # by an earlier probe in this process cannot stand in for the first call of a later one.
                        for k_, X in enumerate(SC):
                            base = {a: b * (1 + 0.01 * (k_ + 1)) for a, b in example_inputs(n).items()}
                            d = dict(base)
                            d.update({'first.' + a: b for a, b in base.items()})
                            d[X] = base.get(X, 0.0) * 0.5 + 0.01
                            yield d
                    harness.discharge(log, c, f'{nm} == reference' + (' (second evaluation in one process)' if hist else ''), prop, zvars, lambda inp: concrete(cfg, inp),
                                      timeout_ms=tmo, sample=(eu == EndUseOptions.ELECTRICITY and pt == PlantType.SUB_CRITICAL_ORC),
                                      desc=f'{nm}_impl != {nm}_ref under path condition; {cfg["names"]} L={n}', probe=(hist_probe if hist else None))
                # encoding self-check: evaluate symbolic terms at the example point vs the float run
                if not hist:
                    _selfcheck(log, cfg, out, zvars, ex)
            if stub_gap:
                log['inconclusive'].append({'obligation': 'LCOE/LCOH/LCOC == reference (level A)', 'why': 'the function reads state outside its documented inputs: ' + stub_gap[:120]})
            yield log.result()


def _selfcheck(log, cfg, out, zvars, ex):
    em, eu, pt, n = EconomicModel(cfg['em']), EndUseOptions(cfg['eu']), PlantType(cfg['pt']), cfg['L']
    e, m = build(float_vals(ex, n), em, eu, pt, n)
    fl = [float(x) for x in E.CalculateLCOELCOHLCOC(e, m)]
    sub = [(zvars[k], core.rv(val)) for k, val in ex.items()]
    for o, f in zip(out, fl):
        t = z3.simplify(z3.substitute(core.lift(o), *sub))
        val = core.model_value(z3.Model.__new__(z3.Model), t) if False else None
        if z3.is_rational_value(t):
            sv = t.numerator_as_long() / t.denominator_as_long()
        else:
            sv = float(t.as_decimal(20).rstrip('?')) if hasattr(t, 'as_decimal') else float('nan')
        rel = abs(sv - f) / max(1e-300, abs(f)) if f else abs(sv)
        log['selfcheck_cases'] += 1
        log['selfcheck_max_rel'] = max(log['selfcheck_max_rel'], rel)
        if rel > 1e-9:
            raise core.HarnessError(f'encoding self-check failed: symbolic {sv} vs float {f} in {cfg}')


def replay(cex):
    if cex['config'].get('harness') == 'calculate':
        return calc_concrete(cex['config'], cex['inputs'])
    return concrete(cex['config'], cex['inputs'])
