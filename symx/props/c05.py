"""C05 — resource temperature and thermal drawdown obey the model definition (DESIGN §4 C05)."""
from __future__ import annotations

import numpy as np
import z3

from .. import core, gx, harness, shim
from ..core import eq, sand, sor, snot, sym, SymReal, SymBool

from geophires_x import Reservoir as R
from geophires_x import WellBores as WB
from geophires_x import MPFReservoir, LHSReservoir, SFReservoir, TDPReservoir

ID = 'C05'
FUNCTIONS = ['geophires_x.Reservoir:Reservoir.Calculate', 'geophires_x.TDPReservoir:TDPReservoir.Calculate',
             'geophires_x.SFReservoir:SFReservoir.Calculate', 'geophires_x.MPFReservoir:MPFReservoir.Calculate',
             'geophires_x.LHSReservoir:LHSReservoir.Calculate', 'geophires_x.WellBores:WellBores.Calculate']
UNIT_TIMEOUT = {'quick': 240, 'thorough': 1500}
NS = {'quick': [(2, 1), (2, 2)], 'thorough': [(2, 1), (2, 2), (3, 2), (4, 2), (2, 4)]}
META = {
    'explanation': 'The real Reservoir.Calculate layer walk runs on proxies for 1..4 gradient segments with surface temperature, maximum '
                   'temperature, depth, every gradient and every thickness symbolic; the real TDP/SF/MPF/LHS Calculate run on top of it '
                   '(inverse-Laplace values are fresh unknowns, erf an uninterpreted monotone function into [0,1]); the real '
                   'WellBores.Calculate runs with an arbitrary symbolic reservoir-temperature series and drawdown limit through its '
                   'redrilling block (hydraulics stubbed). z3 proves: Trock = Tsurf + integral of the gradients to the (possibly reduced) '
                   'depth, Trock <= Tmax, depth reduced only when needed; Tres[0] = Trock; production temperature never below the '
                   'drawdown limit, profile = first cycle tiled, redrill count; models 3/4: Tres <= Trock and non-increasing.',
    'bounds': {t: {'segments': [1, 2, 3, 4], '(lifetime, time steps per year)': NS[t], 'redrilling series length N': [2, 3, 4] if t == 'quick' else [2, 3, 4, 5, 6, 8]} for t in NS},
    'outside': ['models 1-2 beyond element 0 (excluded by the property)', 'Ramey wellbore temperature drop inside the redrilling harness (constant drop used)',
                'series longer than the bound', 'IEEE rounding', 'SBT/UPP/TOUGH2/SUTRA reservoirs'],
    'assumptions': ['real arithmetic', 'inputs inside declared ranges after the reader\'s unit normalisation (gradient 1e-6..0.5 C/m, thickness 10..100000 m, '
                    'depth 100..15000 m, Tmax 50..600 C, Tsurf -50..50 C)', 'bottom-hole temperature >= injection temperature for the monotone / upper-bound clause '
                    '(the complementary region is queried separately as finding C05-trock-below-tinj)',
                    'erf: monotone non-decreasing, erf(x) in [0,1] for x >= 0 (axioms instantiated on the applied arguments)',
                    'water heat capacity / density: arbitrary positive values (CoolProp stubbed)'],
    'stubs': ['Reservoir.heat_capacity_water_J_per_kg_per_K / density_water_kg_per_m3 -> fresh positive reals', 'Reservoir.np / WellBores.np -> NPShim',
              'MPFReservoir/LHSReservoir.invertlaplace -> fresh real per call; float -> proxy-aware', 'SFReservoir.math -> MathShim (erf, sqrt as UFs)',
              'WellBores hydraulic helpers (WellPressureDrop, InjectionWellPressureDrop, Prod/Inj...PumpingPower...) -> inert stubs in the redrilling harness'],
}


def _pos_stub(name):
    def f(*a, **k):
        c = core.ctx()
        v = c.fresh_real(name)
        c.add_side(v > 0)
        return SymReal(v)
    return f


class NPWalk(shim.NPShim):
    def argmax(self, a, *x, **k):
        if isinstance(a, np.ndarray) and a.dtype == object and any(isinstance(e, SymBool) for e in a):
            for i, b in enumerate(a):
                if b:
                    return i
            return 0
        return np.argmax(a, *x, **k)


NPW = NPWalk()

RES_SHADOWS = [(R, 'heat_capacity_water_J_per_kg_per_K', _pos_stub('cpwater')), (R, 'density_water_kg_per_m3', _pos_stub('rhowater')),
               (R, 'np', NPW), (R, 'math', shim.MATH)]

_MODELS = {}


def base_model(resmodel, S, L, T):
    key = (resmodel, S, L, T)
    if key not in _MODELS:
        p = {'Reservoir Model': resmodel, 'Reservoir Depth': 3, 'Number of Segments': S, 'Maximum Temperature': 400,
             'Number of Production Wells': 2, 'Number of Injection Wells': 2, 'Production Flow Rate per Well': 55,
             'Injection Temperature': 50, 'Plant Lifetime': L, 'Time steps per year': T, 'End-Use Option': 2,
             'Power Plant Type': 9, 'Print Output to Console': 0, 'Ramey Production Wellbore Model': 0,
             'Production Wellbore Temperature Drop': 5, 'Reservoir Impedance': 0.05, 'Maximum Drawdown': 0.3}
        for i in range(S):
            p[f'Gradient {i + 1}'] = 40 + 10 * i
            if i < S - 1:
                p[f'Thickness {i + 1}'] = 1.0 + 0.5 * i
        if resmodel in (1, 2):
            p.update({'Reservoir Volume Option': 1, 'Fracture Shape': 1, 'Fracture Area': 200000, 'Number of Fractures': 12,
                      'Fracture Separation': 80})
        elif resmodel == 3:
            p.update({'Reservoir Volume Option': 4, 'Reservoir Volume': 1e9, 'Drawdown Parameter': 0.0001})
        else:
            p.update({'Reservoir Volume Option': 4, 'Reservoir Volume': 1e9, 'Drawdown Parameter': 0.005})
        m = gx.make_model(p)
        _MODELS[key] = (m, gx.Snapshot(m))
    m, snap = _MODELS[key]
    snap.restore()
    getattr(R.Reservoir.Calculate, 'cache_clear', lambda: None)()     # the memo is an implementation detail
    return m


WALK_RANGES = {'Tsurf': (-50, 50), 'Tmax': (50, 600), 'depth': (100, 15000), 'gradient': (1e-6, 0.5), 'thickness': (10, 100000)}


def walk_inputs(S, symbolic, inp=None):
    names = ['Tsurf', 'Tmax', 'depth'] + [f'gradient[{i}]' for i in range(S)] + [f'thickness[{i}]' for i in range(S - 1)]
    vals = {}
    for n in names:
        base = n.split('[')[0]
        lo, hi = WALK_RANGES[base]
        vals[n] = sym(n, lo, hi) if symbolic else float(inp[n])
    return vals


GIVEN_FLAGS = [('Tsurf', 'Tsurf'), ('Tmax', 'Tmax'), ('depth', 'depth'), ('gradient', 'gradient'), ('layerthickness', 'layerthickness')]


def install_walk(m, S, v, given=None):
    """given: None (leave the flags as the base model has them), 'symbolic' (whether each input of the walk was GIVEN in the input file is the
    solver's choice: the walk is stated on the values the run holds, whether they were typed in or are the defaults), or a dict of booleans."""
    r = m.reserv
    r.Tsurf.value, r.Tmax.value, r.depth.value = v['Tsurf'], v['Tmax'], v['depth']
    if given is not None:
        for key, attr in GIVEN_FLAGS:
            prm = getattr(r, attr)
            flag = core.symbool(f'{key}.given') if given == 'symbolic' else bool(given.get(f'{key}.given', True))
            prm.Provided = flag
    g = list(r.gradient.value)
    th = list(r.layerthickness.value)
    for i in range(S):
        g[i] = v[f'gradient[{i}]']
    for i in range(S - 1):
        th[i] = v[f'thickness[{i}]']
    r.gradient.value, r.layerthickness.value = g, th


def walk_reference(S, v, depth_final):
    """Tsurf + integral_0^depth_final of the piecewise-constant gradient (last segment unbounded)."""
    T = v['Tsurf']
    top = 0.0
    for i in range(S):
        if i < S - 1:
            bot = top + v[f'thickness[{i}]']
            seg = core.ite(depth_final <= top, 0.0, core.ite(depth_final >= bot, bot - top, depth_final - top))
            top_next = bot
        else:
            seg = core.ite(depth_final <= top, 0.0, depth_final - top)
            top_next = top
        T = T + v[f'gradient[{i}]'] * seg
        top = top_next
    return T


def _near(a, b, tol):
    """|a - b| <= tol * (1 + |b|): used where the code folds float constants that the reference keeps exact."""
    if tol is None or not (core.is_sym(a) or core.is_sym(b)):
        return eq(a, b)
    la, lb = core.lift(a), core.lift(b)
    bound = core.rv(tol) * (1 + z3.If(lb >= 0, lb, -lb))
    return SymBool(z3.And(la - lb <= bound, lb - la <= bound))


def _le_tol(a, b, tol):
    if core.is_sym(a) or core.is_sym(b):
        la, lb = core.lift(a), core.lift(b)
        if tol is None:
            return SymBool(la <= lb)
        return SymBool(la <= lb + core.rv(tol) * (1 + z3.If(lb >= 0, lb, -lb)))
    return float(a) <= float(b) * (1 + 1e-9) + 1e-9


def walk_obligations(S, v, m, tol=None):
    r = m.reserv
    d = r.depth.value
    eq = lambda a, b: _near(a, b, tol)       # noqa: E731
    out = [('bottom-hole temperature = surface temperature + integral of the segment gradients down to the (reduced) depth',
            eq(r.Trock.value, walk_reference(S, v, d))),
           ('bottom-hole temperature does not exceed the maximum temperature', _le_tol(r.Trock.value, v['Tmax'], tol)),
           ('depth is never increased', _le_tol(d, v['depth'], tol)),
           ('depth is reduced only as needed: either unchanged or bottom-hole temperature = Tmax',
            sor(eq(d, v['depth']), eq(r.Trock.value, v['Tmax'])))]
    return out


def run_walk(unit):
    S = unit['S']
    cfg = {'harness': 'layerwalk', 'S': S}
    if unit.get('after'):
        # a history in one process: a walk with more segments has run before (its interface temperatures must not survive into this one)
        cfg['after a walk with segments'] = unit['after']
        S0 = unit['after']
        m0 = base_model(4, S0, 2, 2)
        install_walk(m0, S0, dict({'Tsurf': 15.0, 'Tmax': 400.0, 'depth': 6000.0}, **{f'gradient[{i}]': 0.03 + 0.01 * i for i in range(S0)},
                                  **{f'thickness[{i}]': 800.0 + 300.0 * i for i in range(S0 - 1)}))
        gx.unwrapped(R.Reservoir.Calculate)(m0.reserv, m0)
    log = harness.UnitLog(cfg)

    def drive(v, symbolic, given=None):
        m = base_model(4, S, 2, 2)
        install_walk(m, S, v, given)
        if symbolic:
            with shim.shadow(*RES_SHADOWS):
                gx.unwrapped(R.Reservoir.Calculate)(m.reserv, m)
        else:
            gx.unwrapped(R.Reservoir.Calculate)(m.reserv, m)
        return m

    def fn():
        v = walk_inputs(S, True)
        m = drive(v, True, 'symbolic')
        return v, walk_obligations(S, v, m)

    def concrete(inp, only=None):
        v = walk_inputs(S, False, inp)
        try:
            m = drive(v, False, {k: bool(x) for k, x in inp.items() if k.endswith('.given')})
        except Exception as e:
            return False, {'raised': repr(e)[:200]}
        obs = walk_obligations(S, v, m)
        bad = [n for n, ok in obs if not ok and (only is None or n == only)]
        return bool(bad), {'failed': bad, 'Trock': float(m.reserv.Trock.value), 'depth_final': float(m.reserv.depth.value),
                           'reference': float(walk_reference(S, v, m.reserv.depth.value))}
    zv = {n: z3.Real(n) for n in walk_inputs_names(S)}
    zv.update({f'{key}.given': z3.Bool(f'{key}.given') for key, _ in GIVEN_FLAGS})
    n = 0
    for pr in core.explore(fn, max_paths=5000):
        log.path(pr)
        n += 1
        if pr.aborted:
            continue
        if pr.error is not None:
            # the walk raised (e.g. empty max() when Tmax == Tsurf): no result produced; not a C05 matter, but counted
            log.note(f'layer walk raised {type(pr.error).__name__} on a path (no result; outside the property)')
            continue
        v, obs = pr.value
        harness.reachable(log, pr.ctx, 3000)
        for name, cond in obs:
            harness.discharge(log, pr.ctx, name, cond, zv, lambda inp, name=name: concrete(inp, name), timeout_ms=30000,
                              sample=(n == 1), desc=f'{name} [S={S}]')
    yield log.result()


# ---- the same walk, entered through the real reader: values as the user states them (km, degC/km) ---------------------------------
INPUT_RANGES = {'Surface Temperature': (-50, 50), 'Maximum Temperature': (50, 600), 'Reservoir Depth': (0.1, 15), 'Gradient': (2, 500), 'Thickness': (0.011, 99)}


def run_walk_input(unit):
    """Reservoir.read_parameters (with its magnitude heuristics) + the layer walk, the numeric tokens of the input lines symbolic.  The
    ranges are the part of the input domain where the documented units are unambiguous: depth and thicknesses in km (thickness < 100),
    gradients in degC/km (> 1)."""
    from . import c07
    P = gx.P
    S = unit['S']
    style = unit.get('style', 'enumerated')      # 'Gradient 1, ..' / 'Thickness 1, ..' lines, or the list style 'Gradients, g1, g2, ..' / 'Thicknesses, t1, ..'
    cfg = {'harness': 'layerwalk-from-input-lines', 'S': S, 'style': style}
    log = harness.UnitLog(cfg)
    lines = ['Surface Temperature', 'Maximum Temperature', 'Reservoir Depth'] + [f'Gradient {i + 1}' for i in range(S)] + [f'Thickness {i + 1}' for i in range(S - 1)]
    rng = {n: INPUT_RANGES[n if n in INPUT_RANGES else n.split(' ')[0]] for n in lines}
    if style == 'list':
        for i in range(S):
            rng[f'Gradient {i + 1}'] = (0, 500)        # 0 (an isothermal layer) is a legitimate list entry; (0, 2) stays outside (ambiguous unit)
    fresh, _, _ = gx.make_source('geophires_x.TDPReservoir', 'TDPReservoir')
    g0, th0 = list(fresh.gradient.value), list(fresh.layerthickness.value)

    def drive(vals, symbolic):
        m = base_model(4, S, 2, 2)
        r = m.reserv
        r.gradient.value, r.layerthickness.value = list(g0), list(th0)      # as a freshly constructed reservoir holds them
        entries = {'Number of Segments': P.ParameterEntry(Name='Number of Segments', sValue=str(S), raw_entry=f'Number of Segments, {S}')}
        for n in lines:
            if style == 'list' and n.split(' ')[0] in ('Gradient', 'Thickness'):
                continue
            if symbolic:
                tok = c07.NumStr('SYMV')
                tok.proxy = vals[n]
            else:
                tok = repr(float(vals[n]))
            entries[n] = P.ParameterEntry(Name=n, sValue=tok, raw_entry=f'{n}, {tok}')
        if style == 'list':
            # the list style is parsed from the raw line: its numeric tokens are provenance markers (symbolic) or plain numbers (replay)
            for lname, items in (('Gradients', [vals[f'Gradient {i + 1}'] for i in range(S)]), ('Thicknesses', [vals[f'Thickness {i + 1}'] for i in range(S - 1)])):
                if not items:
                    continue
                toks = [str(x) if symbolic else repr(float(x)) for x in items]
                entries[lname] = P.ParameterEntry(Name=lname, sValue=toks[0], raw_entry=f'{lname}, ' + ', '.join(toks))
        m.InputParameters = entries
        import contextlib
        import io
        with contextlib.redirect_stdout(io.StringIO()):
            if symbolic:
                with shim.shadow(*(list(c07.param_shadows()) + RES_SHADOWS)):
                    R.Reservoir.read_parameters(r, m)
                    gx.unwrapped(R.Reservoir.Calculate)(r, m)
            else:
                R.Reservoir.read_parameters(r, m)
                gx.unwrapped(R.Reservoir.Calculate)(r, m)
        return m

    def stated(vals):
        """what the input lines state, in the walk's units (m, degC/m)."""
        v = {'Tsurf': vals['Surface Temperature'], 'Tmax': vals['Maximum Temperature'], 'depth': vals['Reservoir Depth'] * 1000.0}
        for i in range(S):
            g = vals[f'Gradient {i + 1}']
            # a stated gradient of 0 is carried as 1e-6 degC/m (the code's documented guard against dividing by zero)
            v[f'gradient[{i}]'] = core.ite(g <= 0, 1e-6, g / 1000.0) if style == 'list' else g / 1000.0
        for i in range(S - 1):
            v[f'thickness[{i}]'] = vals[f'Thickness {i + 1}'] * 1000.0
        return v

    def fn():
        vals = {n: sym(n, *rng[n]) for n in lines}
        if style == 'list':
            for i in range(S):
                g = vals[f'Gradient {i + 1}'].t
                core.ctx().add_assume(z3.Or(g == 0, g >= 2))
        m = drive(vals, True)
        return walk_obligations(S, stated(vals), m, tol=1e-9)

    def concrete(inp, only=None):
        vals = {n: float(inp[n]) for n in lines}
        try:
            m = drive(vals, False)
        except Exception as e:
            return False, {'raised': repr(e)[:200]}
        v = stated(vals)
        obs = walk_obligations(S, v, m, tol=1e-9)
        bad = [n for n, ok in obs if not ok and (only is None or n == only)]
        return bool(bad), {'failed': bad, 'input lines': {n: vals[n] for n in lines}, 'Trock': float(m.reserv.Trock.value), 'depth used (m)': float(m.reserv.depth.value),
                           'gradients used (degC/m)': [float(x) for x in m.reserv.gradient.value[:S]], 'thicknesses used (m)': [float(x) for x in m.reserv.layerthickness.value[:S]],
                           'reference from the stated inputs': float(walk_reference(S, v, m.reserv.depth.value))}
    zv = {n: z3.Real(n) for n in lines}
    n = 0
    for pr in core.explore(fn, max_paths=8000, catch=(ValueError, RuntimeError, IndexError)):
        log.path(pr)
        n += 1
        if pr.aborted:
            continue
        if pr.error is not None:
            log.note(f'reader / layer walk raised {type(pr.error).__name__} on a path (no result; outside the property)')
            continue
        harness.reachable(log, pr.ctx, 3000)
        for name, cond in pr.value:
            harness.discharge(log, pr.ctx, 'from the input lines: ' + name, cond, zv, lambda inp, name=name: concrete(inp, name), timeout_ms=30000,
                              sample=(n == 1), desc=f'{name} [S={S}, through Reservoir.read_parameters]')
    yield log.result()


def walk_inputs_names(S):
    return ['Tsurf', 'Tmax', 'depth'] + [f'gradient[{i}]' for i in range(S)] + [f'thickness[{i}]' for i in range(S - 1)]


# ---- temperature history of the analytical models ----------------------------------------------------------
def uf_apps(terms, fname):
    """all applications of the named UF inside the given z3 terms."""
    seen, out, stack = set(), [], list(terms)
    while stack:
        t = stack.pop()
        if t.get_id() in seen:
            continue
        seen.add(t.get_id())
        if z3.is_app(t):
            if t.decl().name() == fname:
                out.append(t)
            stack.extend(t.children())
    return out


def erf_axioms(terms):
    apps = uf_apps(terms, 'uf_erf')
    ax = []
    for a in apps:
        x = a.arg(0)
        ax.append(z3.Implies(x >= 0, z3.And(a >= 0, a <= 1)))
    for i, a in enumerate(apps):
        for b in apps[i + 1:]:
            ax.append(z3.Implies(a.arg(0) <= b.arg(0), a <= b))
            ax.append(z3.Implies(b.arg(0) <= a.arg(0), b <= a))
    return ax


def run_history(unit):
    resmodel, L, T = unit['model'], unit['L'], unit['T']
    cfg = {'harness': 'history', 'reservoir_model': resmodel, 'L': L, 'T': T}
    passes = unit.get('passes', 1)
    if passes > 1:
        # Model.Calculate runs reservoir -> wellbores -> surface plant twice for district heating: the reservoir step is entered again on
        # the same objects, with a non-zero injection-wellbore temperature gain (which the step adds to the injection temperature)
        cfg['reservoir passes (district-heating style)'] = passes
    log = harness.UnitLog(cfg)
    N = L * T
    mods = {1: MPFReservoir, 2: LHSReservoir, 3: SFReservoir, 4: TDPReservoir}
    mod = mods[resmodel]
    extra = []
    if resmodel in (1, 2):
        def inv_stub(*a, **k):
            return SymReal(core.ctx().fresh_real('invlaplace'))
        extra = [(mod, 'invertlaplace', inv_stub), (mod, 'float', shim.FloatShadow), (mod, 'np', NPW)]
        # mpmath's exp/sqrt/tanh are only used inside the Laplace-space lambda, which the stub never calls
    if resmodel == 3:
        extra = [(mod, 'math', shim.MATH)]
    if resmodel == 2:
        extra.append((mod, 'math', shim.MATH))

    names = ['Tsurf', 'gradient[0]', 'Tinj', 'drawdp']
    ranges = {'Tsurf': (-50, 50), 'gradient[0]': (1e-6, 0.5), 'Tinj': (0, 200), 'drawdp': (0, 0.2) if resmodel == 4 else (1e-6, 1)}
    if passes > 1:
        names.append('gain')
        ranges['gain'] = (0, 20)

    def drive(v, symbolic):
        m = base_model(resmodel, 1, L, T)
        r = m.reserv
        r.Tsurf.value = v['Tsurf']
        g = list(r.gradient.value)
        g[0] = v['gradient[0]']
        r.gradient.value = g
        m.wellbores.Tinj.value = v['Tinj']
        m.wellbores.tempgaininj.value = v.get('gain', 0.0)
        if resmodel in (3, 4):
            r.drawdp.value = v['drawdp']
        for _ in range(passes):
            if symbolic:
                with shim.shadow(*(RES_SHADOWS + extra)):
                    m.reserv.Calculate(m)
            else:
                m.reserv.Calculate(m)
        return m

    def obligations(v, m):
        r = m.reserv
        Tres = list(r.Tresoutput.value)
        Trock, Tinj = r.Trock.value, v['Tinj'] + v.get('gain', 0.0)       # the stated injection temperature plus the stated wellbore gain
        out = [('series has one value per time step', len(Tres) == N),
               ('reservoir temperature history starts at bottom-hole temperature', eq(Tres[0], Trock))]
        mono = []
        if resmodel in (3, 4):
            for i in range(N):
                mono.append((f'models 3/4: reservoir temperature[{i}] never exceeds bottom-hole temperature', _le(Tres[i], Trock)))
            for i in range(N - 1):
                mono.append((f'models 3/4: reservoir temperature does not rise from step {i} to {i + 1}', _le(Tres[i + 1], Tres[i])))
        return out, mono, (Trock, Tinj)

    def concrete(inp, only=None):
        v = {n: float(inp[n]) for n in names}
        try:
            m = drive(v, False)
        except Exception as e:
            return False, {'raised': repr(e)[:200]}
        out, mono, (Trock, Tinj) = obligations(v, m)
        bad = [n for n, ok in out + mono if not ok and (only is None or n == only)]
        return bool(bad), {'failed': bad[:5], 'Trock': float(Trock), 'Tinj': float(Tinj), 'Tres': [float(x) for x in m.reserv.Tresoutput.value]}

    def fn():
        v = {n: sym(n, *ranges[n]) for n in names}
        m = drive(v, True)
        return v, obligations(v, m)
    zv = {n: z3.Real(n) for n in names}
    n = 0
    for pr in core.explore(fn, max_paths=60000):
        log.path(pr)
        n += 1
        if pr.aborted:
            continue
        if pr.error is not None:
            log.note(f'{type(pr.error).__name__} on a path: {str(pr.error)[:80]}')
            continue
        v, (out, mono, (Trock, Tinj)) = pr.value
        c = pr.ctx
        harness.reachable(log, c, 3000)
        for name, cond in out:
            harness.discharge(log, c, name, cond, zv, lambda inp, name=name: concrete(inp, name), timeout_ms=30000, sample=(n == 1))
        if mono:
            terms = [core.lift(x) for x in (Trock, Tinj)] + [core.lift(cnd) if not isinstance(cnd, bool) else z3.BoolVal(cnd) for _, cnd in mono]
            ax = erf_axioms([t for t in terms if t is not None] + [cnd.t for _, cnd in mono if isinstance(cnd, SymBool)])
            region = core.lift(Trock) >= core.lift(Tinj)
            for name, cond in mono:
                # main claim: inside the region where the model is physically meaningful
                harness.discharge(log, c, name, cond, zv, lambda inp, name=name: concrete(inp, name), timeout_ms=30000,
                                  extra=ax + [region])
                # the complementary region is a recorded finding on the pinned tree; any violation there is tagged with its id
                harness.discharge(log, c, name + ' [region: bottom-hole temperature < injection temperature]', cond, zv,
                                  lambda inp, name=name: concrete(inp, name), timeout_ms=30000, extra=ax + [z3.Not(region)],
                                  finding='C05-trock-below-tinj')
    yield log.result()


def _le(a, b):
    if core.is_sym(a) or core.is_sym(b):
        return SymBool(core.lift(a) <= core.lift(b))
    return float(a) <= float(b) + 1e-9 * max(1.0, abs(float(b)))


# ---- redrilling through the real WellBores.Calculate -------------------------------------------------------
def _inert_prod(*a, **k):
    raise core.HarnessError('unexpected hydraulic call signature')


def run_redrill(unit):
    N = unit['N']
    L, T = (N, 1) if N <= 4 else (N // 2, 2)
    cfg = {'harness': 'redrilling', 'N': N, 'L': L, 'T': T}
    ramey = bool(unit.get('ramey'))
    through_model = bool(unit.get('through_model'))
    if through_model:
        cfg['entered through'] = ('the real Model.Calculate of a district-heating run (reservoir -> wellbores -> surface plant, twice): the reservoir step '
                                  'recomputes its history, the surface plant step is a stub that changes the utilisation factor (the second wellbore pass '
                                  'gets other Ramey drops), economics is a no-op')
    if ramey:
        # time-varying wellbore temperature drop (Ramey's model switched on): RameyCalc is a stub returning one arbitrary drop per time step
        cfg['wellbore temperature drop'] = 'time series (Ramey model on; RameyCalc -> arbitrary per-step drops in [0, 50])'
    log = harness.UnitLog(cfg)
    z = lambda n: np.zeros(n)

    def wpd(model, Twater, *a, **k):
        n = len(Twater)
        return z(n), z(n), z(n), np.full(n, 900.0)

    def iwpd(model, *a, **k):
        return z(N), z(N), z(N), 950.0

    def prod_imp(*a, **k):
        return z(N), z(N), z(N), z(N), z(N)

    def inj_imp(*a, **k):
        return z(N), z(N), z(N)

    def prod_idx(*a, **k):
        return z(N), z(N), z(N), z(N)

    def inj_idx(*a, **k):
        return z(N), z(N), 100.0, z(N)
    stubs = [(WB, 'WellPressureDrop', wpd), (WB, 'InjectionWellPressureDrop', iwpd),
             (WB, 'ProdPressureDropsAndPumpingPowerUsingImpedenceModel', prod_imp),
             (WB, 'InjPressureDropsAndPumpingPowerUsingImpedenceModel', inj_imp),
             (WB, 'ProdPressureDropAndPumpingPowerUsingIndexes', prod_idx),
             (WB, 'InjPressureDropAndPumpingPowerUsingIndexes', inj_idx)]
    names = [f'Tres[{i}]' for i in range(N)] + ['maxdrawdown', 'tempdrop'] + ([f'drop[{i}]' for i in range(N)] if ramey else []) \
        + ([f'drop1[{i}]' for i in range(N)] if through_model else [])

    def drive(v, symbolic):
        m = base_model(4, 1, L, T)
        m.reserv.Calculate(m)   # concrete reservoir (time vector, Trock, pressures)
        Tres = [v[f'Tres[{i}]'] for i in range(N)]
        mk = (lambda xs: core.as_symarray(list(xs))) if symbolic else (lambda xs: np.array(xs, dtype=float))
        m.reserv.Tresoutput.value = mk(Tres)
        m.wellbores.maxdrawdown.value = v['maxdrawdown']
        m.wellbores.tempdropprod.value = v['tempdrop']
        m.wellbores.rameyoptionprod.value = ramey
        binds = stubs + ([(WB, 'np', NPW)] if symbolic else [])
        if ramey:
            drops = [v[f'drop[{i}]'] for i in range(N)]
            calls = {'n': 0}

            def ramey_stub(*a, **k):
                calls['n'] += 1
                if through_model and calls['n'] == 1:
                    return mk([v[f'drop1[{i}]'] for i in range(N)])      # first pass: the drops for the utilisation factor as given
                return mk(drops)                                         # (last pass:) the drops the reported profile is stated with
            binds = binds + [(WB, 'RameyCalc', ramey_stub)]
        with shim.shadow(*binds):
            if through_model:
                from geophires_x.OptionList import PlantType
                m.surfaceplant.plant_type.value = PlantType.DISTRICT_HEATING
                # environment: a deterministic reservoir step recomputes the same history from scratch; the surface plant and economics steps do
                # not touch the wellbore / reservoir series
                m.reserv.Calculate = lambda model: setattr(m.reserv.Tresoutput, 'value', mk(Tres))
                m.surfaceplant.Calculate = lambda model: None
                m.economics.Calculate = lambda model: None
                try:
                    type(m).Calculate(m)
                finally:
                    for comp in (m.reserv, m.surfaceplant, m.economics):
                        comp.__dict__.pop('Calculate', None)
                    m.surfaceplant.plant_type.value = PlantType.INDUSTRIAL
            else:
                m.wellbores.Calculate(m)
        return m, Tres

    def obligations(v, m, Tres0):
        wb = m.wellbores
        PT = list(wb.ProducedTemperature.value)
        TR = list(m.reserv.Tresoutput.value)
        lim = (1 - v['maxdrawdown']) * PT[0]
        out = [('series keep their length', len(PT) == N and len(TR) == N)]
        for i in range(N):
            out.append((f'production temperature[{i}] never falls below the drawdown limit (that fraction of its initial value)', _ge(PT[i], lim)))
        # the profile restarts from its beginning at each reported redrilling: first cycle (length idx) tiled
        P0 = [t - (v[f'drop[{i}]'] if ramey else v['tempdrop']) for i, t in enumerate(Tres0)]
        lim0 = (1 - v['maxdrawdown']) * P0[0]
        # idx = first index whose original value is below the limit (none -> no redrilling)
        cases = []
        none_below = sand(*[snot(P0[i] < lim0) for i in range(N)])
        cases.append(sand(none_below, eq(wb.redrill.value, 0), *[eq(PT[i], P0[i]) for i in range(N)], *[eq(TR[i], Tres0[i]) for i in range(N)]))
        for idx in range(1, N):
            first = sand(*[snot(P0[j] < lim0) for j in range(idx)], P0[idx] < lim0)
            cases.append(sand(first, eq(wb.redrill.value, N // idx), *[eq(PT[i], P0[i % idx]) for i in range(N)],
                              *[eq(TR[i], Tres0[i % idx]) for i in range(N)]))
        out.append(('profile = first cycle tiled from the first step below the limit; redrill count = floor(N / cycle length)', sor(*cases)))
        return out

    def concrete(inp, only=None):
        v = {n: float(inp[n]) for n in names}
        try:
            m, Tres0 = drive(v, False)
        except Exception as e:
            return False, {'raised': repr(e)[:300]}
        obs = obligations(v, m, Tres0)
        bad = [n for n, ok in obs if not ok and (only is None or n == only)]
        return bool(bad), {'failed': bad[:4], 'ProducedTemperature': [float(x) for x in m.wellbores.ProducedTemperature.value],
                           'redrill': int(m.wellbores.redrill.value), 'limit': (1 - v['maxdrawdown']) * float(m.wellbores.ProducedTemperature.value[0])}

    def fn():
        v = {f'Tres[{i}]': sym(f'Tres[{i}]', 1, 600) for i in range(N)}
        v['maxdrawdown'] = sym('maxdrawdown', 0, 1, lo_strict=True)
        v['tempdrop'] = sym('tempdrop', 0, 50)
        for i in range(N if ramey else 0):
            v[f'drop[{i}]'] = sym(f'drop[{i}]', 0, 50)
        for i in range(N if through_model else 0):
            v[f'drop1[{i}]'] = sym(f'drop1[{i}]', 0, 50)
        core.ctx().add_assume(v['Tres[0]'].t - (v['drop[0]'] if ramey else v['tempdrop']).t > 0)   # a positive initial production temperature
        m, Tres0 = drive(v, True)
        return v, obligations(v, m, Tres0)
    zv = {n: z3.Real(n) for n in names}
    n = 0
    for pr in core.explore(fn, max_paths=5000):
        log.path(pr)
        n += 1
        if pr.aborted:
            continue
        if pr.error is not None:
            raise pr.error
        v, obs = pr.value
        harness.reachable(log, pr.ctx, 3000)
        for name, cond in obs:
            harness.discharge(log, pr.ctx, name, cond, zv, lambda inp, name=name: concrete(inp, name), timeout_ms=30000, sample=(n == 2))
    yield log.result()


def _ge(a, b):
    if core.is_sym(a) or core.is_sym(b):
        return SymBool(core.lift(a) >= core.lift(b))
    return float(a) >= float(b) - 1e-9 * max(1.0, abs(float(b)))


# -------------------------------------------------------------------------------------------------------------
def units(tier, seed):
    us = [{'harness': 'layerwalk', 'S': S} for S in (1, 2, 3, 4)]
    us += [{'harness': 'layerwalk', 'S': 2, 'after': 4}] + ([{'harness': 'layerwalk', 'S': 3, 'after': 4}, {'harness': 'layerwalk', 'S': 1, 'after': 3}] if tier == 'thorough' else [])
    us += [{'harness': 'layerwalk-input', 'S': S} for S in (1, 2)] + [{'harness': 'layerwalk-input', 'S': 2, 'style': 'list'}]      # (S = 3 exceeds 8000 paths: every input line forks on '== default' and '== current value')
    for (L, T) in NS[tier]:
        for model in (1, 2, 3, 4):
            us.append({'harness': 'history', 'model': model, 'L': L, 'T': T})
    # long lifetimes for the percentage-drawdown model: drawdown rate x lifetime > 1 drives the linear decline below the injection temperature
    for (L, T) in ([(6, 1)] if tier == 'quick' else [(6, 1), (10, 1), (6, 2), (25, 1)]):
        us.append({'harness': 'history', 'model': 4, 'L': L, 'T': T})
    for model in ((4,) if tier == 'quick' else (3, 4)):
        us.append({'harness': 'history', 'model': model, 'L': 2, 'T': 2, 'passes': 2})
    for N in META['bounds'][tier]['redrilling series length N']:
        us.append({'harness': 'redrilling', 'N': N})
    for N in META['bounds'][tier]['redrilling series length N'][:2 if tier == 'quick' else 3]:
        us.append({'harness': 'redrilling', 'N': N, 'ramey': True})
    for N in ((3,) if tier == 'quick' else (2, 3, 4)):
        us.append({'harness': 'redrilling', 'N': N, 'ramey': True, 'through_model': True})
    return us


def run_unit(unit):
    h = unit['harness']
    if h == 'layerwalk':
        yield from run_walk(unit)
    elif h == 'layerwalk-input':
        yield from run_walk_input(unit)
    elif h == 'history':
        yield from run_history(unit)
    else:
        yield from run_redrill(unit)


def replay(cex):
    raise NotImplementedError('replay through the unit functions: run the check with --only')
