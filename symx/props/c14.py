"""C14 — Monte Carlo rows are reproducible and the statistics describe them (DESIGN §4 C14)."""
from __future__ import annotations

import os
import re
import shutil
import sys
import tempfile

import z3

from .. import core, gx, harness, mcworld, shim
from ..core import SymBool
from ..mcworld import MC
from . import c13

ID = 'C14'
FUNCTIONS = ['geophires_monte_carlo.MC_GeoPHIRES3:work_package', 'geophires_monte_carlo.MC_GeoPHIRES3:main']
UNIT_TIMEOUT = {'quick': 240, 'thorough': 900}
META = {
    'explanation': 'The real work_package runs in the in-memory Monte-Carlo world of C13 with, per requested OUTPUT, a symbolic Boolean "is '
                   'found exactly once in the report", and a symbolic failure flag per iteration. z3 / path enumeration proves over all '
                   'subsets: the row carries one value per header column, value j being the figure printed on the report line of output '
                   'j of THAT iteration; the (name, value) pairs recorded in the row are exactly those appended to the simulated input, '
                   'in order; temporary files are removed; a failing iteration writes nothing and leaves every other row unchanged. The '
                   'summarising half of main() runs on symbolic rows with exact min/max/median/mean/std encodings (statistics units). '
                   'Contention units: 2 (thorough: 3) workers run the real work_package as baton-passing threads under a symbolic schedule '
                   '(a fresh solver Boolean decides which runnable worker continues at every interleaving point: before the lock request, '
                   'after the grant, between the two chunks of a row write, before the release); the lock is the pylocker contract keyed '
                   'by pass, uuid draws are pairwise-distinct solver integers, and pass equality is decided by the solver; for every '
                   'schedule: rows intact, mutual exclusion, no worker stuck. Counterexamples are replayed with two real threads on the '
                   'real pylocker Locker and a real file.',
    'bounds': {'quick': {'outputs': 3, 'iterations': [1, 2], 'statistics: rows x outputs': [(2, 1), (3, 2)], 'concurrent workers': [2], 'interleaving points per worker': 5},
               'thorough': {'outputs': 3, 'iterations': [1, 2, 3], 'statistics: rows x outputs': [(2, 1), (3, 2), (4, 2), (5, 2), (6, 3), (8, 2), (5, 3), (7, 1)], 'concurrent workers': [2, 3], 'interleaving points per worker': 5}},
    'outside': ['the internals of pylocker.acquire_lock (its own check-write-verify protocol on the lock file) and lock time-outs (a worker that waits longer than 10 s drops its row): the lock is modelled by its contract',
                'more than 3 concurrent workers', 'plots and HTML output', 'more rows / outputs than the bound'],
    'assumptions': ['a rendered number contains no comma, colon, semicolon, parenthesis or newline',
                    'pylocker contract: acquire(pass) is an atomic test-and-set granted iff no lock is held or the held lock carries the same pass; release(pass) removes only a lock with that pass',
                    'uuid.uuid1()/uuid4() never return the same value twice', 'a row write may reach the file in two chunks (no atomicity of buffered appends is assumed)'],
    'stubs': ['as C13; pandas / matplotlib / ProcessPoolExecutor / json replaced by in-memory stand-ins in the statistics units'],
}

OUTPUTS = ['Out A', 'Out B', 'Out C']
SETTINGS = [['Reservoir Temperature', 'normal', '250', '25'], ['Reservoir Porosity', 'uniform', '8', '12']]
VAL_RE = re.compile(r'⟦value(\d+)\.(\d+)⟧')
DRAW_RE = c13.DRAW_RE


# the base input holds lines whose names extend the name of a sampled INPUT (and one that is extended by it): a sampled value is appended to
# the base input, it never replaces or removes other lines
BASE_INPUT = 'Reservoir Temperature Option, 2\nBase Parameter, 1\nReservoir, 7\nReservoir Porosity Exponent, 3\n'


def run_rows(K, code):
    found = [None] * len(OUTPUTS)
    w = mcworld.MCWorld(OUTPUTS, found, False, base_input=BASE_INPUT)
    header = ', '.join(OUTPUTS) + ', ' + ', '.join(s[0] for s in SETTINGS) + '\n'
    w.fs['/w/MC_Result.txt'] = header
    gen = w.parent_gen.fork('worker0')
    w.current_gen = gen
    args = mcworld.make_args(code)
    pass_list = [[list(s) for s in SETTINGS], list(OUTPUTS), args, '/w/MC_Result.txt', '/w/', 'python']
    obs = []
    with shim.shadow(*mcworld.shadows(w)):
        for it in range(K):
            for i in range(len(OUTPUTS)):
                found[i] = bool(SymBool(z3.Bool(f'found[{it}][{i}]')))
            w.fail = bool(SymBool(z3.Bool(f'fails[{it}]')))
            before = w.fs['/w/MC_Result.txt']
            nsim = len(w.sim_inputs)
            files_before = set(w.fs)
            exc = None
            try:
                MC.work_package(pass_list)
            except (RuntimeError, mcworld.SimExit, SystemExit) as e:
                exc = e
            after = w.fs['/w/MC_Result.txt']
            obs.append({'it': it, 'found': list(found), 'failed': bool(w.fail), 'raised': exc is not None, 'before': before, 'after': after,
                        'sim_text': w.sim_inputs[nsim] if len(w.sim_inputs) > nsim else None,
                        'leftover_temp': sorted(f for f in set(w.fs) - files_before if f.startswith('/w/tmp'))})
    return obs


def row_checks(o):
    """returns dict name -> bool for one iteration (plain Python facts about the text the real code produced)."""
    res = {}
    before, after = o['before'], o['after']
    unchanged_prefix = after.startswith(before)
    res['earlier rows and the header are left untouched'] = unchanged_prefix
    app = after[len(before):] if unchanged_prefix else ''
    if o['failed'] or o['raised']:
        res['a failing iteration writes nothing'] = (app == '')
        return res
    res['exactly one row is appended'] = app.count('\n') == 1 and app.endswith('\n')
    row = app.rstrip('\n')
    head, sep, tail = row.partition('(')
    fields = [f.strip() for f in head.strip().strip(',').split(',')] if head.strip().strip(',') else []
    res['the row has one value per OUTPUT column of the header'] = len(fields) == len(OUTPUTS)
    ok = len(fields) == len(OUTPUTS)
    if ok:
        for j, f in enumerate(fields):
            m = VAL_RE.fullmatch(f)
            ok = ok and m is not None and int(m.group(1)) == o['it'] and int(m.group(2)) == j
    res['column j holds the figure printed for OUTPUT j in this iteration\'s report'] = ok
    # recorded inputs = what was appended to the simulated input, in order
    pairs = [p for p in tail.rstrip(')').strip(';').split(';') if p] if sep else []
    sim_text = o['sim_text'] or ''
    res['the simulated input is the complete base input (every line, in order) followed by the sampled values'] = sim_text.startswith(BASE_INPUT)
    sim_lines = sim_text[len(BASE_INPUT):].splitlines() if sim_text.startswith(BASE_INPUT) else sim_text.splitlines()[BASE_INPUT.count('\n'):]
    want = [ln.partition(', ')[::2] for ln in sim_lines]
    got = [tuple(p.split(':', 1)) for p in pairs]
    res['the (name, value) pairs recorded in the row are those fed to the simulation, in order'] = [tuple(x) for x in want] == got and len(got) == len(SETTINGS)
    res['temporary files are removed'] = not o['leftover_temp']
    return res


def replay_missing_output():
    """real driver, real HIP-RA-X: an OUTPUT label that matches no report line."""
    d = tempfile.mkdtemp(prefix='symx_c14_')
    cwd, argv = os.getcwd(), sys.argv
    try:
        inp = os.path.join(d, 'hip.txt')
        with open(inp, 'w') as f:
            f.write('Reservoir Temperature, 250.0\nRejection Temperature, 60.0\nReservoir Porosity, 10.0\nReservoir Area, 55.0\n'
                    'Reservoir Thickness, 0.25\nReservoir Life Cycle, 25\n')
        st, out = os.path.join(d, 'settings.txt'), os.path.join(d, 'MC_Result.txt')
        with open(st, 'w') as f:
            f.write('INPUT, Reservoir Temperature, uniform, 200, 260\nOUTPUT, Producible Heat (reservoir)\nOUTPUT, No Such Output\n'
                    'OUTPUT, Producible Electricity (reservoir)\nITERATIONS, 4\nMC_OUTPUT_FILE, %s\n' % out)
        import contextlib
        import io
        import warnings
        err = None
        with contextlib.redirect_stdout(io.StringIO()), warnings.catch_warnings():
            warnings.simplefilter('ignore')
            try:
                MC.main(command_line_args=[os.path.join(gx.SRC, 'hip_ra_x', 'hip_ra_x.py'), inp, st, out])
            except Exception as e:
                err = repr(e)[:160]
        lines = open(out).read().splitlines()
        ncols = 3
        rows = [ln for ln in lines[1:] if '(' in ln]
        nvals = [len([x for x in ln.split('(')[0].strip().strip(',').split(',') if x.strip()]) for ln in rows]
        return any(n != ncols for n in nvals), {'header': lines[0], 'first_row': rows[0] if rows else None, 'values_per_row': nvals, 'summary_error': err}
    finally:
        os.chdir(cwd)
        sys.argv = argv
        shutil.rmtree(d, ignore_errors=True)


def run_rows_unit(unit):
    K, code = unit['K'], unit['code']
    cfg = {'harness': 'rows', 'K': K, 'code': code}
    log = harness.UnitLog(cfg)
    zv = {}
    for it in range(K):
        zv[f'fails[{it}]'] = z3.Bool(f'fails[{it}]')
        for i in range(len(OUTPUTS)):
            zv[f'found[{it}][{i}]'] = z3.Bool(f'found[{it}][{i}]')
    cache = {}

    def concrete_missing(inp):
        if 'r' not in cache:
            cache['r'] = replay_missing_output()
        return cache['r']
    n = 0
    for pr in core.explore(lambda: run_rows(K, code), max_paths=10000):
        log.path(pr)
        n += 1
        if pr.error is not None:
            raise pr.error
        if pr.aborted:
            continue
        harness.reachable(log, pr.ctx, 500)
        for o in pr.value:
            allfound = all(o['found'])
            for name, ok in row_checks(o).items():
                region = (not allfound) and ('column' in name or 'one value per OUTPUT' in name)
                harness.discharge(log, pr.ctx, f'iteration {o["it"]}: {name}' + (' [region: an OUTPUT label is not found exactly once]' if region else ''),
                                  bool(ok), zv, concrete_missing if region else (lambda inp: (True, {'note': 'in-memory world fact'})),
                                  finding='C14-missing-output-shifts-columns' if region else None, sample=(n == 1))
    yield log.result()


def units(tier, seed):
    us = []
    for K in META['bounds'][tier]['iterations']:
        us.append({'harness': 'rows', 'K': K, 'code': 'GEOPHIRESv3.py'})
        us.append({'harness': 'rows', 'K': K, 'code': 'hip_ra_x.py'})
    from . import c14stats, c14lock
    us += c14stats.units(tier)
    us += c14lock.units(tier)
    from . import c13main      # the real main() around the pool model: a failing iteration affects only its own row
    us += [u for u in c13main.units(tier) if not u['lock_outcomes']]
    return us


def run_unit(unit):
    if unit['harness'] == 'rows':
        yield from run_rows_unit(unit)
    elif unit['harness'] == 'main':
        from . import c13main
        yield from c13main.run_unit(unit)
    elif unit['harness'] == 'contention':
        from . import c14lock
        yield from c14lock.run_unit(unit)
    else:
        from . import c14stats
        yield from c14stats.run_unit(unit)


def replay(cex):
    if cex.get('config', {}).get('harness') == 'contention':
        from . import c14lock
        return c14lock.replay_real(2)
    return replay_missing_output()
