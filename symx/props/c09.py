"""C09 — the case report states what was computed (DESIGN §4 C09, Appendix B)."""
from __future__ import annotations

import re

import z3

from .. import core, econ, gx, harness, writer
from ..core import SymReal
from . import c04

from geophires_x.OptionList import EndUseOptions, PlantType, EconomicModel, ReservoirModel

ID = 'C09'
FUNCTIONS = ['geophires_x.Outputs:Outputs.PrintOutputs', 'geophires_x.Outputs:Outputs._field_label', 'geophires_x.OutputsRich:print_outputs_rich']
UNIT_TIMEOUT = {'quick': 280, 'thorough': 1500}
CONFIGS = {
    'quick': [('electricity', 2, 2, 1, {}), ('direct-use', 2, 2, 1, {'em': 1}), ('chiller', 2, 1, 1, {'em': 3}), ('heat-pump', 2, 2, 2, {}), ('district-heating', 2, 1, 1, {}),
              ('cogen-topping', 2, 2, 1, {'em': 3, 'carbon': True}), ('cogen-bottoming', 2, 1, 2, {}), ('cogen-parallel', 2, 2, 1, {'em': 1}),
              ('electricity', 3, 2, 1, {'overpressure': True}), ('electricity', 2, 1, 1, {'segments': 3, 'ramey': False, 'pi': True, 'alt': True}), ('direct-use', 2, 1, 1, {'splitwell': True}), ('direct-use', 2, 1, 1, {'sdac': True}),
              ('direct-use', 2, 1, 1, {'fixed_totals': True}), ('electricity', 2, 1, 1, {'fixed_om': True}), ('direct-use', 3, 2, 1, {'fixed_totals': True, 'redrill': True})],
    'thorough': [(k, L, T, K, x) for k in c04.KINDS for (L, T, K) in ((2, 2, 1), (3, 1, 2), (4, 3, 3)) for x in ({}, {'em': 1}, {'em': 3, 'carbon': True})] +
                [('electricity', 3, 2, 1, {'overpressure': True}), ('electricity', 2, 1, 1, {'segments': 3, 'ramey': False, 'pi': True}),
                 ('direct-use', 3, 2, 1, {'overpressure': True, 'pi': True}), ('direct-use', 2, 1, 1, {'splitwell': True}), ('electricity', 2, 2, 2, {'splitwell': True, 'em': 3}), ('direct-use', 2, 1, 1, {'sdac': True}), ('electricity', 3, 2, 2, {'sdac': True}), ('electricity', 2, 2, 1, {'resmodel': 1}), ('direct-use', 2, 2, 1, {'resmodel': 3}),
                 ('direct-use', 2, 1, 1, {'fixed_totals': True}), ('electricity', 2, 1, 1, {'fixed_om': True}), ('cogen-topping', 2, 2, 2, {'fixed_totals': True, 'em': 3}), ('direct-use', 3, 2, 1, {'fixed_totals': True, 'redrill': True}),
                 ('electricity', 4, 2, 1, {'redrill': True})],
}
META = {
    'explanation': 'Every numeric quantity of a real, fully calculated Model is replaced by a fresh solver variable (each element of each '
                   'series its own variable) and every unit by a unique tag naming its parameter; the real Outputs.PrintOutputs then '
                   'writes the report, in which each figure is a provenance marker (z3 term, format spec). For every figure line z3 '
                   'proves term = the quantity its label denotes (table of label -> expression over the model state, written from the '
                   'labels\' meaning), the unit printed after it is the tag of a parameter occurring in that term, every profile table '
                   'has exactly one row per simulated (and construction) year in order, and every table cell equals the series element '
                   'of that year (index year x time steps per year, or year).',
    'bounds': {t: {'(kind, L, T, K, variant)': [list(c[:4]) + [c[4]] for c in CONFIGS[t]]} for t in CONFIGS},
    'outside': ['rounding performed by format() to the displayed precision (trusted: CPython float.__format__)', 'rich / HTML output: the rendering by the rich library, the plots, and configurations with two or more construction years (the item lists and data frames that print_outputs_rich hands to its HTML writer ARE compared with the text report: rich units)', 'AGS / SUTRA / add-on writers (the S-DAC-GT section writer is inside)',
                'lines whose label is not in the oracle table are counted as not covered (listed in the evidence), not as held', 'lifetimes beyond the bound'],
    'assumptions': ['the unit-conversion pass before printing is the subject of C06 and is skipped here (all quantities are in their current units)'],
    'stubs': ['Outputs.open -> in-memory capture; Outputs.np -> NPShim (exact max/min); print_outputs_rich -> no-op; Outputs._convert_units -> no-op'],
}


def avg(xs):
    if isinstance(xs, SymReal):
        return xs
    if not isinstance(xs, list) or not xs:
        return None
    t = xs[0]
    for x in xs[1:]:
        t = t + x
    return t / len(xs)


class MaxOf:
    def __init__(self, xs, ge=True):
        self.xs, self.ge = (list(xs) if not isinstance(xs, SymReal) else [xs]), ge


def mx(xs):
    if isinstance(xs, SymReal):
        return xs
    return MaxOf(xs, True) if isinstance(xs, list) and xs else None


def mn(xs):
    if isinstance(xs, SymReal):
        return xs
    return MaxOf(xs, False) if isinstance(xs, list) and xs else None


def build_oracle(m, V, cfg):
    """label -> (expression, unit owners or literal) for this configuration; written from the meaning of the labels."""
    sp, wb, rs, ec = 'surfaceplant.', 'wellbores.', 'reserv.', 'economics.'
    T = m.economics.timestepsperyear.value
    L = m.surfaceplant.plant_lifetime.value
    eu, pt = m.surfaceplant.enduse_option.value, m.surfaceplant.plant_type.value
    heatplants = [PlantType.INDUSTRIAL, PlantType.ABSORPTION_CHILLER, PlantType.HEAT_PUMP, PlantType.DISTRICT_HEATING]
    o = {}

    def put(label, thunk, unit=None):
        try:
            expr = thunk()
        except (IndexError, KeyError, TypeError, AttributeError):
            return
        if expr is not None:
            o[label] = (expr, unit)
    put('Average Net Electricity Production', lambda: avg(V(sp + 'NetElectricityProduced')))
    put('Average Direct-Use Heat Production', lambda: avg(V(sp + 'HeatProduced')))
    put('Average Cooling Production', lambda: avg(V(sp + 'cooling_produced')) if pt == PlantType.ABSORPTION_CHILLER else None)
    put('Electricity breakeven price', lambda: V(ec + 'LCOE'))
    put('Direct-Use heat breakeven price (LCOH)', lambda: V(ec + 'LCOH'))
    put('Direct-Use Cooling Breakeven Price (LCOC)', lambda: V(ec + 'LCOC'))
    put('Flowrate per production well', lambda: V(wb + 'prodwellflowrate'))
    put('Well depth', lambda: V(rs + 'depth'))
    put('Geothermal gradient', lambda: V(rs + 'gradient')[0] if isinstance(V(rs + 'gradient'), list) else None)
    nseg = m.reserv.numseg.value
    if nseg > 1:
        o['__segments__'] = nseg
        for k in range(1, nseg + 1):
            put(f'Segment {k}   Geothermal gradient', lambda k=k: V(rs + 'gradient')[k - 1])
    put('Total Avoided Carbon Emissions', lambda: V(ec + 'CarbonThatWouldHaveBeenProducedTotal'))
    put('Fixed Charge Rate (FCR)', lambda: V(ec + 'FCR') * 100.0)
    put('Interest Rate', lambda: V(ec + 'interest_rate'))
    put('Accrued financing during construction', lambda: V(ec + 'inflrateconstruction') * 100)
    put('Capacity factor', lambda: V(sp + 'utilization_factor') * 100, '%')
    if getattr(m, 'sdacgteconomics', None) is not None and m.economics.DoSDACGTCalculations.value:
        sd = 'sdacgteconomics.'
        put('LCOD using grid-based electricity only', lambda: V(sd + 'LCOD_elec'))
        put('LCOD using natural gas only', lambda: V(sd + 'LCOD_ng'))
        put('LCOD using geothermal energy only', lambda: V(sd + 'LCOD_geo'))
        put('CO2 Intensity using grid-based electricity only', lambda: V(sd + 'CO2total_elec') * 100.0, '%')
        put('CO2 Intensity using natural gas only', lambda: V(sd + 'CO2total_ng') * 100.0, '%')
        put('CO2 Intensity using geothermal energy only', lambda: V(sd + 'CO2total_geo') * 100.0, '%')
        put('Geothermal LCOH', lambda: V(sd + 'LCOH'))
        put('Geothermal Ratio (electricity vs heat)', lambda: V(sd + 'percent_thermal_energy_going_to_heat') * 100.0, '%')
        put('Percent Energy Devoted To Process', lambda: V(sd + 'EnergySplit') * 100.0, '%')
        put('Total Tonnes of CO2 Captured', lambda: V(sd + 'CarbonExtractedTotal'))
        put('Total Cost of Capture', lambda: V(sd + 'S_DAC_GTCummCashFlow')[-1])
    put('Drilling and completion costs per production well', lambda: V(ec + 'cost_one_production_well'))
    put('Drilling and completion costs per injection well', lambda: V(ec + 'cost_one_injection_well'))
    put('Drilling and completion costs per vertical production well', lambda: V(ec + 'cost_one_production_well'))
    put('Drilling and completion costs per vertical injection well', lambda: V(ec + 'cost_one_injection_well'))
    put('Project NPV', lambda: V(ec + 'ProjectNPV'))
    put('Project IRR', lambda: V(ec + 'ProjectIRR'))
    put('Project VIR=PI=PIR', lambda: V(ec + 'ProjectVIR'), '')
    put('Project MOIC', lambda: V(ec + 'ProjectMOIC'), '')
    put('Project Payback Period', lambda: V(ec + 'ProjectPaybackPeriod'))
    put('CHP: Percent cost allocation for electrical plant', lambda: V(ec + 'CAPEX_heat_electricity_plant_ratio') * 100.0, '%')
    put('Water loss rate', lambda: V(rs + 'waterloss') * 100)
    put('Pump efficiency', lambda: V(sp + 'pump_efficiency'))
    put('Injection temperature', lambda: V(wb + 'Tinj'))
    put('Average production well temperature drop', lambda: avg(V(wb + 'ProdTempDrop')))
    put('Constant production well temperature drop', lambda: V(wb + 'tempdropprod'))
    put('Injection well casing ID', lambda: V(wb + 'injwelldiam'))
    put('Production well casing ID', lambda: V(wb + 'prodwelldiam'))
    put('Number of times redrilling', lambda: V(wb + 'redrill'), '')
    put('Maximum reservoir temperature', lambda: V(rs + 'Tmax'))
    put('m/A Drawdown Parameter', lambda: V(rs + 'drawdp') if hasattr(m.reserv, 'drawdp') else None)
    put('Annual Thermal Drawdown', lambda: V(rs + 'drawdp') * 100 if hasattr(m.reserv, 'drawdp') else None)
    put('Bottom-hole temperature', lambda: V(rs + 'Trock'))
    put('Well separation: fracture diameter', lambda: V(rs + 'fracheightcalc'))
    put('Well separation: fracture height', lambda: V(rs + 'fracheightcalc'))
    put('Fracture width', lambda: V(rs + 'fracwidthcalc'))
    put('Fracture area', lambda: V(rs + 'fracareacalc'))
    put('Number of fractures', lambda: V(rs + 'fracnumbcalc'))
    put('Fracture separation', lambda: V(rs + 'fracsepcalc'))
    put('Reservoir volume', lambda: V(rs + 'resvolcalc'))
    put('Reservoir impedance', lambda: V(wb + 'impedance') / 1000)
    put('Average reservoir pressure', lambda: V(wb + 'average_production_reservoir_pressure'))
    put('Reservoir hydrostatic pressure', lambda: V(wb + 'production_reservoir_pressure')[0] if isinstance(V(wb + 'production_reservoir_pressure'), list) else None)
    put('Plant outlet pressure', lambda: V(sp + 'plant_outlet_pressure'))
    put('Production wellhead pressure', lambda: V(wb + 'Pprodwellhead'))
    put('Productivity Index', lambda: V(wb + 'PI'))
    put('Injectivity Index', lambda: V(wb + 'II'))
    put('Reservoir density', lambda: V(rs + 'rhorock'))
    put('Reservoir thermal conductivity', lambda: V(rs + 'krock'))
    put('Reservoir heat capacity', lambda: V(rs + 'cprock'))
    put('Reservoir porosity', lambda: V(rs + 'porrock') * 100)
    for agg, f in (('Maximum', mx), ('Average', avg), ('Minimum', mn)):
        put(f'{agg} Production Temperature', lambda: f(V(wb + 'ProducedTemperature')))
        put(f'{agg} Total Electricity Generation', lambda: f(V(sp + 'ElectricityProduced')))
        put(f'{agg} Net Electricity Generation', lambda: f(V(sp + 'NetElectricityProduced')))
        put(f'{agg} Net Heat Production', lambda: f(V(sp + 'HeatProduced')))
        if pt == PlantType.ABSORPTION_CHILLER:
            put(f'{agg} Cooling Production', lambda: f(V(sp + 'cooling_produced')))
        if pt == PlantType.DISTRICT_HEATING:
            put(f'{agg} Daily District Heating Demand', lambda: f(V(sp + 'daily_heating_demand')))
            put(f'{agg} Geothermal Heating Production', lambda: f(V(sp + 'dh_geothermal_heating')))
            put(f'{agg} Peaking Boiler Heat Production', lambda: f(V(sp + 'dh_natural_gas_heating')))
    put('Initial Production Temperature', lambda: V(wb + 'ProducedTemperature')[0])
    lst = lambda nme: V(nme) if isinstance(V(nme), list) and V(nme) else None
    put('Initial Total Electricity Generation', lambda: V(sp + 'ElectricityProduced')[0] if isinstance(V(sp + 'ElectricityProduced'), list) else None)
    put('Initial Net Electricity Generation', lambda: V(sp + 'NetElectricityProduced')[0] if isinstance(V(sp + 'NetElectricityProduced'), list) else None)
    put('Initial Net Heat Production', lambda: V(sp + 'HeatProduced')[0] if isinstance(V(sp + 'HeatProduced'), list) else None)
    put('Initial Cooling Production', lambda: V(sp + 'cooling_produced')[0] if pt == PlantType.ABSORPTION_CHILLER else None)
    put('Average Reservoir Heat Extraction', lambda: avg(V(sp + 'HeatExtracted')))
    put('Average Production Well Temperature Drop', lambda: avg(V(wb + 'ProdTempDrop')))
    put('Wellbore Heat Transmission Model = Constant Temperature Drop', lambda: V(wb + 'tempdropprod'))
    put('Total Average Pressure Drop', lambda: avg(V(wb + 'DPOverall')))
    put('Average Injection Well Pressure Drop', lambda: avg(V(wb + 'DPInjWell')))
    put('Average Reservoir Pressure Drop', lambda: avg(V(wb + 'DPReserv')))
    put('Average Production Well Pressure Drop', lambda: avg(V(wb + 'DPProdWell')))
    put('Average Buoyancy Pressure Drop', lambda: avg(V(wb + 'DPBouyancy')))
    put('Average Injection Well Pump Pressure Drop', lambda: avg(V(wb + 'DPInjWell')))
    put('Average Production Well Pump Pressure Drop', lambda: avg(V(wb + 'DPProdWell')))
    nw = V(wb + 'nprod') + V(wb + 'ninj') if False else (m.wellbores.nprod.value + m.wellbores.ninj.value)
    put('Drilling and completion costs', lambda: V(ec + 'Cwell'))
    put('Drilling and completion costs per vertical production well', lambda: V(ec + 'cost_one_production_well'))
    put('Drilling and completion costs per vertical injection well', lambda: V(ec + 'cost_one_injection_well'))
    put('Drilling and completion costs per non-vertical section', lambda: V(ec + 'cost_per_lateral_section'))
    put('Drilling and completion costs per production well', lambda: V(ec + 'cost_one_production_well'))
    put('Drilling and completion costs per injection well', lambda: V(ec + 'cost_one_injection_well'))
    put('Drilling and completion costs per well', lambda: V(ec + 'Cwell') / nw)
    put('Stimulation costs', lambda: V(ec + 'Cstim'))
    put('Surface power plant costs', lambda: V(ec + 'Cplant'))
    put('of which Absorption Chiller Cost', lambda: V(ec + 'chillercapex'))
    put('of which Heat Pump Cost', lambda: V(ec + 'heatpumpcapex'))
    put('of which Peaking Boiler Cost', lambda: V(ec + 'peakingboilercost'))
    put('Field gathering system costs', lambda: V(ec + 'Cgath'))
    put('Transmission pipeline cost', lambda: V(ec + 'Cpiping'))
    put('District Heating System Cost', lambda: V(ec + 'dhdistrictcost'))
    put('Total surface equipment costs', lambda: V(ec + 'Cplant') + V(ec + 'Cgath'))
    put('Exploration costs', lambda: V(ec + 'Cexpl'))
    put('Drilling and completion costs (for redrilling)', lambda: V(ec + 'Cwell'))
    put('Drilling and completion costs per redrilled well', lambda: V(ec + 'Cwell') / nw)
    put('Stimulation costs (for redrilling)', lambda: V(ec + 'Cstim'))
    put('Investment Tax Credit', lambda: -1 * V(ec + 'RITCValue'))
    put('Total capital costs', lambda: V(ec + 'CCap'))
    put('Annualized capital costs', lambda: V(ec + 'CCap') * (1 + V(ec + 'inflrateconstruction')) * V(ec + 'FCR'))
    put('Wellfield maintenance costs', lambda: V(ec + 'Coamwell'))
    put('Power plant maintenance costs', lambda: V(ec + 'Coamplant'))
    put('Water costs', lambda: V(ec + 'Coamwater'))
    put('Average Reservoir Pumping Cost', lambda: V(ec + 'averageannualpumpingcosts'))
    put('Absorption Chiller O&M Cost', lambda: V(ec + 'chilleropex'))
    put('Average Heat Pump Electricity Cost', lambda: V(ec + 'averageannualheatpumpelectricitycost'))
    put('Annual District Heating O&M Cost', lambda: V(ec + 'dhdistrictoandmcost'))
    put('Average Annual Peaking Fuel Cost', lambda: V(ec + 'averageannualngcost'))
    if not m.economics.oamtotalfixed.Valid:
        put('Total operating and maintenance costs', lambda: V(ec + 'Coam') + V(ec + 'averageannualpumpingcosts') + V(ec + 'averageannualheatpumpelectricitycost'))
    else:
        put('Total operating and maintenance costs', lambda: V(ec + 'Coam'))
    put('Initial geofluid availability', lambda: V(sp + 'Availability')[0] if isinstance(V(sp + 'Availability'), list) else None)
    put('Average Annual Total Electricity Generation', lambda: avg([x / 1E6 for x in V(sp + 'TotalkWhProduced')]) if isinstance(V(sp + 'TotalkWhProduced'), list) else None, 'GWh')
    put('Average Annual Net Electricity Generation', lambda: avg([x / 1E6 for x in V(sp + 'NetkWhProduced')]) if isinstance(V(sp + 'NetkWhProduced'), list) else None, 'GWh')
    if isinstance(V(sp + 'NetElectricityProduced'), list):
        put('Initial pumping power/net installed power', lambda: V(wb + 'PumpingPower')[0] / V(sp + 'NetElectricityProduced')[0] * 100, '%')
    put('Average Annual Heat Production', lambda: avg([x / 1E6 for x in V(sp + 'HeatkWhProduced')]) if isinstance(V(sp + 'HeatkWhProduced'), list) else None, 'GWh')
    if pt == PlantType.HEAT_PUMP:
        put('Average Annual Heat Pump Electricity Use', lambda: avg([x / 1E6 for x in V(sp + 'heat_pump_electricity_kwh_used')]), 'GWh/year')
    if pt == PlantType.ABSORPTION_CHILLER:
        put('Average Annual Cooling Production', lambda: avg([x / 1E6 for x in V(sp + 'cooling_kWh_Produced')]), 'GWh/year')
    if pt == PlantType.DISTRICT_HEATING:
        put('Annual District Heating Demand', lambda: V(sp + 'annual_heating_demand'))
        put('Average Annual Geothermal Heat Production', lambda: writer._sum([x * 24 for x in V(sp + 'dh_geothermal_heating')]) / L / 1e3)
        put('Average Annual Peaking Fuel Heat Production', lambda: writer._sum([x * 24 for x in V(sp + 'dh_natural_gas_heating')]) / L / 1e3)
    put('Average Pumping Power', lambda: avg(V(wb + 'PumpingPower')))
    put('Heat to Power Conversion Efficiency', lambda: V(sp + 'heat_to_power_conversion_efficiency'))
    return {k: v for k, v in o.items() if k == '__segments__' or v[0] is not None}


def table_oracle(m, V, title):
    """column expressions of a profile table as a function of the row index."""
    sp, wb, ec, rs = 'surfaceplant.', 'wellbores.', 'economics.', 'reserv.'
    T = m.economics.timestepsperyear.value
    L = m.surfaceplant.plant_lifetime.value
    K = m.surfaceplant.construction_years.value
    eu, pt = m.surfaceplant.enduse_option.value, m.surfaceplant.plant_type.value
    S = lambda n, i: V(n)[i]
    if title.startswith('HEATING, COOLING AND/OR ELECTRICITY PRODUCTION PROFILE'):
        base = [lambda i: S(wb + 'ProducedTemperature', i * T) / S(wb + 'ProducedTemperature', 0), lambda i: S(wb + 'ProducedTemperature', i * T),
                lambda i: S(wb + 'PumpingPower', i * T)]
        first = 1 if eu == EndUseOptions.ELECTRICITY else 0
        if eu == EndUseOptions.ELECTRICITY:
            cols = base + [lambda i: S(sp + 'NetElectricityProduced', i * T), lambda i: S(sp + 'FirstLawEfficiency', i * T) * 100]
        elif eu == EndUseOptions.HEAT and pt == PlantType.HEAT_PUMP:
            cols = base + [lambda i: S(sp + 'HeatProduced', i * T), lambda i: S(sp + 'heat_pump_electricity_used', i * T)]
        elif eu == EndUseOptions.HEAT and pt == PlantType.ABSORPTION_CHILLER:
            cols = base + [lambda i: S(sp + 'HeatProduced', i * T), lambda i: S(sp + 'cooling_produced', i * T)]
        elif eu == EndUseOptions.HEAT:
            cols = base + [lambda i: S(sp + 'HeatProduced', i * T)]
        else:
            cols = base + [lambda i: S(sp + 'NetElectricityProduced', i * T), lambda i: S(sp + 'HeatProduced', i * T), lambda i: S(sp + 'FirstLawEfficiency', i * T) * 100]
        return L, first, cols
    if title.startswith('ANNUAL HEATING, COOLING AND/OR ELECTRICITY PRODUCTION PROFILE'):
        H0 = V(rs + 'InitialReservoirHeatContent')
        rem = lambda i: S(sp + 'RemainingReservoirHeatContent', i)
        mined = lambda i: (H0 - rem(i)) * 100 / H0
        hx = lambda i: S(sp + 'HeatkWhExtracted', i) / 1E6
        if eu == EndUseOptions.ELECTRICITY:
            cols = [lambda i: S(sp + 'NetkWhProduced', i) / 1E6, hx, rem, mined]
        elif pt == PlantType.ABSORPTION_CHILLER:
            cols = [lambda i: S(sp + 'cooling_kWh_Produced', i) / 1E6, hx, rem, mined]
        elif pt == PlantType.HEAT_PUMP:
            cols = [lambda i: S(sp + 'HeatkWhProduced', i) / 1E6, hx, lambda i: S(sp + 'heat_pump_electricity_kwh_used', i) / 1E6, rem, mined]
        elif eu not in (EndUseOptions.ELECTRICITY, EndUseOptions.HEAT):
            cols = [lambda i: S(sp + 'HeatkWhProduced', i) / 1E6, lambda i: S(sp + 'NetkWhProduced', i) / 1E6, hx, rem, mined]
        elif pt == PlantType.DISTRICT_HEATING:
            cols = [lambda i: S(sp + 'HeatkWhProduced', i) / 1E6, lambda i: S(sp + 'annual_ng_demand', i) / 1E3, hx, rem, mined]
        else:
            cols = [lambda i: S(sp + 'HeatkWhProduced', i) / 1E6, hx, rem, mined]
        return L, 1, cols
    if title.startswith('REVENUE & CASHFLOW PROFILE'):
        names = ['ElecPrice', 'ElecRevenue', 'ElecCummRevenue', 'HeatPrice', 'HeatRevenue', 'HeatCummRevenue', 'CoolingPrice', 'CoolingRevenue', 'CoolingCummRevenue',
                 'CarbonPrice', 'CarbonRevenue', 'CarbonCummCashFlow']
        cols = [(lambda i, n=n: S(ec + n, i)) for n in names]
        cols.append(lambda i: 0.0 if i < K else V(ec + 'Coam'))
        cols += [lambda i: S(ec + 'TotalRevenue', i), lambda i: S(ec + 'TotalCummRevenue', i)]
        return L + K, 0, cols
    if title.startswith('S-DAC-GT PROFILE'):
        sd = 'sdacgteconomics.'
        cols = [(lambda i, n=n: S(sd + n, i)) for n in ('CarbonExtractedAnnually', 'S_DAC_GTCummCarbonExtracted', 'S_DAC_GTAnnualCost', 'S_DAC_GTCummCashFlow', 'CummCostPerTonne')]
        return L, 1, cols
    if title.startswith('RESERVOIR POWER REQUIRED PROFILES'):
        cols = [lambda i: S(wb + 'PumpingPowerProd', i * T), lambda i: S(wb + 'PumpingPowerInj', i * T), lambda i: S(wb + 'PumpingPower', i * T)]
        return L, 1, cols
    return None


TABLE_TITLES = ['HEATING, COOLING AND/OR ELECTRICITY PRODUCTION PROFILE', 'ANNUAL HEATING, COOLING AND/OR ELECTRICITY PRODUCTION PROFILE', 'REVENUE & CASHFLOW PROFILE',
                'RESERVOIR POWER REQUIRED PROFILES', 'S-DAC-GT PROFILE']

# ---- recorded findings on the pinned tree (regions are exact lists; see known_findings.json) ------------------------------
KNOWN_UNIT_FROM_OTHER_PARAMETER = {tuple(x) for x in [['Drilling and completion costs per non-vertical section', 'economics.cost_lateral_section'], ['Fracture area', 'reserv.fracarea'], ['Fracture separation', 'reserv.fracsep'], ['Fracture width', 'reserv.fracwidth'], ['Reservoir volume', 'reserv.resvol'], ['Well separation', 'reserv.fracheight'], ['of which Absorption Chiller Cost', 'economics.Cplant'], ['of which Heat Pump Cost', 'economics.Cplant']]}   # (label, parameter whose unit is printed)
KNOWN_PREFERRED_UNITS_LABEL = set(['LCOD using grid-based electricity only', 'LCOD using natural gas only', 'LCOD using geothermal energy only', 'Geothermal LCOH', 'Total Tonnes of CO2 Captured', 'Total Cost of Capture', 'Annual District Heating Demand', 'Average Buoyancy Pressure Drop', 'Average Cooling Production', 'Average Injection Well Pressure Drop', 'Average Injection Well Pump Pressure Drop', 'Average Net Electricity Generation', 'Average Net Heat Production', 'Average Production Temperature', 'Average Production Well Pressure Drop', 'Average Production Well Pump Pressure Drop', 'Average Production Well Temperature Drop', 'Average Reservoir Heat Extraction', 'Average Reservoir Pressure Drop', 'Average Total Electricity Generation', 'Average production well temperature drop', 'Constant production well temperature drop', 'Initial Cooling Production', 'Initial Net Electricity Generation', 'Initial Net Heat Production', 'Initial Production Temperature', 'Initial Total Electricity Generation', 'Initial geofluid availability', 'Maximum Cooling Production', 'Maximum Daily District Heating Demand', 'Maximum Geothermal Heating Production', 'Maximum Net Electricity Generation', 'Maximum Net Heat Production', 'Maximum Peaking Boiler Heat Production', 'Maximum Production Temperature', 'Maximum Total Electricity Generation', 'Minimum Cooling Production', 'Minimum Daily District Heating Demand', 'Minimum Geothermal Heating Production', 'Minimum Net Electricity Generation', 'Minimum Net Heat Production', 'Minimum Peaking Boiler Heat Production', 'Minimum Production Temperature', 'Minimum Total Electricity Generation', 'Project IRR', 'Project NPV', 'Project Payback Period', 'Total Average Pressure Drop', 'Wellbore Heat Transmission Model = Constant Temperature Drop'])


def params_for(kind, L, T, K, x):
    cfg = c04.cfg_of(kind, L, K, bool(x.get('carbon')))
    cfg['T'] = T
    cfg['em'] = x.get('em', 2)
    extra = {}
    if x.get('overpressure'):
        extra.update({'Overpressure Percentage': 150, 'Overpressure Depletion Rate': 20, 'Injection Reservoir Inflation Rate': 100})
    if x.get('pi') or x.get('overpressure'):
        extra.update({'Productivity Index': 5, 'Injectivity Index': 5})
        cfg['noimp'] = True
    if x.get('ramey') is False:
        extra.update({'Ramey Production Wellbore Model': 0, 'Production Wellbore Temperature Drop': 5})
    if x.get('splitwell'):
        extra.update({'Injection Well Drilling and Completion Capital Cost Adjustment Factor': 1.4, 'Well Drilling and Completion Capital Cost Adjustment Factor': 0.9})
    if x.get('fixed_totals') or x.get('fixed_om'):
        # the user states the totals: the report's total lines are the totals the run USED (after fees, relief, redrilling), not an echo
        extra.update({'Total O&M Cost': 3.5, 'Annual License Fees Etc': 0.2, 'Tax Relief Per Year': 0.05})
        if x.get('fixed_totals'):
            extra.update({'Total Capital Cost': 40.0, 'One-time Flat License Fees Etc': 1.0})
    if x.get('redrill'):
        # a reservoir that cools fast enough for the wells to be redrilled within the lifetime (the report then carries the redrilling lines)
        extra.update({'Reservoir Model': 4, 'Drawdown Parameter': 0.08, 'Maximum Drawdown': 0.05})
    if x.get('addon'):
        cfg['addon'] = int(x['addon'])
    if x.get('sdac'):
        extra.update({'Do S-DAC-GT Calculations': True})
    if x.get('segments'):
        n = x['segments']
        extra.update({'Number of Segments': n})
        for i in range(n):
            extra[f'Gradient {i + 1}'] = 40 + 5 * i
            if i < n - 1:
                extra[f'Thickness {i + 1}'] = 1.0
    if x.get('resmodel') == 1:
        extra.update({'Reservoir Model': 1, 'Reservoir Volume Option': 1, 'Fracture Shape': 4, 'Fracture Height': 500, 'Fracture Width': 400, 'Number of Fractures': 12,
                      'Fracture Separation': 80})
    if x.get('resmodel') == 3:
        extra.update({'Reservoir Model': 3, 'Drawdown Parameter': 0.0001})
    cfg['extra'] = extra
    if x.get('alt'):
        cfg['alt'] = True
    return cfg


_PREP = {}


def prepared(cfg):
    key = repr(sorted((k, repr(v)) for k, v in cfg.items()))
    if key not in _PREP:
        c = dict(cfg)
        noimp = c.pop('noimp', False)
        c.pop('alt', None)
        pr = econ.Prepared.__new__(econ.Prepared)
        params = econ.base_params(c)
        if noimp:
            params.pop('Reservoir Impedance', None)
        pr.cfg = c
        pr.model = m = gx.make_model(params)
        m.reserv.Calculate(m)
        m.wellbores.Calculate(m)
        m.surfaceplant.Calculate(m)
        if m.surfaceplant.plant_type.value == PlantType.DISTRICT_HEATING:
            m.reserv.Calculate(m)
            m.wellbores.Calculate(m)
            m.surfaceplant.Calculate(m)
        m.economics.Calculate(m)
        pr.snap = gx.Snapshot(m)
        _PREP[key] = pr
    return _PREP[key]


def symbolic_report(cfg):
    m = prepared(cfg).reset()
    vals = writer.symbolize(m)
    # the writer's own sign tests (pumping power > 0, lateral cost > 0, piping length > 0, ITC value != 0) are fixed per configuration
    # variant (both directions are covered by different variants) so that one configuration is a couple of paths, not 2^5
    alt = bool(cfg.get('alt'))
    ctx = core.ctx()
    for name in ('wellbores.PumpingPower[0]', 'economics.cost_lateral_section', 'surfaceplant.piping_length', 'economics.RITCValue'):
        if name in vals or name.split('[')[0] in vals:
            v = vals[name] if name in vals else vals[name.split('[')[0]][0]
            ctx.add_assume(v.t <= 0 if alt and 'RITC' not in name else (v.t == 0 if alt else v.t > 0))
    text = writer.run_writer(m)
    return m, vals, text


def all_writer_labels(tier):
    """every label the writer prints on the explored configurations (used by C19)."""
    labels = set()
    for (kind, L, T, K, x) in CONFIGS[tier]:
        cfg = params_for(kind, L, T, K, x)
        m = prepared(cfg).reset()
        core.set_ctx(core.Ctx())
        try:
            writer.symbolize(m)
            text = writer.run_writer(m)
        finally:
            core.set_ctx(None)
        for ln in text.splitlines():
            if ':' in ln:
                labels.add(ln.partition(':')[0].strip())
    return labels


def vars_of(term):
    out, seen, stack = set(), set(), [term]
    while stack:
        t = stack.pop()
        if t.get_id() in seen:
            continue
        seen.add(t.get_id())
        if z3.is_const(t) and t.decl().kind() == z3.Z3_OP_UNINTERPRETED:
            out.add(t.decl().name())
        elif z3.is_app(t):
            stack.extend(t.children())
    return out


def plain(term):
    """the figure is the parameter itself or an aggregate of its elements (max / min variable, first element, average): its unit is the parameter's unit."""
    t = term
    if z3.is_app(t) and t.decl().kind() == z3.Z3_OP_DIV and z3.is_rational_value(t.arg(1)):
        t = t.arg(0)
        if not (z3.is_app(t) and t.decl().kind() == z3.Z3_OP_ADD):
            return False
    if z3.is_const(t) and t.decl().kind() == z3.Z3_OP_UNINTERPRETED:
        return True
    if z3.is_app(t) and t.decl().kind() == z3.Z3_OP_ADD:
        kids = t.children()
        names = {k.decl().name().split('[')[0] for k in kids if z3.is_const(k) and k.decl().kind() == z3.Z3_OP_UNINTERPRETED}
        return len(names) == 1 and all(z3.is_const(k) and k.decl().kind() == z3.Z3_OP_UNINTERPRETED for k in kids)
    return False


def owners(term, side):
    """parameters (component.attr) whose variables occur in the term (through exact max/min variables too)."""
    names = set()
    for v in vars_of(term):
        if '!' in v:
            for c in side:
                if v in vars_of(c):
                    for w in vars_of(c):
                        if '!' not in w:
                            names.add(w.split('[')[0])
        else:
            names.add(v.split('[')[0])
    return names


_FOUND = set()


def _note_found(log, fid):
    if fid and log['cex'] and log['cex'][-1].get('finding') == fid and log['cex'][-1].get('reproduced'):
        _FOUND.add(fid)


def run_unit(unit):
    if unit.get('harness') == 'rich':
        yield from run_rich(unit)
        return
    kind, L, T, K, x = unit['kind'], unit['L'], unit['T'], unit['K'], unit['variant']
    cfg = params_for(kind, L, T, K, x)
    desc = {'kind': kind, 'L': L, 'T': T, 'K': K, 'variant': x}
    log = harness.UnitLog(desc)
    prepared(cfg)
    uncovered = set()
    n = 0
    for pr in core.explore(lambda: symbolic_report(cfg), max_paths=400, catch=(RuntimeError,)):
        log.path(pr)
        n += 1
        if pr.aborted:
            continue
        if pr.error is not None:
            raise pr.error
        m, vals, text = pr.value
        c = pr.ctx
        harness.reachable(log, c, 1500)
        V = lambda name: vals[name] if name in vals else _missing(m, name)
        try:
            oracle = build_oracle(m, V, cfg)
        except KeyError as e:
            raise core.HarnessError(f'oracle refers to a quantity the model does not have: {e}')
        figs, lines = writer.parse_lines(text)
        zv = {}

        def concrete(inp):
            return concrete_report(cfg)
        for f in figs:
            term, spec = c.tokens[f['token']]
            label = f['label']
            if label.startswith('Segment ') and label not in oracle:
                continue
            ent = oracle.get(label)
            if ent is None:
                uncovered.add(label)
                continue
            expr, unit = ent
            if isinstance(expr, MaxOf):
                els = [core.lift(e) for e in expr.xs]
                prop = z3.And(*[(term >= e if expr.ge else term <= e) for e in els], z3.Or([term == e for e in els]))
            else:
                prop = term == core.lift(expr)
            harness.discharge(log, c, f'"{label}" shows the quantity its label denotes', prop, zv, concrete, timeout_ms=10000, sample=(n == 1 and len(log['samples']) < 2),
                              desc=f'{label}: printed term = oracle [{kind}]')
            # unit label
            ut = f['unit_text']
            tags = writer.TAG_RE.findall(ut)
            if unit is not None:
                harness.discharge(log, c, f'"{label}" is followed by the documented literal unit', ut == unit or ut.startswith(unit + ' ') or (unit == '' and not tags), zv, concrete)
            elif tags and plain(term):
                which, owner = tags[0]
                own = owners(term, c.side)
                ok_owner = owner in own
                fid = None
                if not ok_owner and (label, owner) in KNOWN_UNIT_FROM_OTHER_PARAMETER:
                    fid = 'C09-unit-label-from-other-parameter'
                cu = lambda inp, label=label: replay_unit(cfg, label, 'owner')
                if ok_owner or not (fid and fid in _FOUND):
                    harness.discharge(log, c, f'"{label}": the unit printed is the unit of the quantity printed' + (' [recorded line]' if fid else ''), ok_owner, zv, cu, finding=fid)
                    _note_found(log, fid)
                else:
                    log.d['recorded_region_lines_seen'] = log.d.get('recorded_region_lines_seen', 0) + 1
                fid2 = 'C09-preferred-units-label' if (which == 'pref' and label in KNOWN_PREFERRED_UNITS_LABEL) else None
                if which == 'cur' or not (fid2 and fid2 in _FOUND):
                    harness.discharge(log, c, f'"{label}": the unit printed is the quantity\'s current unit (not its preferred unit)' + (' [recorded line]' if fid2 else ''),
                                      which == 'cur', zv, cu, finding=fid2)
                    _note_found(log, fid2)
                else:
                    log.d['recorded_region_lines_seen'] = log.d.get('recorded_region_lines_seen', 0) + 1
        # profile tables
        for title in TABLE_TITLES:
            idx = [i for i, ln in enumerate(lines) if ln.strip().strip('*').strip() == title]
            if not idx:
                continue
            spec_t = table_oracle(m, V, title)
            if spec_t is None:
                continue
            nrows, first, cols = spec_t
            rows = []
            for ln in lines[idx[0] + 2:]:
                toks = writer.tokens_in(ln)
                if toks:
                    rows.append((ln, toks))
                elif rows and not ln.strip():
                    break
            harness.discharge(log, c, f'table "{title}": exactly one row per simulated (and construction) year', len(rows) == nrows, zv, concrete)
            # header unit tags: in column order, each tag must name the parameter printed in a column (order-preserving)
            htags = [o_ for ln in lines[idx[0] + 1: idx[0] + 6] if not writer.tokens_in(ln) for (_, o_) in writer.TAG_RE.findall(ln)]
            if htags and rows:
                col_owner = []
                r0_toks = rows[0][1]
                ci0 = 0
                for colf in cols:
                    w0 = colf(nrows - 1)
                    if isinstance(w0, SymReal):
                        col_owner.append(sorted(owners(core.lift(w0), c.side)))
                pos = 0
                ok_h = True
                badtag = None
                for tg in htags:
                    while pos < len(col_owner) and tg not in col_owner[pos]:
                        pos += 1
                    if pos >= len(col_owner):
                        ok_h, badtag = False, tg
                        break
                    pos += 1
                harness.discharge(log, c, f'table "{title}": every unit in the header is the unit of the quantity printed in that column', ok_h, zv,
                                  lambda inp, title=title, badtag=badtag: replay_header(cfg, title, badtag, col_owner))
            for r, (ln, toks) in enumerate(rows[:nrows]):
                year = ln.split()[0] if ln.split() else ''
                harness.discharge(log, c, f'table "{title}" row {r}: the year column counts up in order', year == str(first + r), zv, concrete)
                ok_cols = len(toks) == len(cols) or (title.startswith('REVENUE') and len(toks) == len(cols) - (1 if r < m.surfaceplant.construction_years.value else 0))
                harness.discharge(log, c, f'table "{title}" row {r}: one figure per column', ok_cols, zv, concrete)
                if not ok_cols:
                    continue
                ci = 0
                for k, colf in enumerate(cols):
                    want = colf(r)
                    if not isinstance(want, SymReal):
                        continue   # literal (OPEX 0.0 in construction years is printed as a plain number, no marker)
                    term, spec = c.tokens[toks[ci]]
                    ci += 1
                    harness.discharge(log, c, f'table "{title}" row {r} column {k + 1} is the series element of that year', term == core.lift(want), zv, concrete,
                                      timeout_ms=10000)
        # payback: 'N/A' is shown exactly when no payback period exists (the value 0: cumulative cash flow never turns positive)
        pbv = vals.get('economics.ProjectPaybackPeriod')
        pbl = [ln for ln in lines if ln.strip().startswith('Project Payback Period:')]
        if pbv is not None and pbl:
            shows_na = 'N/A' in pbl[0] and not writer.tokens_in(pbl[0])
            zpb = {'economics.ProjectPaybackPeriod': z3.Real('economics.ProjectPaybackPeriod')}
            harness.discharge(log, c, '"Project Payback Period" shows N/A exactly when no payback period exists (never when one was computed)',
                              (pbv.t <= 0) if shows_na else (pbv.t > 0), zpb, lambda inp: replay_payback(cfg, inp), timeout_ms=10000)
    log.d['labels_not_in_oracle'] = sorted(uncovered)[:60]
    yield log.result()


def _missing(m, name):
    comp, attr = name.split('.')
    obj = getattr(getattr(m, comp), attr, None)
    if obj is None:
        raise KeyError(name)
    return obj.value


def concrete_report(cfg):
    """replay: the real writer on the real (float) model; every labelled figure is compared with the quantity computed from the model."""
    import io
    import os
    import tempfile
    m = prepared(cfg).reset()
    d = tempfile.mkdtemp(prefix='symx_c09_')
    try:
        m.outputs.output_file = os.path.join(d, 'r.out')
        import contextlib
        from geophires_x import Outputs as O
        from .. import shim
        with contextlib.redirect_stdout(io.StringIO()), shim.shadow((O, 'print_outputs_rich', lambda *a, **k: None)):
            m.outputs.PrintOutputs(m)
            writer.print_sections(m)
        text = open(m.outputs.output_file).read()
    finally:
        import shutil
        shutil.rmtree(d, ignore_errors=True)
    vals = {}

    def V(name):
        comp, attr = name.split('.')
        v = getattr(getattr(m, comp), attr).value
        return list(v) if hasattr(v, '__len__') and not isinstance(v, str) else v
    oracle = build_oracle(m, V, cfg)
    bad = []
    for ln in text.splitlines():
        if ':' not in ln:
            continue
        label, _, rest = ln.partition(':')
        ent = oracle.get(label.strip())
        if ent is None:
            continue
        expr, unit = ent
        mt = re.match(r'\s*(-?[0-9][0-9,.eE+-]*)', rest)
        if not mt:
            continue
        try:
            got = float(mt.group(1).replace(',', ''))
        except ValueError:
            continue
        if isinstance(expr, MaxOf):
            want = max(expr.xs) if expr.ge else min(expr.xs)
        else:
            want = expr
        try:
            want = float(want)
        except (TypeError, ValueError):
            continue
        tol = 0.51 * 10 ** (-_decimals(mt.group(1))) + 1e-9 * abs(want)
        if abs(got - want) > tol and not (abs(want) > 1e5 and abs(got - want) / abs(want) < 1e-3):
            bad.append((label.strip(), got, want))
    lines = text.splitlines()
    for title in TABLE_TITLES:
        idx = [i for i, ln in enumerate(lines) if ln.strip().strip('*').strip() == title]
        spec_t = table_oracle(m, V, title) if idx else None
        if not spec_t:
            continue
        nrows, first, cols = spec_t
        rows = []
        for ln in lines[idx[0] + 2:]:
            parts = ln.replace('|', ' ').split()
            if parts and re.fullmatch(r'-?[0-9.]+', parts[0]) and len(parts) > 2:
                rows.append(parts)
            elif rows and not ln.strip():
                break
        if len(rows) != nrows:
            bad.append((title, f'{len(rows)} rows', f'{nrows} rows'))
            continue
        for r, parts in enumerate(rows):
            if parts[0] != str(first + r):
                bad.append((title, f'row {r} year {parts[0]}', str(first + r)))
            for k, colf in enumerate(cols):
                if k + 1 >= len(parts):
                    break
                try:
                    got, want = float(parts[k + 1]), float(colf(r))
                except (ValueError, TypeError, IndexError):
                    continue
                tol = 0.51 * 10 ** (-_decimals(parts[k + 1])) + 1e-9 * abs(want)
                if abs(got - want) > tol:
                    bad.append((f'{title} row {r} column {k + 1}', got, want))
    return bool(bad), {'figures that differ from the model quantity their label denotes (label, printed, computed)': bad[:8]}


def run_payback_display(unit):
    """only the payback line of the report (used by C04, whose statement includes how the payback period is shown)."""
    kind, L, T, K, x = unit['kind'], unit['L'], unit['T'], unit['K'], unit['variant']
    cfg = params_for(kind, L, T, K, x)
    log = harness.UnitLog({'harness': 'payback-display', 'kind': kind, 'L': L, 'T': T, 'K': K, 'variant': x})
    prepared(cfg)
    for pr in core.explore(lambda: symbolic_report(cfg), max_paths=400, catch=(RuntimeError,)):
        log.path(pr)
        if pr.aborted:
            continue
        if pr.error is not None:
            raise pr.error
        m, vals, text = pr.value
        c = pr.ctx
        harness.reachable(log, c, 1500)
        pbv = vals.get('economics.ProjectPaybackPeriod')
        pbl = [ln for ln in text.splitlines() if ln.strip().startswith('Project Payback Period:')]
        if pbv is None or not pbl:
            continue
        shows_na = 'N/A' in pbl[0] and not writer.tokens_in(pbl[0])
        zpb = {'economics.ProjectPaybackPeriod': z3.Real('economics.ProjectPaybackPeriod')}
        harness.discharge(log, c, 'report: "Project Payback Period" shows N/A exactly when no payback period exists (never when one was computed)',
                          (pbv.t <= 0) if shows_na else (pbv.t > 0), zpb, lambda inp: replay_payback(cfg, inp), timeout_ms=10000, sample=True)
        if not shows_na:
            toks = writer.tokens_in(pbl[0])
            term, spec = c.tokens[toks[0]]
            harness.discharge(log, c, 'report: the payback period shown is the one computed', term == pbv.t, zpb, lambda inp: replay_payback(cfg, inp))
    yield log.result()


def replay_payback(cfg, inp):
    """the real writer on the real model with the payback period set to the witness value: N/A iff no payback period."""
    import contextlib
    import io
    import os
    import shutil
    import tempfile
    from geophires_x import Outputs as O
    from .. import shim
    v = float(inp.get('economics.ProjectPaybackPeriod', 0.0))
    m = prepared(cfg).reset()
    m.economics.ProjectPaybackPeriod.value = v
    d = tempfile.mkdtemp(prefix='symx_c09_')
    try:
        m.outputs.output_file = os.path.join(d, 'r.out')
        with contextlib.redirect_stdout(io.StringIO()), shim.shadow((O, 'print_outputs_rich', lambda *a, **k: None)):
            m.outputs.PrintOutputs(m)
            writer.print_sections(m)
        text = open(m.outputs.output_file).read()
    finally:
        shutil.rmtree(d, ignore_errors=True)
    ln = [x for x in text.splitlines() if x.strip().startswith('Project Payback Period:')]
    if not ln:
        return False, {'note': 'line not printed'}
    na = 'N/A' in ln[0]
    return na != (v <= 0), {'payback period held by the model': v, 'plant lifetime': m.surfaceplant.plant_lifetime.value, 'report line': ln[0].strip()}


def replay_unit(cfg, label, kind_of_check):
    """replay of a unit-label obligation on the real writer: the printed quantity is given another CurrentUnits member of its own
    unit enum (what a 'Units:' directive leaves behind); the label printed after the figure must then be that unit."""
    import contextlib
    import io
    import os
    import shutil
    import tempfile
    from geophires_x import Outputs as O
    from .. import shim
    # which parameter does the symbolic run say is printed on that line?
    saved_ctx = core.CTX
    core.set_ctx(core.Ctx())
    try:
        m0, vals, text = symbolic_report(cfg)
        figs, _ = writer.parse_lines(text)
        c0 = core.ctx()
        line = [f for f in figs if f['label'] == label]
        if not line:
            return False, {'note': 'label not printed in this configuration'}
        own = sorted(owners(c0.tokens[line[0]['token']][0], c0.side))
    except core.PathAbort:
        return False, {'note': 'path aborted'}
    finally:
        core.set_ctx(saved_ctx)
    if not own:
        return False, {'note': 'no parameter in the printed term'}
    m = prepared(cfg).reset()
    changed = {}
    for name in own:
        comp, attr = name.split('.')
        p = getattr(getattr(m, comp), attr)
        enum = type(p.CurrentUnits)
        others = [u for u in enum if u != p.CurrentUnits] if hasattr(enum, '__members__') else []
        if others:
            p.CurrentUnits = others[0]
            changed[name] = others[0].value
    if not changed:
        return False, {'note': 'the unit enum of the printed quantity has a single member'}
    if label.startswith('Drilling and completion costs per') and 'well' in label:
        # these lines are printed only when the two per-well costs differ (a branch the symbolic run takes for some values)
        e_ = m.economics
        if round(float(e_.cost_one_production_well.value), 4) == round(float(e_.cost_one_injection_well.value), 4):
            e_.cost_one_injection_well.value = float(e_.cost_one_production_well.value) * 1.25 + 0.5
    d = tempfile.mkdtemp(prefix='symx_c09u_')
    try:
        m.outputs.output_file = os.path.join(d, 'r.out')
        with contextlib.redirect_stdout(io.StringIO()), shim.shadow((O, 'print_outputs_rich', lambda *a, **k: None), (O.Outputs, '_convert_units', lambda self, model: None)):
            m.outputs.PrintOutputs(m)
            writer.print_sections(m)
        text = open(m.outputs.output_file).read()
    finally:
        shutil.rmtree(d, ignore_errors=True)
    for ln in text.splitlines():
        if ln.partition(':')[0].strip() == label:
            rest = ln.partition(':')[2].split()
            unit_printed = ' '.join(rest[1:]) if len(rest) > 1 else ''
            ok = any(unit_printed == u or unit_printed.startswith(u) for u in changed.values())
            return (not ok), {'line': ln.strip(), 'current unit of the printed quantity': changed, 'unit printed': unit_printed}
    return False, {'note': 'line not found'}


def replay_header(cfg, title, badtag, col_owner):
    """real writer: give every column quantity another unit of its enum; each header unit must then be one of those."""
    import contextlib
    import io
    import os
    import shutil
    import tempfile
    from geophires_x import Outputs as O
    from .. import shim
    m = prepared(cfg).reset()
    changed = {}
    for own in col_owner:
        for name in own:
            comp, attr = name.split('.')
            p = getattr(getattr(m, comp), attr)
            enum = type(p.CurrentUnits)
            others = [u for u in enum if u != p.CurrentUnits] if hasattr(enum, '__members__') else []
            if others and name not in changed:
                p.CurrentUnits = others[-1]
                changed[name] = others[-1].value
    d = tempfile.mkdtemp(prefix='symx_c09h_')
    try:
        m.outputs.output_file = os.path.join(d, 'r.out')
        with contextlib.redirect_stdout(io.StringIO()), shim.shadow((O, 'print_outputs_rich', lambda *a, **k: None), (O.Outputs, '_convert_units', lambda self, model: None)):
            m.outputs.PrintOutputs(m)
            writer.print_sections(m)
        lines = open(m.outputs.output_file).read().splitlines()
    finally:
        shutil.rmtree(d, ignore_errors=True)
    idx = [i for i, ln in enumerate(lines) if ln.strip().strip('*').strip() == title]
    if not idx:
        return False, {'note': 'table not printed'}
    hdr = ' '.join(lines[idx[0] + 1: idx[0] + 6])
    units_in_header = re.findall(r'\(([^()]*)\)', hdr)
    stale = [u for u in units_in_header if u and u not in changed.values() and u not in ('%', 'GWh/year', '10^15 J')]
    return bool(stale), {'header units': units_in_header, 'current units of the column quantities': changed, 'stale': stale}


def _decimals(s):
    if 'e' in s.lower():
        return 0
    return len(s.split('.')[1]) if '.' in s else 0



# ---- the second writer (OutputsRich.print_outputs_rich: HTML / "improved text" report) against the text report --------------------------
# labels whose figure the rich writer takes from another (in real runs equal) quantity than the text writer: the harness gives every quantity its own
# solver variable, so these pairs cannot be compared here (checked concretely on the pinned tree: same printed figure) - stated, not claimed
RICH_NOT_COMPARED = {'Interest Rate': 'text: interest_rate, rich: discountrate x 100 (synchronised by sync_interest_rate in a real run)',
                     'Pump efficiency': 'rich prints the fraction x 100; the text line depends on the unit-conversion pass, which is skipped here',
                     'Maximum Geothermal Heating Production': 'max over the daily series taken by two different expressions',
                     'Maximum Peaking Boiler Heat Production': 'max over the daily series taken by two different expressions'}
RICH_CONFIGS = {'quick': [('electricity', 2, 2, 1, {}), ('district-heating', 2, 1, 1, {}), ('heat-pump', 2, 2, 1, {}), ('cogen-topping', 2, 2, 1, {'em': 3, 'carbon': True})],
                'thorough': [(k, L, T, K, {}) for k in c04.KINDS for (L, T, K) in ((2, 2, 1), (3, 1, 1))] + [('cogen-topping', 2, 2, 1, {'em': 3, 'carbon': True}),
                                                                                                     ('direct-use', 2, 1, 1, {'fixed_totals': True})]}


def _rich_lists(m, symbolic):
    import types
    from geophires_x import OutputsRich as OR
    from .. import shim
    cap = {}
    tof = types.SimpleNamespace(Provided=False, value='')
    hof = types.SimpleNamespace(Provided=True, value='symx.html')
    binds = [(OR, 'Write_HTML_Output', lambda html_path, *lists: cap.__setitem__('args', lists)), (OR, 'Plot_Tables_Into_HTML', lambda *a, **k: None),
             (OR, 'MakeDistrictHeatingPlot', lambda *a, **k: None)]
    if symbolic:
        binds += [(OR, 'np', shim.NP), (OR, 'pd', writer._PD), (OR, 'sum', writer._sum)]
    with shim.shadow(*binds):
        OR.print_outputs_rich('symx.out', tof, hof, m)
    lists = cap['args']
    return list(lists[:10]), {'hce': lists[12], 'ahce': lists[13], 'cashflow': lists[14]}


def _text_labels(text, tokens=None):
    out = {}
    for raw in text.splitlines():
        if ':' not in raw:
            continue
        label, _, rest = raw.rpartition(': ') if ': ' in raw else raw.partition(':')
        label = label.strip().rstrip(':').strip()
        if tokens is not None:
            mk = core.markers_in(rest)
            if mk:
                out.setdefault(label, []).append(tokens[mk[0][1]][0])
        else:
            w = rest.split()
            if w:
                try:
                    out.setdefault(label, []).append(float(w[0].replace(',', '')))
                except ValueError:
                    pass
    return out


def concrete_rich(cfg, label=None, column=None):
    """replay: the real text writer and the real rich writer on the same float model; the figure under `label` (or the rich table column) must be the text report's."""
    import contextlib
    import io
    import os
    import shutil
    import tempfile
    from geophires_x import Outputs as O
    from .. import shim
    from . import c10
    worst = (False, {})
    for factor in (1.2512345, 1.3377777):
        m = prepared(cfg).reset()
        c10._awkward(m, factor, False)
        d = tempfile.mkdtemp(prefix='symx_c09r_')
        try:
            path = os.path.join(d, 'r.out')
            m.outputs.output_file = path
            with contextlib.redirect_stdout(io.StringIO()), shim.shadow((O, 'print_outputs_rich', lambda *a, **k: None), (O.Outputs, '_convert_units', lambda self, model: None)):
                m.outputs.PrintOutputs(m)
            text = open(path).read()
            with contextlib.redirect_stdout(io.StringIO()):
                simple, dfs = _rich_lists(m, False)
        finally:
            shutil.rmtree(d, ignore_errors=True)
        if label is not None:
            tl = _text_labels(text).get(label, [])
            hv = []
            for lst in simple:
                for it in lst:
                    if str(it.parameter).strip() == label:
                        try:
                            hv.append(float(str(it.value).replace(',', '')))
                        except ValueError:
                            pass
            bad = bool(tl) and bool(hv) and not any(abs(h - t) <= 0.006 + 1e-3 * abs(t) for h in hv for t in tl)
            worst = (bad, {'label': label, 'text report': tl, 'rich report': hv})
        else:
            name, col = column
            V = lambda n: _float_series(m, n)
            arr = [float(x) for x in list(dfs[name][col])]
            cands = []
            for title in TABLE_TITLES[:3]:
                spec_t = table_oracle(m, V, title)
                if spec_t is None:
                    continue
                nrows, first, cols = spec_t
                for colf in cols:
                    try:
                        cands.append([float(colf(r)) for r in range(nrows)])
                    except (TypeError, ValueError, IndexError, ZeroDivisionError):
                        pass
            ok = any(len(cnd) == len(arr) and all((a != a and b != b) or abs(a - b) <= 1e-9 * max(1.0, abs(b)) for a, b in zip(arr, cnd)) for cnd in cands)
            worst = (not ok, {'rich table': name, 'column': col, 'values': arr[:6]})
        if worst[0]:
            return worst
    return worst


def _float_series(m, name):
    comp, attr = name.split('.')
    v = getattr(getattr(m, comp), attr).value
    return list(v) if hasattr(v, '__len__') and not isinstance(v, str) else v


def run_rich(unit):
    kind, L, T, K, x = unit['kind'], unit['L'], unit['T'], unit['K'], unit['variant']
    cfg = params_for(kind, L, T, K, x)
    desc = {'harness': 'rich-writer-vs-text-report', 'kind': kind, 'L': L, 'T': T, 'K': K, 'variant': x}
    log = harness.UnitLog(desc)
    prepared(cfg)
    zv = {}

    def fn():
        m, vals, text = symbolic_report(cfg)
        simple, dfs = _rich_lists(m, True)
        return m, vals, text, simple, dfs
    n = 0
    for pr in core.explore(fn, max_paths=60, catch=(RuntimeError,)):
        log.path(pr)
        n += 1
        if pr.aborted:
            continue
        if pr.error is not None:
            raise pr.error
        m, vals, text, simple, dfs = pr.value
        c = pr.ctx
        harness.reachable(log, c, 1500)
        tl = _text_labels(text, c.tokens)
        for lst in simple:
            for it in lst:
                lab = str(it.parameter).strip()
                mk = core.markers_in(str(it.value))
                if not mk or lab not in tl or lab in RICH_NOT_COMPARED:
                    continue
                t = c.tokens[mk[0][1]][0]
                harness.discharge(log, c, f'rich/HTML report: "{lab}" shows the figure the text report shows under that label',
                                  z3.Or([t == tt for tt in tl[lab]]), zv, lambda inp, lab=lab: concrete_rich(cfg, label=lab), sample=(n == 1 and lab.startswith('Average Net')))
        V = lambda name: vals[name] if name in vals else _missing(m, name)
        cands = []
        for title in TABLE_TITLES[:3]:
            spec_t = table_oracle(m, V, title)
            if spec_t is None:
                continue
            nrows, first, cols = spec_t
            for colf in cols:
                try:
                    col = [core.lift(colf(r)) for r in range(nrows)]
                except (TypeError, ValueError, IndexError, KeyError):
                    continue
                if all(t_ is not None for t_ in col):
                    cands.append(col)
        for name, df in dfs.items():
            if not isinstance(df, dict):
                continue
            for col, arr in df.items():
                if col.startswith('Year') or col == 'index':
                    continue
                terms = [core.lift(x_) for x_ in list(arr)]
                if any(t_ is None for t_ in terms):
                    continue
                same_len = [cnd for cnd in cands if len(cnd) == len(terms)]
                prop = z3.Or([z3.And([a == b for a, b in zip(terms, cnd)]) for cnd in same_len]) if same_len else z3.BoolVal(False)
                rec = (name, col.split('|')[0].split('(')[0].strip()) in KNOWN_RICH_COLUMNS
                harness.discharge(log, c, f'rich/HTML report, table {name}: column "{col.split("|")[0]}" is a column of the text report\'s profile tables (same figure in every year)'
                                  + (' [recorded]' if rec else ''), prop, zv, lambda inp, name=name, col=col: concrete_rich(cfg, column=(name, col)),
                                  finding=('C09-rich-report-columns-differ-from-text-report' if rec else None))
    log.d['rich_labels_not_compared'] = RICH_NOT_COMPARED
    yield log.result()


KNOWN_RICH_COLUMNS = set()

def units(tier, seed):
    us = [{'kind': k, 'L': L, 'T': T, 'K': K, 'variant': x} for (k, L, T, K, x) in CONFIGS[tier]]
    us += [{'harness': 'rich', 'kind': k, 'L': L, 'T': T, 'K': K, 'variant': x} for (k, L, T, K, x) in RICH_CONFIGS[tier]]
    return us


def replay(cex):
    c = cex['config']
    return concrete_report(params_for(c['kind'], c['L'], c['T'], c['K'], c['variant']))
