"""CLI: python -m symx.check <Cxx> --tier quick|thorough

exit 0  property held on everything explored (KNOWN-FINDING lines possible)
exit 1  VIOLATION property=<id> replay=<path>   (only for counterexamples replayed on the real code)
exit 3  harness error (vacuous harness, crash inside a harness, counterexample that does not reproduce)
"""
from __future__ import annotations

import argparse
import importlib
import json
import os
import sys
import time

HERE = os.path.dirname(os.path.dirname(os.path.abspath(__file__)))


def load_known():
    p = os.path.join(HERE, 'known_findings.json')
    if not os.path.exists(p):
        return []
    with open(p) as f:
        return json.load(f)


def main(argv=None):
    ap = argparse.ArgumentParser()
    ap.add_argument('prop')
    ap.add_argument('--tier', default=os.environ.get('VERIF_TIER', 'quick'), choices=['quick', 'thorough'])
    ap.add_argument('--jobs', type=int, default=int(os.environ.get('SYMX_JOBS', '0')) or None)
    ap.add_argument('--only', default=None, help='substring filter on unit descriptions (development)')
    ap.add_argument('--no-evidence', action='store_true')
    a = ap.parse_args(argv)
    seed = int(os.environ.get('VERIF_SEED', '0') or 0)
    pid = a.prop.upper()
    t0 = time.time()

    from . import gx, pool  # imports the real code from /repo/src
    import z3
    mod = importlib.import_module(f'symx.props.{pid.lower()}')
    known = [k for k in load_known() if k.get('property') == pid]
    known_ids = {k['id']: k for k in known if k.get('status') == 'known'}

    units = mod.units(a.tier, seed)
    for u in units:
        u['tier'] = a.tier
    if a.only:
        units = [u for u in units if a.only in json.dumps(u, sort_keys=True)]
    if seed:
        import random
        random.Random(seed).shuffle(units)
    ut = getattr(mod, 'UNIT_TIMEOUT', {'quick': 240, 'thorough': 1500})[a.tier]
    res = pool.run_units(mod.run_unit, units, jobs=a.jobs, unit_timeout=ut)

    agg = {'paths': 0, 'reachable': 0, 'obligations': 0, 'discharged': 0, 'solver_s': 0.0, 'max_query_s': 0.0,
           'error_paths': 0, 'aborted_paths': 0, 'selfcheck_cases': 0, 'selfcheck_max_rel': 0.0,
           'branch_unknown': 0, 'trivial': 0}
    inconclusive, cexs, samples, notes, harness_errors, unit_rows = [], [], [], [], [], []
    nontrivial_units = 0
    for unit, parts, status, secs in res:
        row = {'unit': {k: v for k, v in unit.items() if k != 'tier'}, 'status': status.split('\n')[0][:200], 'wall_s': round(secs, 2)}
        pth = obl = 0
        for p in parts:
            for k in ('paths', 'reachable', 'obligations', 'discharged', 'solver_s', 'error_paths', 'aborted_paths',
                      'selfcheck_cases', 'branch_unknown', 'trivial'):
                agg[k] += p.get(k, 0)
            agg['max_query_s'] = max(agg['max_query_s'], p.get('max_query_s', 0))
            agg['selfcheck_max_rel'] = max(agg['selfcheck_max_rel'], p.get('selfcheck_max_rel', 0))
            inconclusive += [dict(i, unit=row['unit']) for i in p.get('inconclusive', [])]
            cexs += p.get('cex', [])
            samples += p.get('samples', [])
            notes += [n for n in p.get('notes', []) if n not in notes]
            pth += p.get('paths', 0)
            obl += p.get('obligations', 0)
        row['paths'], row['obligations'] = pth, obl
        if obl and any(p.get('reachable', 0) for p in parts):
            nontrivial_units += 1
        unit_rows.append(row)
        if status == 'timeout':
            inconclusive.append({'unit': row['unit'], 'why': f'unit killed at the {ut}s wall-clock limit'})
        elif status != 'done':
            harness_errors.append({'unit': row['unit'], 'error': status[-1500:]})

    # classify counterexamples
    os.makedirs(os.path.join(HERE, 'replays'), exist_ok=True)
    for old in os.listdir(os.path.join(HERE, 'replays')):
        if old.startswith(pid + '-') and old.endswith('.json'):
            os.unlink(os.path.join(HERE, 'replays', old))
    violations, known_hit, unreproduced = [], {}, []
    known_unreproduced = 0
    for cx in cexs:
        if not cx.get('reproduced'):
            if cx.get('finding') in known_ids:
                known_unreproduced += 1     # a recorded finding whose replay was not applicable in this configuration: neither alarm nor error
                continue
            unreproduced.append(cx)
            continue
        fid = cx.get('finding')
        if fid and fid in known_ids:
            known_hit.setdefault(fid, cx)
            continue
        violations.append(cx)
    lines = []
    seen = set()
    nrep = 0
    for cx in violations:
        key = (cx['obligation'], json.dumps(cx['config'], sort_keys=True, default=str))
        if key in seen:
            continue
        seen.add(key)
        if nrep >= 20:
            continue
        nrep += 1
        rp = os.path.join('replays', f'{pid}-{nrep:03d}.json')
        with open(os.path.join(HERE, rp), 'w') as f:
            json.dump({'property': pid, 'harness': f'symx.props.{pid.lower()}', 'cex': cx}, f, indent=1, default=str)
        lines.append(f'VIOLATION property={pid} replay={rp}')
        print(f'  violated obligation: {cx["obligation"]}  config={json.dumps(cx["config"], default=str)[:300]}')
        print(f'  inputs={json.dumps(cx["inputs"], default=str)[:600]}')
        print(f'  detail={json.dumps(cx["detail"], default=str)[:600]}')
    for fid, cx in known_hit.items():
        print(f'KNOWN-FINDING: property={pid} {fid}: {known_ids[fid]["what"]}')
    for fid in known_ids:
        if fid not in known_hit:
            print(f'note: known finding {fid} was not reproduced by this run (stale entry or region not explored in this tier)')
    for ln in lines:
        print(ln)

    vacuous = agg['reachable'] == 0 or agg['obligations'] == 0
    wall = time.time() - t0
    meta = getattr(mod, 'META', {})
    funcs = []
    for q in getattr(mod, 'FUNCTIONS', []):
        try:
            funcs.append(gx.source_hash(q))
        except Exception as e:  # renamed entry point
            funcs.append({'name': q, 'error': str(e)})
    ev = {
        'property_id': pid, 'tier': a.tier, 'seed': seed, 'level': 'other', 'wall_s': round(wall, 2),
        'violations': len(lines),
        'coverage': {
            'explanation': meta.get('explanation', ''),
            'technique': 'bounded symbolic execution of the real Python functions on z3-term proxies (symx) + one SMT query per (path, obligation); unsat = holds within the bounds, sat = replayed on the real code in floats',
            'functions_encoded': funcs,
            'bounds': meta.get('bounds', {}).get(a.tier, meta.get('bounds', {})),
            'outside_bounds': meta.get('outside', []),
            'units': len(units), 'paths': agg['paths'], 'reachability_witnesses': agg['reachable'],
            'error_paths': agg['error_paths'], 'aborted_paths': agg['aborted_paths'],
            'obligations': agg['obligations'], 'discharged': agg['discharged'],
            'inconclusive': len(inconclusive), 'inconclusive_list': inconclusive[:40],
            'counterexamples_reproduced': len(violations) + len(known_hit), 'counterexamples_unreproduced': len(unreproduced),
            'unreproduced_list': unreproduced[:5],
            'branch_feasibility_unknown': agg['branch_unknown'],
            'evaluations': agg['obligations'], 'distinct_nontrivial': agg['obligations'] - agg['trivial'],
            'rule': meta.get('rule', 'one evaluation = one SMT query for one obligation on one explored path of one configuration; '
                                     'non-trivial = the obligation was not syntactically true after simplification'),
            'solver': {'name': 'z3', 'version': z3.get_version_string(), 'time_s': round(agg['solver_s'], 2),
                       'max_query_s': round(agg['max_query_s'], 3)},
            'self_check': {'concrete_cases': agg['selfcheck_cases'], 'max_rel_error': agg['selfcheck_max_rel']},
            'stubs': meta.get('stubs', []),
            'known_findings_printed': sorted(known_hit.keys()),
            'checker_cmd': f'./.venv/bin/python -m symx.check {pid} --tier {a.tier}',
            'trusted_base': meta.get('trusted_base', ['z3 5.1', 'CPython 3.12', 'numpy object-dtype dispatch', 'symx proxies (encoding self-check against float runs)']),
            'samples': samples[:8] if samples else [{'note': 'no sample recorded'}],
            'unit_table': unit_rows[:400],
            'notes': notes[:40],
            'harness_errors': harness_errors[:10],
        },
        'assumptions': meta.get('assumptions', []),
    }
    if not a.no_evidence:
        os.makedirs(os.path.join(HERE, 'evidence'), exist_ok=True)
        with open(os.path.join(HERE, 'evidence', f'{pid}.json'), 'w') as f:
            json.dump(ev, f, indent=1, default=str)
        if not a.only:      # a copy per tier, so that the last thorough run stays on record when the quick check runs again
            os.makedirs(os.path.join(HERE, 'evidence', 'tiers'), exist_ok=True)
            with open(os.path.join(HERE, 'evidence', 'tiers', f'{pid}-{a.tier}.json'), 'w') as f:
                json.dump(ev, f, indent=1, default=str)
    print(f'{pid} {a.tier}: units={len(units)} paths={agg["paths"]} reachable={agg["reachable"]} obligations={agg["obligations"]} '
          f'discharged={agg["discharged"]} inconclusive={len(inconclusive)} cex={len(violations)} known={len(known_hit)} '
          f'unreproduced={len(unreproduced)} harness_errors={len(harness_errors)} solver_s={agg["solver_s"]:.1f} wall_s={wall:.1f}')
    if lines:
        return 1
    if harness_errors:
        for h in harness_errors[:3]:
            print('HARNESS-ERROR', json.dumps(h['unit'], default=str)[:200], h['error'][-800:])
        return 3
    if unreproduced:
        print(f'HARNESS-ERROR {len(unreproduced)} solver counterexample(s) did not reproduce on the real code; first: '
              f'{json.dumps(unreproduced[0], default=str)[:1200]}')
        return 3
    if vacuous:
        print('HARNESS-ERROR vacuous run: no reachable path / no obligation')
        return 3
    return 0


def _main_in_private_tmp():
    """everything the real code writes to the system temp directory during a run (client result files, Monte-Carlo inputs ...) goes to a directory
    of this run, removed at the end: a check leaves nothing behind under /tmp."""
    import shutil
    import tempfile
    d = tempfile.mkdtemp(prefix='symx_run_')
    old_env, old_td = os.environ.get('TMPDIR'), tempfile.tempdir
    os.environ['TMPDIR'] = d
    tempfile.tempdir = d
    try:
        return main()
    finally:
        tempfile.tempdir = old_td
        if old_env is None:
            os.environ.pop('TMPDIR', None)
        else:
            os.environ['TMPDIR'] = old_env
        shutil.rmtree(d, ignore_errors=True)


if __name__ == '__main__':
    sys.exit(_main_in_private_tmp())
