"""C14, statistics half: the real MC_GeoPHIRES3.main summarises symbolic rows (pandas / matplotlib / executor / json stubbed)."""
from __future__ import annotations

import z3

from .. import core, harness, mcworld, shim
from ..core import SymReal, eq
from ..mcworld import MC

BOUNDS = {'quick': [(2, 1, 1), (3, 2, 0)], 'thorough': [(2, 1, 1), (3, 2, 0), (3, 2, 2), (4, 2, 1), (5, 2, 1), (6, 3, 2), (8, 2, 0), (5, 3, 3), (7, 1, 4)]}   # (rows k, outputs m, failed iterations)


def units(tier):
    us = [{'harness': 'stats', 'k': k, 'm': m, 'failed': f} for (k, m, f) in BOUNDS[tier]]
    # two iterations that drew the same (discrete) sample vector: their rows are textually identical, and both count
    us += [{'harness': 'stats', 'k': k, 'm': m, 'failed': 0, 'dup': True} for (k, m) in ([(3, 1)] if tier == 'quick' else [(3, 1), (4, 2), (2, 1)])]
    return us


def _col(results, j):
    return [r[j] for r in results]


def _sorted(xs):
    xs = list(xs)
    n = len(xs)
    for i in range(n):                      # exact sorting network (bubble) with min/max as ite terms: no forks
        for j in range(n - 1 - i):
            a, b = xs[j], xs[j + 1]
            xs[j], xs[j + 1] = core.smin(a, b), core.smax(a, b)
    return xs


class StatsNP:
    """numpy stand-in for the summariser: exact encodings over proxies, column-wise (axis 0)."""

    def __getattr__(self, k):
        raise core.HarnessError(f'numpy.{k} is not modelled in the statistics harness')

    @staticmethod
    def _cols(results):
        return [[r[j] for r in results] for j in range(len(results[0]))]

    def nanmin(self, r, axis=0):
        return [core.smin(c) for c in self._cols(r)]

    def nanmax(self, r, axis=0):
        return [core.smax(c) for c in self._cols(r)]

    min, max, amin, amax = nanmin, nanmax, nanmin, nanmax

    def nanmedian(self, r, axis=0):
        out = []
        for c in self._cols(r):
            s = _sorted(c)
            n = len(s)
            out.append(s[n // 2] if n % 2 else (s[n // 2 - 1] + s[n // 2]) / 2.0)
        return out

    median = nanmedian

    def nansum(self, r, axis=0):
        return AList(sum(c[1:], c[0]) for c in self._cols(r))

    sum = nansum

    def average(self, r, axis=0):
        return [sum(c[1:], c[0]) / len(c) for c in self._cols(r)]

    nanmean = average
    mean = average

    def nanstd(self, r, axis=0):
        out = []
        for c in self._cols(r):
            mu = sum(c[1:], c[0]) / len(c)
            var = sum([(x - mu) * (x - mu) for x in c][1:], (c[0] - mu) * (c[0] - mu)) / len(c)
            out.append(core.apply_uf('sqrt', var))
        return out

    std = nanstd


class AList(list):
    """list with elementwise division / multiplication (what a numpy vector would do)."""

    def __init__(self, it):
        super().__init__(it)

    def __truediv__(self, o):
        return AList(x / o for x in self)

    def __mul__(self, o):
        return AList(x * o for x in self)


def ref_stats(col):
    n = len(col)
    s = _sorted(col)
    mu = sum(col[1:], col[0]) / n
    var = sum([(x - mu) * (x - mu) for x in col][1:], (col[0] - mu) * (col[0] - mu)) / n
    return {'minimum': core.smin(col), 'maximum': core.smax(col), 'median': s[n // 2] if n % 2 else (s[n // 2 - 1] + s[n // 2]) / 2.0,
            'average': mu, 'mean': mu, 'standard deviation': ('sqrt', var)}


def run_main(k, m, failed, dup=False):
    outputs = [f'Out {chr(65 + j)}' for j in range(m)]
    inputs = [['In X', 'uniform', '1', '2']]
    w = mcworld.MCWorld(outputs, [True] * m, False)
    w.fs['/w/settings.txt'] = ''.join('INPUT, ' + ', '.join(s) + '\n' for s in inputs) + ''.join(f'OUTPUT, {o}\n' for o in outputs) + \
        f'ITERATIONS, {k + failed}\nMC_OUTPUT_FILE, /w/MC_Result.txt\n'
    vals = [[core.sym(f'y[{r}][{j}]', -1e9, 1e9) for j in range(m)] for r in range(k)]
    xin = [core.sym(f'x[{r}]', 1, 2) for r in range(k)]
    if dup:
        vals[1], xin[1] = vals[0], xin[0]
    captured = {}

    class Executor:
        def __init__(self, *a, **kw):
            pass

        def __enter__(self):
            return self

        def __exit__(self, *a):
            return False

        def map(self, fn, args, *a, **kw):
            # the K successful iterations have appended their rows (row building is the subject of the rows units)
            first = None
            for r in range(k):
                row = ', '.join(f'{vals[r][j]!s}' for j in range(m)) + f', (In X:{xin[r]!s};)\n'
                if dup and r == 1:
                    row = first        # the same figures print as the same text
                first = first or row
                w.fs['/w/MC_Result.txt'] += row

    class Futures:
        ProcessPoolExecutor = Executor

    class Concurrent:
        futures = Futures

    class Col:
        def __init__(self, xs):
            self.xs = xs

        def tolist(self):
            return list(self.xs)

    class DF:
        def __init__(self, text=None):
            self.columns, self.rows = [], []
            self.loc = self
            if text is not None:
                lines = text.splitlines()
                self.columns = [c.strip() if i else c for i, c in enumerate(lines[0].split(','))]
                for ln in lines[1:]:
                    head, sep, tail = ln.partition(', (')
                    self.rows.append([x.strip() for x in head.split(',')] + [' (' + tail])

        def __getitem__(self, c):
            j = self.columns.index(c)
            return Col([r[j] for r in self.rows])

        def __setitem__(self, c, v):
            if isinstance(c, int):
                while len(self.rows) <= c:
                    self.rows.append(None)
                self.rows[c] = list(v)
            else:
                self.columns.append(c)

    class PD:
        @staticmethod
        def read_csv(path):
            return DF(w.fs[str(path)])

        @staticmethod
        def DataFrame(x=None):
            return x if isinstance(x, DF) else DF()

    class Null:
        def __getattr__(self, kname):
            return Null()

        def __call__(self, *a, **kw):
            if a and isinstance(a[0], list):
                return ([], [])
            return Null()

        def __iter__(self):
            return iter(([], []))

        def __getitem__(self, i):
            return []

    class Json:
        @staticmethod
        def dumps(d, *a, **kw):
            captured['json'] = d
            return '{}'

    class OsStub:
        def __getattr__(self, kname):
            import os
            return getattr(os, kname)

        @staticmethod
        def chdir(p):
            pass
    binds = mcworld.shadows(w)
    binds = [b for b in binds if b[1] not in ('np', 'float', 'Path')]
    binds += [(MC, 'np', StatsNP()), (MC, 'float', shim.FloatShadow), (MC, 'concurrent', Concurrent), (MC, 'pd', PD), (MC, 'plt', Null()),
              (MC, 'json', Json), (MC, 'os', OsStub())]
    import pathlib

    class PathStub(type(pathlib.Path())):
        def exists(self):
            return str(self) in w.fs
    binds.append((MC, 'Path', PathStub))
    err = None
    with shim.shadow(*binds):
        try:
            MC.main(command_line_args=['/x/GEOPHIRESv3.py', '/w/base_input.txt', '/w/settings.txt', '/w/MC_Result.txt'])
        except RuntimeError as e:       # main() gives up (e.g. 'No MC results generated'): a behaviour of the summariser, judged below
            err = e
    captured['error'] = err
    return outputs, vals, w.fs['/w/MC_Result.txt'], (captured.get('json') if err is None else {'__error__': repr(err)[:160]})


def run_unit(unit):
    k, m, failed = unit['k'], unit['m'], unit['failed']
    dup = bool(unit.get('dup'))
    cfg = {'harness': 'statistics', 'rows': k, 'outputs': m, 'failed_iterations': failed}
    if dup:
        cfg['rows 1 and 2'] = 'textually identical (two iterations drew the same discrete sample vector)'
    log = harness.UnitLog(cfg)
    zv = {f'y[{r}][{j}]': z3.Real(f'y[{r}][{j}]') for r in range(k) for j in range(m)}

    def concrete(inp):
        rows = [[float(inp.get(f'y[{r}][{j}]', 0.0)) for j in range(m)] for r in range(k)]
        if dup:
            rows[1] = list(rows[0])
        v, d = replay_stats(rows, failed, same_input=(0, 1) if dup else None)
        if v:
            return v, d
        # the same check on rows whose figures print short ('1.5') and on rows whose figures print long: how a row is read back must
        # not depend on how many characters its figures take
        for rows2 in ([[0.5 + r + 2 * j for j in range(m)] for r in range(k)], [[1234567.125 * (r + 1) + j for j in range(m)] for r in range(k)]):
            if dup:
                rows2[1] = list(rows2[0])
            v, d = replay_stats(rows2, failed, same_input=(0, 1) if dup else None)
            if v:
                return v, d
        return False, d
    n = 0
    for pr in core.explore(lambda: run_main(k, m, failed, dup), max_paths=2000):
        log.path(pr)
        n += 1
        if pr.error is not None:
            raise pr.error
        if pr.aborted:
            continue
        if n == 1:
            harness.reachable(log, pr.ctx, 2000)
        c = pr.ctx
        outputs, vals, text, js = pr.value
        failed_main = isinstance(js, dict) and '__error__' in js
        harness.discharge(log, c, 'main() summarises the rows that exist (it does not give up or lose rows while reading them back)', not failed_main, zv, concrete)
        if failed_main:
            continue
        lines = text.splitlines()
        nrows = sum(1 for ln in lines[1:] if ln.rstrip().endswith(';)'))
        harness.discharge(log, c, 'after summarising, the results file still holds every row the iterations appended', nrows == k, zv, concrete)
        for j, o in enumerate(outputs):
            ref = ref_stats([vals[r][j] for r in range(k)])
            try:
                at = lines.index(f'{o}:')
            except ValueError:
                harness.discharge(log, c, f'the statistics block of {o} is written', False, zv, concrete)
                continue
            for i, (label, want) in enumerate(ref.items()):
                ln = lines[at + 1 + i]
                name, _, tokpart = ln.partition(':')
                tk = core.unmark(tokpart)
                ok_label = name.strip() == label and tk is not None
                if not ok_label:
                    harness.discharge(log, c, f'{o}: line "{label}" is present with a figure', False, zv, concrete)
                    continue
                term, spec = tk
                if isinstance(want, tuple):
                    wv = core.lift(core.apply_uf('sqrt', want[1]))
                else:
                    wv = core.lift(want)
                harness.discharge(log, c, f'{o}: reported {label} equals the {label} recomputed from the rows that exist', term == wv, zv, concrete,
                                  timeout_ms=20000, sample=(n == 1 and j == 0 and i == 0))
                jv = js.get(o, {}).get(label) if isinstance(js, dict) else None
                harness.discharge(log, c, f'{o}: JSON summary {label} equals the text summary', jv is not None and core.lift(jv) is not None and bool(z3.is_true(z3.simplify(core.lift(jv) == term))),
                                  zv, concrete)
    yield log.result()


def replay_stats(rows, failed, same_input=None):
    """the REAL main() with real numpy / pandas / matplotlib / json on real files in a temp dir; only the process pool is replaced
    by a stand-in that appends the given concrete rows (as the successful iterations would)."""
    import json
    import os
    import shutil
    import sys
    import tempfile
    import numpy as np
    k, m = len(rows), len(rows[0])
    d = tempfile.mkdtemp(prefix='symx_c14s_')
    cwd, argv = os.getcwd(), sys.argv
    try:
        outputs = [f'Out {chr(65 + j)}' for j in range(m)]
        inp, st, out = os.path.join(d, 'in.txt'), os.path.join(d, 'settings.txt'), os.path.join(d, 'MC_Result.txt')
        open(inp, 'w').write('Reservoir Depth, 3\n')
        with open(st, 'w') as f:
            f.write('INPUT, In X, uniform, 1, 2\n' + ''.join(f'OUTPUT, {o}\n' for o in outputs) + f'ITERATIONS, {k + failed}\nMC_OUTPUT_FILE, {out}\n')

        class Executor:
            def __init__(self, *a, **kw):
                pass

            def __enter__(self):
                return self

            def __exit__(self, *a):
                return False

            def map(self, fn, args, *a, **kw):
                with open(out, 'a') as f:
                    for r in range(k):
                        rx = same_input[0] if (same_input and r in same_input) else r      # iterations that drew the same sample vector
                        f.write(', '.join(repr(float(x)) for x in rows[r]) + f', (In X:{1.0 + (rx + 1) / (k + 2)!r};)\n')

        class Futures:
            ProcessPoolExecutor = Executor

        class Concurrent:
            futures = Futures
        import contextlib
        import io
        import warnings
        err = None
        with shim.shadow((MC, 'concurrent', Concurrent)), contextlib.redirect_stdout(io.StringIO()), warnings.catch_warnings():
            warnings.simplefilter('ignore')
            try:
                MC.main(command_line_args=['/x/GEOPHIRESv3.py', inp, st, out])
            except Exception as e:
                err = repr(e)[:200]
        js = {}
        if os.path.exists(out.replace('.txt', '.json')):
            js = json.load(open(out.replace('.txt', '.json')))
        arr = np.array(rows, dtype=float)
        want = {'minimum': arr.min(0), 'maximum': arr.max(0), 'median': np.median(arr, 0), 'average': arr.mean(0), 'mean': arr.mean(0),
                'standard deviation': arr.std(0)}
        bad = []
        kept = sum(1 for ln in open(out).read().splitlines()[1:] if ln.rstrip().endswith(';)')) if os.path.exists(out) else 0
        if kept != k:
            bad.append(('results file', 'rows kept after summarising', kept, k))
        for j, o in enumerate(outputs):
            for label, w in want.items():
                got = js.get(o, {}).get(label)
                if got is None or abs(float(got) - float(w[j])) > 1e-6 * max(1.0, abs(float(w[j]))):
                    bad.append((o, label, got, float(w[j])))
        return bool(bad) or err is not None, {'rows': rows, 'failed_iterations': failed, 'mismatches (output, statistic, reported, recomputed)': bad[:6], 'error': err}
    finally:
        os.chdir(cwd)
        sys.argv = argv
        shutil.rmtree(d, ignore_errors=True)
