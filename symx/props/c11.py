"""C11 — economic results scale the way the definitions require (DESIGN §4 C11)."""
from __future__ import annotations

import z3

from .. import core, econ, harness, rel, shim
from ..core import eq, sand, sor, snot, SymReal, SymBool
from . import c04, c02

ID = 'C11'
FUNCTIONS = ['geophires_x.Economics:Economics.Calculate', 'geophires_x.Economics:CalculateLCOELCOHLCOC',
             'geophires_x.EconomicsAddOns:EconomicsAddOns.Calculate', 'geophires_x.SurfacePlantIndustrialHeat:SurfacePlantIndustrialHeat.Calculate']
UNIT_TIMEOUT = {'quick': 280, 'thorough': 1700}
KINDS = {'quick': ['electricity', 'direct-use', 'heat-pump', 'district-heating', 'chiller', 'cogen-topping'],
         'thorough': list(c04.KINDS)}
LK = {'quick': (2, 1), 'thorough': (3, 2)}
META = {
    'explanation': 'Relations between pairs of runs are decided as product programs built from ONE symbolic exploration of the real '
                   'Economics.Calculate (real Model per end-use, three economic models): the second run\'s path conditions and outputs '
                   'are the first run\'s terms with the input variables substituted (cost inputs x k; sale prices + delta; ITC flag '
                   'off; efficiency / 2). For every pair of (merged) paths z3 proves: every levelized cost scales by exactly k; a '
                   'price change leaves levelized costs unchanged and moves NPV strictly in the same direction when energy sold is '
                   'positive; a zero-rate ITC changes nothing; halving the end-use efficiency doubles LCOH (through the real '
                   'SurfacePlantIndustrialHeat.Calculate); an all-zero add-on leaves every output of the real add-on run equal to the '
                   'run without add-on.',
    'bounds': {t: {'kinds': KINDS[t], 'economic models': [1, 2, 3], '(L,K)': LK[t], 'time steps per year': 2} for t in KINDS},
    'outside': ['non-homogeneous correlation routes (exploration cost 1+0.6*Cwell, piping): the property speaks of cost inputs; totals are user-fixed here so production is held fixed',
                'lifetimes beyond the bound', 'IEEE rounding', 'AGS/SUTRA/S-DAC-GT'],
    'assumptions': ['real arithmetic', 'inputs and their scaled / shifted images inside declared ranges', 'denominators non-zero',
                    'energy sold > 0 in every year for the strict NPV clause', 'discount rate >= 0'],
    'stubs': ['as C04'],
}

COSTS = [('economics.totalcapcost', 0, 1000), ('economics.oamtotalfixed', 0, 100), ('economics.TotalGrant', -1000, 1000),
         ('economics.OtherIncentives', -1000, 1000), ('economics.FlatLicenseEtc', -1000, 1000), ('economics.AnnualLicenseEtc', -1000, 1000),
         ('economics.TaxRelief', 0, 100), ('surfaceplant.electricity_cost_to_buy', 0, 1), ('economics.ngprice', 0, 1)]
# component costs the user may state as well (with the totals stated they do not enter the totals, but they ARE cost inputs: all are scaled)
COMPONENTS = ['ccstimfixed', 'ccexplfixed', 'ccgathfixed', 'ccplantfixed', 'oamwellfixed', 'oamplantfixed', 'oamwaterfixed']
COSTS += [(f'economics.{c_}', 0, 200) for c_ in COMPONENTS]
LEV = ['LCOE', 'LCOH', 'LCOC']


def cfg_of(kind, em, tier):
    L, K = LK[tier]
    c = c04.cfg_of(kind, L, K, False)
    c['em'] = em
    return c


def spec_of(cfg):
    L = cfg['L']
    s = [(n, 'real', lo, hi) for n, lo, hi in COSTS if not (n == 'economics.ngprice' and cfg['kind'] != 'district-heating')]
    s += [('economics.RITC', 'real', 0, 1), ('economics.RITC.Provided', 'bool', None, None), ('economics.FixedInternalRate', 'real', 0, 100)]
    p0 = c04.products_of(cfg['kind'])[0]
    s += [(f'economics.PTC{p0}', 'real', 0, 10), (f'economics.PTC{p0}.Provided', 'bool', None, None)]      # production tax credit of the first product
    for p in c04.products_of(cfg['kind']):
        s += [(f'economics.{p}StartPrice', 'real', 0, 100), (f'economics.{p}EndPrice', 'real', 0, 100), (f'economics.{p}EscalationRate', 'real', 0, 100)]
        s += [(f'surfaceplant.{c04.PRODUCTS[p]}[{i}]', 'real', 0, None) for i in range(L)]
    return s


def drive(cfg, vals, symbolic):
    base = {k: v for k, v in cfg.items() if k not in ('harness',)}
    m = c04.prepared(base).reset()
    v = dict(vals)
    v.update(c04.FIXED)
    v['economics.PTCDuration'] = cfg['L']      # (a credit lasting longer than the plant raises IndexError on the pinned tree: robustness, not C11)
    v['surfaceplant.piping_length'] = 5.0      # a transmission pipeline is present (its correlation cost is not a cost input: totals are user-fixed)
    for c_ in COMPONENTS:
        v[f'economics.{c_}.Valid'] = True
        v[f'economics.{c_}.Provided'] = True
    econ.install(m, v)
    econ.run_econ(m, symbolic=symbolic)
    return m


def outputs(m):
    e = m.economics
    return {'LCOE': e.LCOE.value, 'LCOH': e.LCOH.value, 'LCOC': e.LCOC.value, 'NPV': e.ProjectNPV.value, 'CCap': e.CCap.value,
            'Coam': e.Coam.value}


def in_range(spec, subst_map):
    cs = []
    for name, kind, lo, hi in spec:
        if kind != 'real' or name not in subst_map:
            continue
        t = subst_map[name]
        if lo is not None:
            cs.append(t >= core.rv(lo))
        if hi is not None:
            cs.append(t <= core.rv(hi))
    return cs


def run_unit(unit):
    cfg = {k: v for k, v in unit.items() if k != 'tier'}
    if cfg.get('harness') == 'addon':
        yield from run_addon(cfg, unit['tier'])
        return
    if cfg.get('harness') == 'efficiency':
        yield from run_efficiency(cfg, unit['tier'])
        return
    spec = spec_of(cfg)
    log = harness.UnitLog(cfg)
    c04.prepared({k: v for k, v in cfg.items() if k != 'harness'})
    paths = []
    assume = None
    zv = None

    def fn():
        vals, zvv = econ.make_symbolic(spec)
        m = drive(cfg, vals, symbolic=True)
        return zvv, outputs(m)
    for pr in core.explore(fn, max_paths=20000):
        log.path(pr)
        if pr.error is not None:
            raise pr.error
        if pr.aborted:
            continue
        zv, outs = pr.value
        assume = list(pr.ctx.assume)
        paths.append(rel.record(pr.ctx, outs))
    k = z3.Real('k')
    delta = z3.Real('delta')
    prods = c04.products_of(cfg['kind'])
    tmo = 20000 if unit['tier'] == 'quick' else 60000
    base_reach, _, _ = core.check_sat(assume + paths[0].cons, 3000)
    if base_reach == 'sat':
        log['reachable'] += 1

    def decide(name, base_conds, prop, inputs_vars, replay):
        """one relational obligation; replayed through two concrete runs."""
        if harness._CEX_SEEN[0] >= harness.MAX_CEX_PER_PROCESS:
            return
        log['obligations'] += 1
        r, mdl, dt = core.check_sat(base_conds + [z3.Not(prop)], tmo)
        log['solver_s'] += dt
        log['max_query_s'] = max(log['max_query_s'], dt)
        if r == 'unsat':
            log['discharged'] += 1
            if len(log['samples']) < 3:
                log['samples'].append({'obligation': name, 'verdict': 'unsat', 'time_s': round(dt, 3), 'config': cfg})
            return
        if r != 'sat':
            log['inconclusive'].append({'obligation': name, 'why': 'solver ' + r})
            return
        inp = harness.model_inputs(mdl, inputs_vars)
        try:
            viol, detail = replay(inp)
        except ZeroDivisionError:
            viol, detail = False, {'note': 'division by zero'}
        how = 'model'
        if not viol:
            # the model may rest on solver-chosen values of uninterpreted functions (cost correlations): before the counterexample is classed as
            # not reproducible, the same obligation is replayed at a few plain points of the input domain
            for pi in probe_points(inputs_vars):
                try:
                    v2, d2 = replay(pi)
                except (ZeroDivisionError, FloatingPointError, ValueError):
                    continue
                if v2:
                    viol, detail, inp, how = True, d2, pi, 'concrete point of the input domain (the solver model did not survive the uninterpreted functions)'
                    break
        log['cex'].append({'obligation': name, 'finding': None, 'config': cfg, 'reproduced': bool(viol), 'inputs': inp, 'detail': detail,
                           'how': how, 'attempts': []})
        if viol:
            harness._CEX_SEEN[0] += 1

    def probe_points(inputs_vars):
        rng = {n: (lo, hi) for n, kind, lo, hi in spec if kind == 'real'}
        for f, kk in ((0.6, 2.0), (0.3, 0.5), (0.85, 3.0)):
            pi = {}
            for n, var in inputs_vars.items():
                if n == 'k':
                    pi[n] = kk
                elif n == 'delta':
                    pi[n] = 0.01
                elif z3.is_bool(var):
                    pi[n] = True
                else:
                    lo, hi = rng.get(n, (0.0, 1.0))
                    lo = 0.0 if lo is None else float(lo)
                    hi = lo + 10.0 if hi is None else float(hi)
                    # keep scaled values inside their ranges (x k) and rates small
                    span = (hi - lo) / (4.0 if n in cost_names else 1.0)
                    pi[n] = lo + span * f if lo >= 0 else span * f * 0.1
                    if 'Rate' in n or n.endswith('RITC') or 'Price' in n:
                        pi[n] = min(pi[n], 0.05 + 0.1 * f)
            yield pi

    # (a) all cost inputs x k  =>  every levelized cost x k
    cost_names = [n for n, _, _ in COSTS if n in zv]
    sub_a = [(zv[n], k * zv[n]) for n in cost_names]
    rng_a = in_range(spec, {n: k * zv[n] for n in cost_names})
    g_lev = rel.group_weak(paths, LEV)
    ivars = dict(zv, k=k, delta=delta)

    def replay_scale(inp):
        v1 = econ.concrete_vals(spec, inp)
        v2 = dict(v1)
        for n in cost_names:
            v2[n] = v1[n] * inp['k']
        o1, o2 = outputs(drive(cfg, v1, False)), outputs(drive(cfg, v2, False))
        bad = [x for x in LEV if not core.eq(float(o2[x]), inp['k'] * float(o1[x]), rel=1e-6)]
        return bool(bad), {'k': inp['k'], 'run1': {x: float(o1[x]) for x in LEV}, 'run2': {x: float(o2[x]) for x in LEV}, 'differs': bad}
    for (c1, o1) in g_lev:
        for (c2, o2) in g_lev:
            c2s, o2s = rel.substituted(c2, o2, sub_a)
            base = assume + rng_a + [k > 0, c1, c2s]
            for x in LEV:
                if _is_zero(o1[x]) and _is_zero(o2s[x]):
                    continue
                decide(f'cost inputs x k  =>  {x} x k', base, o2s[x] == k * o1[x], ivars, replay_scale)

    # (b) sale prices + delta: levelized costs unchanged, NPV strictly up when energy sold > 0
    g_all = rel.group_weak(paths, LEV + ['NPV'])
    for p in prods:
        names = [f'economics.{p}StartPrice', f'economics.{p}EndPrice']
        sub_b = [(zv[n], zv[n] + delta) for n in names]
        rng_b = in_range(spec, {n: zv[n] + delta for n in names})
        pos = [zv[f'surfaceplant.{c04.PRODUCTS[p]}[{i}]'] > 0 for i in range(cfg['L'])]

        def replay_price(inp, names=names):
            v1 = econ.concrete_vals(spec, inp)
            v2 = dict(v1)
            for n in names:
                v2[n] = v1[n] + inp['delta']
            o1, o2 = outputs(drive(cfg, v1, False)), outputs(drive(cfg, v2, False))
            bad = [x for x in LEV if not core.eq(float(o2[x]), float(o1[x]), rel=1e-9)]
            if not float(o2['NPV']) > float(o1['NPV']):
                bad.append('NPV')
            return bool(bad), {'delta': inp['delta'], 'run1': {x: float(o1[x]) for x in LEV + ['NPV']}, 'run2': {x: float(o2[x]) for x in LEV + ['NPV']}, 'differs': bad}
        for (c1, o1) in g_all:
            for (c2, o2) in g_all:
                c2s, o2s = rel.substituted(c2, o2, sub_b)
                base = assume + rng_b + [delta > 0, c1, c2s]
                for x in LEV:
                    if _is_zero(o1[x]) and _is_zero(o2s[x]):
                        continue
                    decide(f'{p} sale price + delta  =>  {x} unchanged', base, o2s[x] == o1[x], ivars, replay_price)
                decide(f'{p} sale price + delta, energy sold > 0  =>  NPV strictly larger', base + pos, o2s['NPV'] > o1['NPV'], ivars, replay_price)

    # (d) an investment tax credit with rate 0 changes nothing
    flag = zv['economics.RITC.Provided']
    keys = LEV + ['NPV', 'CCap', 'Coam']
    g_k = rel.group_weak(paths, keys)
    sub_d = [(flag, z3.BoolVal(False))]

    def replay_itc(inp):
        v1 = econ.concrete_vals(spec, inp)
        v1['economics.RITC'] = 0.0
        v1['economics.RITC.Provided'] = True
        v2 = dict(v1)
        v2['economics.RITC.Provided'] = False
        o1, o2 = outputs(drive(cfg, v1, False)), outputs(drive(cfg, v2, False))
        bad = [x for x in keys if not core.eq(float(o2[x]), float(o1[x]), rel=1e-9)]
        return bool(bad), {'with zero-rate ITC': {x: float(o1[x]) for x in keys}, 'without': {x: float(o2[x]) for x in keys}, 'differs': bad}
    for (c1, o1) in g_k:
        for (c2, o2) in g_k:
            c2s, o2s = rel.substituted(c2, o2, sub_d)
            base = assume + [flag, zv['economics.RITC'] == 0, c1, c2s]
            for x in keys:
                decide(f'zero-rate investment tax credit  =>  {x} unchanged', base, o2s[x] == o1[x], ivars, replay_itc)
    log.note(f'{len(paths)} paths merged into {len(g_lev)} / {len(g_all)} / {len(g_k)} groups (levelized / +NPV / +costs)')
    yield log.result()


def _is_zero(t):
    return t is not None and z3.is_rational_value(t) and t.numerator_as_long() == 0


# ---- (c) halving the end-use efficiency doubles LCOH ---------------------------------------------------------
def run_efficiency(cfg, tier):
    # costs pinned by the user, and costs from the built-in correlations (which read the extracted - not the delivered - heat)
    for costs in ('pinned', 'correlated'):
        yield from _run_efficiency(dict(cfg, costs=costs), tier)


def _run_efficiency(cfg, tier):
    log = harness.UnitLog(cfg)
    pinned = cfg['costs'] == 'pinned'
    pcfg = c02.plant_cfg('industrial-heat', 2, 9, cfg['L'], 2)
    N = cfg['L'] * 2
    spec = [(f'wellbores.ProducedTemperature[{i}]', 'real', 60, 400) for i in range(N)]
    spec += [(f'wellbores.PumpingPower[{i}]', 'real', 0, 100) for i in range(N)]
    spec += [('surfaceplant.enduse_efficiency_factor', 'real', 0.2, 1), ('surfaceplant.electricity_cost_to_buy', 'real', 0, 1)]
    if pinned:
        spec += [('economics.totalcapcost', 'real', 0, 1000), ('economics.oamtotalfixed', 'real', 0, 100)]
    em = cfg['em']

    def drive2(vals, symbolic):
        m = c04.prepared({'kind': 'direct-use', 'eu': 2, 'pt': 9, 'em': em, 'L': cfg['L'], 'K': 1, 'T': 2, 'carbon': False}).reset()
        v = dict(vals)
        v.update(c04.FIXED)
        if not pinned:
            v['economics.totalcapcost.Valid'] = False
            v['economics.oamtotalfixed.Valid'] = False
        econ.install(m, v)
        if symbolic:
            with shim.shadow(*c02.plant_shadows()):
                m.surfaceplant.Calculate(m)
        else:
            m.surfaceplant.Calculate(m)
        econ.run_econ(m, symbolic=symbolic)
        return m

    def fn():
        vals, zv = econ.make_symbolic(spec)
        core.ctx().add_assume(*[vals[f'wellbores.ProducedTemperature[{i}]'].t > 55 for i in range(N)])
        m = drive2(vals, True)
        return zv, {'LCOH': m.economics.LCOH.value}
    paths, assume, zv = [], None, None
    for pr in core.explore(fn, max_paths=5000):
        log.path(pr)
        if pr.error is not None:
            raise pr.error
        if pr.aborted:
            continue
        zv, outs = pr.value
        assume = list(pr.ctx.assume)
        paths.append(rel.record(pr.ctx, outs))
    g = rel.group_weak(paths, ['LCOH'])
    eta = zv['surfaceplant.enduse_efficiency_factor']
    sub = [(eta, eta / 2)]
    log['reachable'] += 1 if core.check_sat(assume + paths[0].cons, 3000)[0] == 'sat' else 0

    def replay(inp):
        v1 = econ.concrete_vals(spec, inp)
        v2 = dict(v1)
        v2['surfaceplant.enduse_efficiency_factor'] = v1['surfaceplant.enduse_efficiency_factor'] / 2
        a, b = float(drive2(v1, False).economics.LCOH.value), float(drive2(v2, False).economics.LCOH.value)
        return not core.eq(b, 2 * a, rel=1e-6), {'LCOH': a, 'LCOH at half efficiency': b}
    for (c1, o1) in g:
        for (c2, o2) in g:
            c2s, o2s = rel.substituted(c2, o2, sub)
            log['obligations'] += 1
            r, mdl, dt = core.check_sat(assume + [eta / 2 >= core.rv(0.1), c1, c2s, z3.Not(o2s['LCOH'] == 2 * o1['LCOH'])], 30000 if pinned else 120000)
            log['solver_s'] += dt
            if r == 'unsat':
                log['discharged'] += 1
                log['samples'].append({'obligation': 'efficiency / 2 => LCOH x 2', 'verdict': 'unsat', 'time_s': round(dt, 3)})
            elif r == 'sat':
                inp = harness.model_inputs(mdl, zv)
                viol, detail = replay(inp)
                log['cex'].append({'obligation': 'halving the end-use efficiency doubles LCOH', 'finding': None, 'config': cfg, 'reproduced': bool(viol),
                                   'inputs': inp, 'detail': detail, 'how': 'model', 'attempts': []})
            else:
                log['inconclusive'].append({'obligation': 'efficiency / 2 => LCOH x 2', 'why': 'solver ' + r})
    yield log.result()


# ---- (d) an add-on with zero cost and zero gains changes nothing -------------------------------------------
def run_addon(cfg, tier):
    log = harness.UnitLog(cfg)
    kind, em = cfg['kind'], cfg['em']
    spec = [s for s in spec_of(cfg) if not s[0].startswith('economics.RITC')]
    base0 = {k: v for k, v in cfg.items() if k != 'harness'}
    base1 = dict(base0, addon=1, extra={'AddOn CAPEX 1': 0, 'AddOn OPEX 1': 0, 'AddOn Electricity Gained 1': 0, 'AddOn Heat Gained 1': 0,
                                       'AddOn Profit Gained 1': 0})
    keys = ['LCOE', 'LCOH', 'LCOC', 'NPV', 'CCap', 'Coam', 'IRRflag']
    L = cfg['L']

    def outs_of(m):
        e = m.economics
        d = {'LCOE': e.LCOE.value, 'LCOH': e.LCOH.value, 'LCOC': e.LCOC.value, 'NPV': e.ProjectNPV.value, 'CCap': e.CCap.value, 'Coam': e.Coam.value}
        for i in range(L):
            for lab, arr in (('Net', m.surfaceplant.NetkWhProduced.value), ('Heat', m.surfaceplant.HeatkWhProduced.value)):
                if hasattr(arr, '__len__') and len(arr) > i:
                    d[f'{lab}[{i}]'] = arr[i]
        for i, x in enumerate(e.TotalRevenue.value):
            d[f'CF[{i}]'] = x
        return d

    def run(vals, symbolic):
        outs = []
        for b in (base0, base1):
            m = c04.prepared(b).reset()
            v = dict(vals)
            v.update(c04.FIXED)
            v['economics.PTCDuration'] = cfg['L']
            econ.install(m, v)
            econ.run_econ(m, symbolic=symbolic)
            outs.append(outs_of(m))
        return outs

    def concrete(inp, only=None):
        o0, o1 = run(econ.concrete_vals(spec, inp), False)
        bad = [k for k in o0 if not core.eq(float(o0[k]), float(o1[k]), rel=1e-9) and (only is None or only.endswith(' ' + k))]
        return bool(bad), {'differs': bad[:6], 'without add-on': {k: float(o0[k]) for k in bad[:6]}, 'with all-zero add-on': {k: float(o1[k]) for k in bad[:6]}}

    def fn():
        vals, zv = econ.make_symbolic(spec)
        o0, o1 = run(vals, True)
        return zv, o0, o1
    n = 0
    for pr in core.explore(fn, max_paths=20000):
        log.path(pr)
        n += 1
        if pr.error is not None:
            raise pr.error
        if pr.aborted:
            continue
        zv, o0, o1 = pr.value
        if n <= 3:
            harness.reachable(log, pr.ctx, 2000)
        for k in o0:
            harness.discharge(log, pr.ctx, f'all-zero add-on leaves the run unchanged: {k}', eq(o0[k], o1[k]) if (core.is_sym(o0[k]) or core.is_sym(o1[k])) else bool(core.eq(o0[k], o1[k])),
                              zv, lambda inp, k=k: concrete(inp, only=' ' + k), timeout_ms=20000, sample=(n == 1 and k == 'LCOE'))
    yield log.result()


def units(tier, seed):
    us = []
    for kind in KINDS[tier]:
        for em in (1, 2, 3):
            us.append(cfg_of(kind, em, tier))
    for em in (1, 2, 3):
        us.append({'harness': 'efficiency', 'kind': 'direct-use', 'em': em, 'L': 2})
    for kind in (['electricity', 'direct-use', 'cogen-topping'] if tier == 'quick' else KINDS[tier]):
        for em in ((2, 3) if tier == 'quick' else (1, 2, 3)):
            c = cfg_of(kind, em, 'quick')
            c['harness'] = 'addon'
            us.append(c)
    return us


def replay(cex):
    raise NotImplementedError
