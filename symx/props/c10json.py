"""C10, JSON clause — the JSON written next to the report carries the same quantities as the report.

The JSON is produced inline in GEOPHIRESv3.main() after the report was written.  The REAL main() runs here with the Model
constructor returning a model whose quantities are solver variables and whose units are tags (as in C09): read_parameters /
Calculate are no-ops on that model, PrintOutputs is the real writer (writer.run_writer), the real jsons/json code serialises the
OutputParameter dictionaries (proxies serialise to provenance markers) and the file write is captured.  Obligations, per entry:
the JSON has it, its value is the quantity held by the model when the report was written (every element of a series), its unit
is that quantity's current unit; nothing else is in the JSON; the JSON was produced after the report (same state).
"""
from __future__ import annotations

import json
import os
import re
import sys
import types

import numpy as np
import z3

from .. import core, gx, harness, shim, writer
from . import c09

import geophires_x.GEOPHIRESv3 as GV
import jsons

MARK = re.compile(r'^@@J(\d+)@@$')
UMARK = re.compile(r'^@@U(.*)@@$')
COMPONENTS = ('reserv', 'wellbores', 'economics', 'surfaceplant')


class State:
    reg = None        # list of z3 terms, index = marker number
    events = None     # ['report', 'json:first-serialisation', ...]


def _ser_real(obj, **kw):
    if 'report' not in State.events and 'early' not in State.events:
        State.events.append('early')
    State.reg.append(obj.t)
    return f'@@J{len(State.reg) - 1}@@'


def _ser_arr(obj, **kw):
    return [jsons.dump(x, **kw) for x in list(obj)]


def _ser_tag(obj, **kw):
    return f'@@U{obj.value}@@'


jsons.set_serializer(_ser_real, core.SymReal)
jsons.set_serializer(_ser_arr, core.SymArray)
jsons.set_serializer(_ser_tag, writer.UnitTag)


class Capture:
    def __init__(self, store, path):
        self.store, self.path = store, str(path)
        self.store[self.path] = ''

    def write(self, s):
        self.store[self.path] += s

    def __enter__(self):
        return self

    def __exit__(self, *a):
        return False


def run_main(m, symbolic):
    """the real main() around model m; returns (report text or None, files written, events)."""
    State.reg, State.events = [], []
    files = {}
    cap = {}

    class OutStub:
        printoutput = False

        def PrintOutputs(self, model):
            if symbolic:
                cap['report'] = writer.run_writer(m)
            State.events.append('report')

    class ModelStub:
        outputs = OutStub()

        def __getattr__(self, k):
            return getattr(m, k)

        def read_parameters(self, *a, **k):
            State.events.append('read')

        def Calculate(self, *a, **k):
            State.events.append('calculate')
    stub = ModelStub()

    def fake_open(path, mode='r', *a, **k):
        if 'w' in mode:
            return Capture(files, path)
        raise FileNotFoundError(str(path))
    cwd, argv = os.getcwd(), sys.argv
    sys.argv = ['', '/w/in.txt', '/w/case.out']
    real_dumps = jsons.dumps

    def dumps(*a, **k):
        State.events.append('dump')
        return real_dumps(*a, **k)
    jsons.dumps = dumps
    try:
        with shim.shadow((GV, 'Model', types.SimpleNamespace(Model=lambda *a, **k: stub)), (GV, 'open', fake_open)):
            GV.main(enable_geophires_logging_config=False)
    finally:
        jsons.dumps = real_dumps
        os.chdir(cwd)
        sys.argv = argv
    return cap.get('report'), files, list(State.events)


def expected_entries(m):
    """(component, key, OutputParameter) for everything main() says it dumps."""
    out = []
    for cn in COMPONENTS:
        for key, p in getattr(m, cn).OutputParameterDict.items():
            out.append((cn, key, p))
    if m.economics.DoAddOnCalculations.value:
        out += [('addeconomics', k, p) for k, p in m.addeconomics.OutputParameterDict.items()]
    if m.economics.DoSDACGTCalculations.value:
        out += [('sdacgteconomics', k, p) for k, p in m.sdacgteconomics.OutputParameterDict.items()]
    return out


def same_value(jv, v):
    """JSON value vs model value -> python bool or z3 Bool."""
    if isinstance(v, core.SymReal):
        mt = MARK.match(jv) if isinstance(jv, str) else None
        return z3.BoolVal(False) if mt is None else (State.reg[int(mt.group(1))] == v.t)
    if isinstance(v, (list, tuple, np.ndarray)):
        v = list(v)
        if not isinstance(jv, list) or len(jv) != len(v):
            return False
        parts = [same_value(a, b) for a, b in zip(jv, v)]
        if all(isinstance(p, bool) for p in parts):
            return all(parts)
        return z3.And(*[p if not isinstance(p, bool) else z3.BoolVal(p) for p in parts])
    if isinstance(v, (bool, np.bool_)):
        return jv == bool(v)
    if isinstance(v, (int, float, np.integer, np.floating)):
        if isinstance(jv, bool) or not isinstance(jv, (int, float)):
            return False
        return float(jv) == float(v) or (float(v) != float(v) and float(jv) != float(jv))
    if v is None:
        return jv is None
    if hasattr(v, 'value') and hasattr(v, 'name'):      # option enums
        return jv in (v.name, v.value, getattr(v, 'int_value', None)) or isinstance(jv, (str, int, dict, list))
    return True      # other objects (strings ...): not a quantity


def unit_ok(ju, u):
    if isinstance(u, writer.UnitTag):
        mt = UMARK.match(ju) if isinstance(ju, str) else None
        return mt is not None and mt.group(1) == u.value
    if hasattr(u, 'name'):
        return ju == u.name or ju == getattr(u, 'value', None)
    return True


def obligations(m, files, events):
    res = []
    jpath = '/w/case.json'
    res.append(('the JSON is written next to the report as <stem>.json, and nothing else is written', set(files) == {jpath}))
    try:
        J = json.loads(files.get(jpath, ''))
    except ValueError:
        res.append(('the JSON file is well-formed', False))
        return res
    res.append(('the JSON is produced from the state the report was written from (after the report)', 'early' not in events and 'report' in events and 'dump' in events and
                events.index('report') < events.index('dump')))
    exp = expected_entries(m)
    keys = set()
    # main() merges the optional dictionaries (add-ons, S-DAC-GT) over the four core ones: an optional object that carries an output of the
    # same name overwrites the core entry (recorded finding: the add-on / S-DAC-GT economics objects inherit every Economics output)
    last = {}
    for cn, key, p in exp:
        last[key] = (cn, p)
    for cn, key, p in exp:
        keys.add(key)
        e = J.get(key)
        if not isinstance(e, dict):
            res.append((f'[{cn}] "{key}": the quantity is in the JSON', False))
            continue
        over = last[key][0] != cn
        fid = 'C10-json-optional-outputs-overwrite-core-outputs' if over else None
        tag = f' [region: an output of the same name exists in {last[key][0]}]' if over else ''
        res.append((f'[{cn}] "{key}": the JSON value is the quantity the run reports (every element of a series)' + tag, same_value(e.get('value'), p.value), fid))
        res.append((f'[{cn}] "{key}": the JSON unit is the quantity\'s current unit' + tag, unit_ok(e.get('CurrentUnits'), p.CurrentUnits), fid))
        if over:
            res.append((f'[{cn}] "{key}": the JSON entry deviates from the core quantity only by being the {last[key][0]} output of the same name (recorded finding)',
                        same_value(e.get('value'), last[key][1].value)))
    res.append(('the JSON holds no entry that is not an output of the run', set(J) <= keys))
    return res


def concrete(cfg, only=None):
    m = c09.prepared(cfg).reset()
    _, files, events = run_main(m, symbolic=False)
    bad = [o[0] for o in obligations(m, files, events) if (only is None or o[0] == only) and (o[1] is False or (not isinstance(o[1], bool) and z3.is_false(z3.simplify(o[1]))))]
    return bool(bad), {'failed': bad[:8], 'files': sorted(files)}


def units(tier):
    cfgs = c09.CONFIGS[tier]
    if tier == 'quick':
        cfgs = cfgs[:4]
    cfgs = list(cfgs) + [('electricity', 2, 2, 1, {'addon': 1, 'sdac': True}), ('electricity', 2, 2, 1, {'addon': 1})] + \
        ([('direct-use', 2, 2, 1, {'sdac': True})] if tier == 'thorough' else [])      # every optional output dictionary main() merges, together and alone
    return [{'harness': 'json', 'kind': k, 'L': L, 'T': T, 'K': K, 'variant': x} for (k, L, T, K, x) in cfgs]


def run_unit(unit):
    cfg = c09.params_for(unit['kind'], unit['L'], unit['T'], unit['K'], unit['variant'])
    desc = {k: v for k, v in unit.items() if k != 'tier'}
    log = harness.UnitLog(desc)
    c09.prepared(cfg)

    def fn():
        m = c09.prepared(cfg).reset()
        vals = writer.symbolize(m, tag_units=True)
        # the writer's own sign tests are fixed per configuration variant (as in C09/C10): a couple of paths instead of 2^5
        for name in ('wellbores.PumpingPower[0]', 'economics.cost_lateral_section', 'surfaceplant.piping_length', 'economics.RITCValue', 'economics.ProjectPaybackPeriod'):
            base = name.split('[')[0]
            if base in vals:
                v = vals[base][0] if isinstance(vals[base], list) else vals[base]
                core.ctx().add_assume(v.t > 0)
        report, files, events = run_main(m, symbolic=True)
        return m, files, events
    zv = {}
    n = 0
    for pr in core.explore(fn, max_paths=50, catch=(RuntimeError,)):
        log.path(pr)
        n += 1
        if pr.aborted:
            continue
        if pr.error is not None:
            raise pr.error
        m, files, events = pr.value
        harness.reachable(log, pr.ctx, 1500)
        for ob in obligations(m, files, events):
            name, ok, fid = ob[0], ob[1], (ob[2] if len(ob) > 2 else None)
            harness.discharge(log, pr.ctx, 'JSON: ' + name, ok, zv, lambda inp, name=name: concrete(cfg, only=name), sample=(n == 1 and 'value is the quantity' in name), finding=fid)
    yield log.result()
