"""C07 — out-of-range and invalid inputs are rejected, never silently altered (DESIGN §4 C07)."""
from __future__ import annotations

import builtins
import contextlib
import io
import math
import sys

import z3

from .. import core, gx, harness, shim
from ..core import SymFP, SymReal, SymBool

P = gx.P

ID = 'C07'
FUNCTIONS = ['geophires_x.Parameter:ReadParameter', 'geophires_x.Parameter:ConvertUnits',
             'geophires_x.Reservoir:Reservoir.read_parameters', 'geophires_x.WellBores:WellBores.read_parameters',
             'geophires_x.SurfacePlant:SurfacePlant.read_parameters', 'geophires_x.Economics:Economics.read_parameters',
             'hip_ra_x.hip_ra_x:HIP_RA_X.read_parameters']
UNIT_TIMEOUT = {'quick': 280, 'thorough': 1500}
META = {
    'explanation': 'The real ReadParameter (and, one level up, every module class\'s real read_parameters with a one-key or an '
                   'all-keys-provided input dictionary) is executed with the numeric token replaced by an exact IEEE-754 double proxy '
                   '(z3 Float64; integers: z3 Int) by shadowing Parameter.float/int. Every path through the comparisons is explored '
                   'and per path z3 decides, for ALL doubles including NaN, +-inf, -0 and subnormals: a path that stores the value '
                   'implies Min <= v <= Max; a path that raises implies the value is outside [Min, Max]; a path that leaves the '
                   'parameter unchanged implies v equals the default/current value (the documented sentinel). Values written with a '
                   'convertible unit go through the real pint conversion as real-valued proxies and the same obligations are decided '
                   'for the converted value.',
    'bounds': {'quick': {'parameters': 'every float and int parameter of every class owning a ParameterDict (32 classes + HIP-RA-X)',
                         'backgrounds': ['only the key under test provided', 'every float key of the class provided with an in-range value'],
                         'unit layer': 'first convertible catalogue unit per parameter'},
               'thorough': {'parameters': 'as quick', 'backgrounds': 'as quick', 'unit layer': 'every convertible catalogue unit per parameter'}},
    'outside': ['list parameters (warn-and-ignore by design, not in the property\'s quantifier)', 'string -> double parsing itself (CPython float())',
                'non-integral text for integer parameters (int(float(s)) truncation is CPython)',
                'IEEE rounding inside pint conversions (unit layer is over the reals)'],
    'assumptions': ['CPython float() maps the text to the nearest double (the proxy ranges over all doubles)'],
    'stubs': ['Parameter.float / Parameter.int -> proxy-aware classes (isinstance semantics kept)', 'Parameter.print -> no-op',
              'hip_ra_x.read_input_file -> no-op (dictionary supplied directly)'],
}


class NumStr(str):
    """the numeric token of an input line; float()/int() of it yield the attached proxy."""
    proxy = None


class SymIntVal(SymReal):
    __slots__ = ()


class _FloatMeta(type):
    def __call__(cls, x=0.0):
        if isinstance(x, NumStr):
            return x.proxy
        if isinstance(x, (SymFP, SymReal)):
            return x
        if isinstance(x, str) and core.CTX is not None:
            tk = core.unmark(x)
            if tk is not None:
                return SymReal(tk[0])
        return builtins.float(x)

    def __instancecheck__(cls, inst):
        return isinstance(inst, builtins.float)


class FloatSh(metaclass=_FloatMeta):
    pass


class _IntMeta(type):
    def __call__(cls, x=0, *a):
        if isinstance(x, SymIntVal):
            return x
        if isinstance(x, SymReal):
            return x.__trunc__()
        return builtins.int(x, *a)

    def __instancecheck__(cls, inst):
        return isinstance(inst, builtins.int)


class IntSh(metaclass=_IntMeta):
    pass


def _noprint(*a, **k):
    pass


def param_shadows():
    return [(P, 'float', FloatSh), (P, 'int', IntSh), (P, 'print', _noprint)]


# ---------------------------------------------------------------------------------------------------------
def fp_in_range(v, lo, hi):
    return z3.And(z3.fpLEQ(core.fpv(lo), v), z3.fpLEQ(v, core.fpv(hi)))


def classify(param, before, token):
    """what did the reader do with the value?"""
    cur = param.value
    if cur is token or (isinstance(cur, (SymFP, SymReal)) and isinstance(token, (SymFP, SymReal)) and cur.t.eq(token.t)):
        return 'stored'
    if isinstance(cur, (SymFP, SymReal)):
        return 'stored-altered'
    if cur is before or cur == before:
        return 'unchanged'
    return 'replaced'


def reader_call(kind, obj, model, mod, pname, entry):
    """returns a callable performing the read for the given layer."""
    if kind == 'reader':
        return lambda: P.ReadParameter(entry, obj.ParameterDict[pname], model)

    def call():
        if obj is model:
            obj.InputParameters = dict(call.inputs)
            return obj.read_parameters()
        model.InputParameters = dict(call.inputs)
        return obj.read_parameters(model)
    return call


def run_source(unit):
    modn, clsn = unit['module'], unit['cls']
    tier = unit['tier']
    layer = unit['layer']
    names = None
    obj0, model0, mod = _make(modn, clsn)
    pnames = [k for k, p in obj0.ParameterDict.items() if isinstance(p, (P.floatParameter, P.intParameter))]
    if unit.get('slice'):
        a, b = unit['slice']
        pnames = pnames[a:b]
    for pname in pnames:
        for bg in (unit['backgrounds'] if layer == 'module' else ['-']):
            cfg = {'layer': layer, 'class': clsn, 'param': pname, 'background': bg}
            log = harness.UnitLog(cfg)
            try:
                _one_param(log, cfg, modn, clsn, pname, layer, bg)
            except core.Realize as e:
                log.note(f'{clsn}/{pname}/{bg}: post-read code needs a concrete value ({str(e)[:60]}); not decided at this layer')
                log['inconclusive'].append({'obligation': f'{clsn}/{pname}/{bg}', 'why': 'post-read code realises the value'})
            yield log.result()
        if layer == 'reader' and isinstance(obj0.ParameterDict[pname], P.floatParameter) and prior_value(obj0.ParameterDict[pname]) is not None:
            cfg = {'layer': layer, 'class': clsn, 'param': pname, 'background': '-', 'the parameter held another value before this read': True}
            log = harness.UnitLog(cfg)
            try:
                _one_param(log, cfg, modn, clsn, pname, layer, '-', prior=True)
            except core.Realize as e:
                log['inconclusive'].append({'obligation': f'{clsn}/{pname}/prior', 'why': 'post-read code realises the value'})
            yield log.result()
        if layer == 'module' and (clsn, pname) in ALIASES:
            cfg = {'layer': layer, 'class': clsn, 'param': pname, 'background': 'only-this-key', 'given under the accepted name': ALIASES[(clsn, pname)]}
            log = harness.UnitLog(cfg)
            _one_param(log, cfg, modn, clsn, pname, layer, 'only-this-key', alias=ALIASES[(clsn, pname)])
            yield log.result()


_SRC = {}


class SymSet(list):
    """AllowableRange with exact, fork-free-per-element membership for symbolic integers."""

    def __contains__(self, x):
        if isinstance(x, SymIntVal):
            return bool(SymBool(member_formula(x.t, list(self))))
        return list.__contains__(self, x)


def member_formula(t, elems):
    """t in elems, compressed to intervals (t is Real-sorted ToReal(k))."""
    xs = sorted(set(int(e) for e in elems))
    if not xs:
        return z3.BoolVal(False)
    runs, a, b = [], xs[0], xs[0]
    for x in xs[1:]:
        if x == b + 1:
            b = x
        else:
            runs.append((a, b))
            a = b = x
    runs.append((a, b))
    return z3.Or([z3.And(t >= a, t <= b) if a != b else t == a for a, b in runs])


def _fresh(modn, clsn):
    if modn == 'hip_ra_x.hip_ra_x':
        import hip_ra_x.hip_ra_x as H
        obj = H.HIP_RA_X(enable_hip_ra_logging_config=False)
        return obj, obj, H
    return gx.make_source(modn, clsn)


def _cp(v):
    if isinstance(v, list):
        return list(v)
    if isinstance(v, dict):
        return dict(v)
    return v


def _make(modn, clsn):
    """one real object per class and process; every call restores the state captured right after construction."""
    key = (modn, clsn)
    if key not in _SRC:
        obj, model, mod = _fresh(modn, clsn)
        items = []
        seen = set()
        holders = [obj] + [getattr(model, cn, None) for cn in gx.COMPONENTS if model is not obj]
        for h in holders:
            if h is None or id(h) in seen:
                continue
            seen.add(id(h))
            pseen = set()
            for an, av in list(vars(h).items()):
                if gx.is_param(av):
                    pseen.add(id(av))
                    items.append((av, None, {k: _cp(v) for k, v in vars(av).items()}))
                elif isinstance(av, (int, float, str, bool, type(None), list)):
                    items.append((h, an, _cp(av)))
            for dn in ('ParameterDict', 'OutputParameterDict'):
                for av in getattr(h, dn, {}).values():
                    if gx.is_param(av) and id(av) not in pseen:
                        pseen.add(id(av))
                        items.append((av, None, {k: _cp(v) for k, v in vars(av).items()}))
        _SRC[key] = (obj, model, mod, items)
    obj, model, mod, items = _SRC[key]
    for o, an, saved in items:
        if an is None:
            d = vars(o)
            for k, v in saved.items():
                d[k] = _cp(v)
        else:
            setattr(o, an, _cp(saved))
    return obj, model, mod


def background_inputs(obj, skip):
    """every float key of the class provided with an in-range, non-default value (midpoint)."""
    d = {}
    for k, p in obj.ParameterDict.items():
        if k == skip or not isinstance(p, P.floatParameter):
            continue
        lo, hi = float(p.Min), float(p.Max)
        v = lo + (hi - lo) * 0.5 if math.isfinite(hi - lo) else 1.0
        if v == p.DefaultValue:
            v = lo + (hi - lo) * 0.25
        d[p.Name.strip()] = P.ParameterEntry(Name=p.Name.strip(), sValue=repr(v), raw_entry=f'{p.Name}, {v}')
    return d


# input names a reader accepts in place of a parameter's own name (deprecated spellings): a value given under such a name is subject to the
# same range enforcement as one given under the parameter's own name
ALIASES = {('WellBores', 'Nonvertical Length per Multilateral Section'): 'Total Nonvertical Length'}


def prior_value(p0):
    """an in-range value different from the declared default and from the value a fresh object holds (a value an earlier read left behind)."""
    lo, hi = float(p0.Min), float(p0.Max)
    for cand in (lo + (hi - lo) / 4, lo + (hi - lo) / 2, lo, hi):
        if math.isfinite(cand) and cand != p0.DefaultValue and cand != p0.value:
            return cand
    return None


def _one_param(log, cfg, modn, clsn, pname, layer, bg, alias=None, prior=False):
    obj0, model0, mod = _make(modn, clsn)
    p0 = obj0.ParameterDict[pname]
    pv = prior_value(p0) if prior and isinstance(p0, P.floatParameter) else None
    is_int = isinstance(p0, P.intParameter)
    name = p0.Name.strip()
    name_in = alias or name
    shadows = param_shadows()
    if modn == 'hip_ra_x.hip_ra_x':
        shadows.append((mod, 'read_input_file', lambda *a, **k: None))
    if is_int and layer == 'module':
        return _int_module(log, cfg, modn, clsn, pname, bg, shadows)

    state = {}

    def fn():
        obj, model, _ = _make(modn, clsn)
        prm = obj.ParameterDict[pname]
        tok = NumStr('SYMV')
        if is_int:
            k = z3.Int('k')
            tok.proxy = SymIntVal(z3.ToReal(k))
            prm.AllowableRange = SymSet(prm.AllowableRange)
        else:
            tok.proxy = SymFP(z3.FP('v', core.FP64))
        entry = P.ParameterEntry(Name=name_in, sValue=tok, raw_entry=f'{name_in}, SYMV')
        if pv is not None:
            prm.value = pv           # the object has been read into before (or starts from a value that is not its declared default)
        before = prm.value
        call = reader_call(layer, obj, model, mod, pname, entry)
        if layer == 'module':
            ins = background_inputs(obj, pname) if bg == 'all-provided' else {}
            ins[name_in] = entry
            call.inputs = ins
        exc = None
        try:
            with shim.shadow(*shadows), contextlib.redirect_stdout(io.StringIO()):
                call()
        except (ValueError, RuntimeError) as e:
            exc = e
        return prm, before, tok.proxy, exc

    zv = {'k': z3.Int('k')} if is_int else {'v': z3.FP('v', core.FP64)}
    lo, hi = (None, None) if is_int else (float(p0.Min), float(p0.Max))
    allow = [int(x) for x in p0.AllowableRange] if is_int else None
    default = p0.DefaultValue

    def concrete(inp):
        return concrete_read(modn, clsn, pname, layer, bg, inp['k'] if is_int else inp['v'], alias=alias, prior=pv)

    def fp_inputs(model):
        return {'v': core.fp_model_value(model, zv['v'])}

    for pr in core.explore(fn, max_paths=3000, catch=(Exception,)):
        log.path(pr)
        if pr.error is not None:
            raise pr.error
        if pr.aborted:
            log.note(f'path aborted: {pr.aborted}')
            continue
        prm, before, tok, exc = pr.value
        c = pr.ctx
        r, _, _ = core.check_sat(c.all_constraints(), 3000)
        if r == 'sat':
            log['reachable'] += 1
        v = tok.t
        if is_int:
            kk = z3.Int('k')
            inr = member_formula(z3.ToReal(kk), allow)
            is_default = kk == int(default) if isinstance(default, int) else z3.BoolVal(False)
            is_before = kk == int(before) if isinstance(before, (int,)) and not isinstance(before, bool) else (
                kk == int(before.value) if hasattr(before, 'value') and isinstance(before.value, int) else z3.BoolVal(False))
        else:
            inr = fp_in_range(v, lo, hi)
            is_default = z3.fpEQ(v, core.fpv(default)) if isinstance(default, (int, float)) else z3.BoolVal(False)
            is_before = z3.fpEQ(v, core.fpv(before)) if isinstance(before, (int, float)) and not isinstance(before, bool) else z3.BoolVal(False)
        if exc is not None:
            what = 'rejected'
            named = name in str(exc)
            _d(log, c, f'{what}: only values outside the documented range/set are rejected', z3.Not(inr), zv, concrete, is_int)
            _d(log, c, 'rejected: the error names the parameter', named and isinstance(exc, ValueError), zv, concrete, is_int)
            _d(log, c, 'rejected: the parameter keeps its previous value (nothing stored)',
               prm.value is before or (not isinstance(prm.value, (SymFP, SymReal)) and prm.value == before), zv, concrete, is_int)
        else:
            what = classify(prm, before, tok)
            if what == 'stored':
                _d(log, c, 'accepted: the stored value lies inside the documented range/set (never NaN/inf/out of range)', inr, zv, concrete, is_int,
                   sample=True)
            elif what == 'unchanged':
                # a float that is passed over must BE the value the parameter holds afterwards; "equals the declared default" excuses nothing
                # when the parameter held another value (initial value -1 = 'use the correlation' with default 5; an earlier read)
                held_default = isinstance(before, (int, float)) and isinstance(default, (int, float)) and float(before) == float(default)
                _d(log, c, 'ignored: only the documented sentinel/default (or the value already held) is passed over silently',
                   z3.Or(is_default, is_before) if (is_int or held_default) else is_before, zv, concrete, is_int)
            else:
                # value was altered by post-read code (unit normalisation such as depth km->m): it must at least have been in range
                _d(log, c, f'{what}: a value normalised after reading was inside the documented range', inr, zv, concrete, is_int)
                if name not in KNOWN_NORMALISED and not is_int:
                    same = z3.fpEQ(prm.value.t, v) if isinstance(prm.value, SymFP) else z3.BoolVal(False)
                    _d(log, c, 'accepted: a value inside the documented range is stored exactly as given (not rescaled, clamped or otherwise altered)',
                       z3.Or(same, is_default, is_before), zv, concrete, is_int)


def _d(log, c, name, prop, zv, concrete, is_int, sample=False):
    if is_int:
        return harness.discharge(log, c, name, prop, zv, concrete, timeout_ms=10000, sample=sample)
    # FP: extract the double exactly
    log['obligations'] += 1
    if isinstance(prop, bool):
        if prop:
            log['discharged'] += 1
            log['trivial'] += 1
            return
        cons = c.all_constraints()
    else:
        cons = c.all_constraints() + [z3.Not(prop)]
    r, m, dt = core.check_sat(cons, 10000)
    log['solver_s'] += dt
    log['max_query_s'] = max(log['max_query_s'], dt)
    if r == 'unsat':
        log['discharged'] += 1
        if sample and len(log['samples']) < 2:
            log['samples'].append({'obligation': name, 'verdict': 'unsat', 'config': log['config'], 'time_s': round(dt, 4)})
        return
    if r != 'sat':
        log['inconclusive'].append({'obligation': name, 'why': 'solver ' + r})
        return
    val = core.fp_model_value(m, zv['v'])
    viol, detail = concrete({'v': val})
    fid = 'C07-nan-accepted' if (val is not None and isinstance(val, float) and math.isnan(val)) else None
    if not viol:
        # look for another witness: enumerate special doubles consistent with the path
        for cand in (float('nan'), float('inf'), float('-inf')):
            viol, detail = concrete({'v': cand})
            if viol:
                val = cand
                fid = 'C07-nan-accepted' if math.isnan(cand) else None
                break
    log['cex'].append({'obligation': name, 'finding': fid, 'config': log['config'], 'reproduced': bool(viol),
                       'inputs': {'v': repr(val)}, 'detail': detail, 'how': 'model', 'attempts': []})
    if viol and fid is None:
        harness._CEX_SEEN[0] += 1


def _int_module(log, cfg, modn, clsn, pname, bg, shadows):
    """integer / option parameters through the module's read_parameters: the finite domain is enumerated exhaustively
    (members, both neighbours of the extremes, one far value); post-read code parses the token text itself."""
    obj0, _, _ = _make(modn, clsn)
    p0 = obj0.ParameterDict[pname]
    allow = sorted(int(x) for x in p0.AllowableRange)
    if len(allow) > 300:   # huge contiguous domains: members at the ends and in the middle, plus the outside neighbours
        allow_s = allow[:3] + allow[len(allow) // 2: len(allow) // 2 + 2] + allow[-3:]
    else:
        allow_s = allow
    cands = sorted(set(allow_s + [allow[0] - 1, allow[-1] + 1, allow[-1] + 1000] + [a + 1 for a in allow_s] + [a - 1 for a in allow_s]))
    for k in cands:
        log['obligations'] += 1
        log['paths'] += 1
        viol, detail = concrete_read(modn, clsn, pname, 'module', bg, k)
        if viol:
            log['cex'].append({'obligation': 'integer/option parameter: members accepted and used, non-members rejected naming the parameter',
                               'finding': None, 'config': log['config'], 'reproduced': True, 'inputs': {'k': k}, 'detail': detail,
                               'how': 'exhaustive enumeration', 'attempts': []})
        else:
            log['discharged'] += 1
    log['reachable'] += 1
    log.note('integer parameters at module level: decided by exhaustive enumeration of the finite option domain, not by the solver')


# parameters whose own value the reading code normalises after accepting it (the only two on the pinned tree): depth km -> m, impedance GPa.s/m3 scaling.
# Every other accepted value must be stored exactly as given: a new magnitude heuristic that rescales an in-range value is 'altered', not 'used as given'.
KNOWN_NORMALISED = {'Reservoir Depth', 'Reservoir Impedance'}


def concrete_read(modn, clsn, pname, layer, bg, value, alias=None, prior=None):
    """replay on the real code, no proxies: returns (violated, detail)."""
    obj, model, mod = _make(modn, clsn)
    prm = obj.ParameterDict[pname]
    if prior is not None:
        prm.value = prior
    name = prm.Name.strip()
    name_in = alias or name
    is_int = isinstance(prm, P.intParameter)
    txt = str(int(value)) if is_int else repr(float(value))
    entry = P.ParameterEntry(Name=name_in, sValue=txt, raw_entry=f'{name_in}, {txt}')
    before = prm.value
    declared = (float(prm.Min), float(prm.Max)) if not is_int else [int(x) for x in prm.AllowableRange]      # as declared, before any reading code runs
    exc = None
    out = io.StringIO()
    try:
        with contextlib.redirect_stdout(out):
            if layer == 'reader':
                P.ReadParameter(entry, prm, model)
            else:
                ins = background_inputs(obj, pname) if bg == 'all-provided' else {}
                ins[name_in] = entry
                if modn == 'hip_ra_x.hip_ra_x':
                    with shim.shadow((mod, 'read_input_file', lambda *a, **k: None)):
                        obj.InputParameters = ins
                        obj.read_parameters()
                else:
                    model.InputParameters = ins
                    obj.read_parameters(model)
    except (ValueError, RuntimeError) as e:
        exc = e
    if is_int:
        member = int(value) in declared
        sentinel = int(value) == prm.DefaultValue or int(value) == (before.value if hasattr(before, 'value') else before)
    else:
        v = float(value)
        member = declared[0] <= v <= declared[1]
        sentinel = v == prm.DefaultValue or v == before
    after = prm.value
    detail = {'value': txt, 'member_of_documented_range': member, 'raised': repr(exc)[:200] if exc else None,
              'value_after': repr(after)[:80], 'value_before': repr(before)[:80]}
    if exc is not None:
        bad = member or name not in str(exc) or not isinstance(exc, ValueError)
        return bool(bad), detail
    if member:
        if not is_int and name not in KNOWN_NORMALISED and v != before and isinstance(after, (int, float)) and not isinstance(after, bool) and float(after) != v:
            detail['altered'] = 'an accepted in-range value was stored as a different number'
            return True, detail
        return False, detail
    if sentinel:
        return False, detail
    # not a member, not a sentinel, no exception: silently accepted / clamped / defaulted
    return True, detail


# ---- S-DAC-GT: the calculation step re-checks its inputs against bounds of its own ------------------------------------------------------
def run_sdac_second_layer(unit):
    """EconomicsS_DAC_GT.Calculate starts with range_check(), a second copy of the bounds: every value the documented range admits (the
    bounds included) must pass it, so that a value accepted by the reader is also used.  All float parameters symbolic at once."""
    cfg = {'layer': 'sdac-gt-calculate'}
    log = harness.UnitLog(cfg)
    obj0, model0, mod = _make('geophires_x.EconomicsS_DAC_GT', 'EconomicsS_DAC_GT')
    fl = [(k, p) for k, p in obj0.ParameterDict.items() if isinstance(p, P.floatParameter)]
    decl = {k: (float(p.Min), float(p.Max)) for k, p in fl}
    zv = {k: z3.Real(k) for k, _ in fl}

    def concrete(inp, only=None):
        obj, model, _ = _make('geophires_x.EconomicsS_DAC_GT', 'EconomicsS_DAC_GT')
        for k, p in obj.ParameterDict.items():
            if k in decl:
                p.value = float(inp.get(k, p.value))
        err, msg = obj.range_check()
        return bool(err), {'range_check() says': msg, 'values': {k: obj.ParameterDict[k].value for k in decl}, 'documented ranges': decl}

    def fn():
        obj, model, _ = _make('geophires_x.EconomicsS_DAC_GT', 'EconomicsS_DAC_GT')
        for k, p in obj.ParameterDict.items():
            if k in decl:
                p.value = core.sym(k, *decl[k])
        return obj.range_check()
    for pr in core.explore(fn, max_paths=2000):
        log.path(pr)
        if pr.error is not None:
            raise pr.error
        if pr.aborted:
            continue
        harness.reachable(log, pr.ctx, 1000)
        err, msg = pr.value
        harness.discharge(log, pr.ctx, 'S-DAC-GT: values inside the documented ranges (bounds included) pass the calculation step\'s own range check' + (f' [{msg[:60]}]' if err else ''),
                          not err, zv, concrete, sample=not err)
    yield log.result()


# ---- unit layer: "v <unit>" through the real pint conversion -------------------------------------------------
def convertible_units(prm):
    """catalogue units of the parameter's unit type that the reader converts (probed concretely with the value 1)."""
    from geophires_x import Units as U
    ut = prm.UnitType
    enum = type(prm.PreferredUnits) if prm.PreferredUnits is not None else None
    if enum is None or not hasattr(enum, '__members__'):
        return []
    out = []
    for mem in enum:
        if mem == prm.PreferredUnits:
            continue
        out.append(mem.value)
    return out


def run_units_layer(unit):
    modn, clsn = unit['module'], unit['cls']
    obj0, model0, mod = _make(modn, clsn)
    maxu = 1 if unit['tier'] == 'quick' else 50
    for pname, p0 in obj0.ParameterDict.items():
        if not isinstance(p0, P.floatParameter):
            continue
        done = 0
        for u in convertible_units(p0):
            if done >= maxu:
                break
            # concrete probe: is this unit accepted for this parameter at all?
            ok, _ = _probe_unit(modn, clsn, pname, u)
            if not ok:
                continue
            done += 1
            cfg = {'layer': 'units', 'class': clsn, 'param': pname, 'unit': u}
            log = harness.UnitLog(cfg)
            try:
                _one_unit(log, cfg, modn, clsn, pname, u)
            except (core.Realize, core.HarnessError, TypeError) as e:
                log['inconclusive'].append({'obligation': f'{clsn}/{pname}/{u}', 'why': f'not encodable: {type(e).__name__} {str(e)[:80]}'})
            yield log.result()


def _probe_unit(modn, clsn, pname, u):
    obj, model, mod = _make(modn, clsn)
    prm = obj.ParameterDict[pname]
    mid = float(prm.Min) + (float(prm.Max) - float(prm.Min)) / 2
    try:
        with contextlib.redirect_stdout(io.StringIO()):
            P.ReadParameter(P.ParameterEntry(Name=prm.Name, sValue=f'1.0 {u}'), prm, model)
        return True, prm.value
    except ValueError:
        return True, None
    except BaseException:
        return False, None


def _one_unit(log, cfg, modn, clsn, pname, u):
    obj0, _, mod = _make(modn, clsn)
    p0 = obj0.ParameterDict[pname]
    name = p0.Name.strip()
    lo, hi = float(p0.Min), float(p0.Max)

    def fn():
        obj, model, _ = _make(modn, clsn)
        prm = obj.ParameterDict[pname]
        v = core.sym('v')
        before = prm.value
        exc = None
        entry = P.ParameterEntry(Name=name, sValue=f'{v!s} {u}', raw_entry=f'{name}, SYMV {u}')
        try:
            with shim.shadow(*param_shadows()):
                P.ReadParameter(entry, prm, model)
        except ValueError as e:
            exc = e
        return prm, before, exc
    zv = {'v': z3.Real('v')}

    def concrete(inp):
        obj, model, _ = _make(modn, clsn)
        prm = obj.ParameterDict[pname]
        before = prm.value
        exc = None
        try:
            with contextlib.redirect_stdout(io.StringIO()):
                P.ReadParameter(P.ParameterEntry(Name=name, sValue=f'{float(inp["v"])!r} {u}'), prm, model)
        except ValueError as e:
            exc = e
        after = prm.value
        d = {'text': f'{float(inp["v"])!r} {u}', 'raised': repr(exc)[:160] if exc else None, 'value_after': repr(after), 'range': [lo, hi]}
        if exc is not None:
            return (name not in str(exc)), d
        if after is before or after == before:
            return False, d   # sentinel / same value
        return not (lo <= float(after) <= hi), d

    for pr in core.explore(fn, max_paths=200):
        log.path(pr)
        if pr.error is not None:
            raise pr.error
        prm, before, exc = pr.value
        c = pr.ctx
        harness.reachable(log, c, 2000)
        if exc is not None:
            harness.discharge(log, c, 'units: rejection names the parameter', name in str(exc), zv, concrete)
            continue
        cur = prm.value
        if isinstance(cur, SymReal):
            harness.discharge(log, c, 'units: the converted value that is stored lies inside the documented range',
                              z3.And(cur.t >= core.rv(lo), cur.t <= core.rv(hi)), zv, concrete, sample=True,
                              desc=f'{clsn}/{name} given in {u}')
        else:
            harness.discharge(log, c, 'units: a value passed over silently equals the default/current value', cur is before or cur == before, zv, concrete)


# ---------------------------------------------------------------------------------------------------------
# ---- 'accepted and USED': HIP-RA-X, whose Calculate replaces 'not provided' inputs by derived values ------------------------------------
def run_hip_used(unit):
    """every in-range value (both bounds included) that the reader accepted is the value the assessment computes with: after the real
    Calculate the parameter still holds it (Calculate overwrites the parameters it considers 'not provided' with derived values)."""
    from . import c17
    cfgc = {'depth_provided': True, 'pressure_provided': True, 'fluid_props_given': True}
    o0 = c17.fresh()
    rng = {n: (lo, hi) for n, lo, hi in c17.INPUTS}
    for pname in [n for n, _, _ in c17.INPUTS]:
        prm0 = getattr(o0, pname)
        if not hasattr(prm0, 'Min'):
            continue      # integer (option-set) parameters are covered by the reader layers
        lo, hi = float(prm0.Min), float(prm0.Max)
        cfg = {'layer': 'hip-calculate', 'class': 'HIP_RA_X', 'param': prm0.Name}
        log = harness.UnitLog(cfg)
        others = {n: float(getattr(o0, n).value) for n, _, _ in c17.INPUTS if n != pname}
        for n in others:      # a plausible, fully provided background
            if others[n] < rng[n][0] or others[n] > rng[n][1] or others[n] <= 0:
                others[n] = (rng[n][0] + rng[n][1]) / 2 if n not in ('fluid_density', 'rock_density') else 2.5e12
        others.update({'reservoir_temperature': 250.0, 'rejection_temperature': 60.0, 'reservoir_porosity': 10.0, 'reservoir_area': 50.0, 'reservoir_thickness': 0.25,
                       'reservoir_depth': 2.0, 'reservoir_pressure': 20.0, 'fluid_heat_capacity': 4.2, 'fluid_density': 9e11})
        others.pop(pname, None)

        def drive(v, symbolic, pname=pname, others=others):
            vals = dict(others)
            vals[pname] = v
            o = c17.drive(cfgc, vals, symbolic)
            return getattr(o, pname).value

        def concrete(inp, drive=drive):
            v = float(inp['v'])
            try:
                after = float(drive(v, False))
            except Exception as e:
                return False, {'no result': repr(e)[:120]}
            return not harness.close(after, v, rel=1e-12), {'given (accepted by the reader)': v, 'value the assessment used': after}
        zv = {'v': z3.Real('v')}
        k = 0
        for pr in core.explore(lambda: drive(core.sym('v', lo, hi), True), max_paths=200, catch=(RuntimeError, ValueError)):
            log.path(pr)
            k += 1
            if pr.aborted or pr.error is not None:
                continue
            harness.reachable(log, pr.ctx, 1000)
            after = pr.value
            harness.discharge(log, pr.ctx, f'{prm0.Name}: a value inside [Min, Max] (bounds included) is the value the assessment is computed with',
                              core.lift(after) == z3.Real('v'), zv, concrete, sample=(k == 1))
        yield log.result()


# ---- the clients' params dictionaries: what reaches the reader is the value the caller passed ------------------------------------------
def run_client_params(unit):
    """GeophiresInputParameters(params=...) / HipRaInputParameters(dict) write an input file from a dictionary; a value passed as a Python
    float must reach the reader as that value: one line per entry (none dropped, whatever the value - zero included), the number written
    with a round-trip-exact rendering (str / repr), so that an out-of-range value cannot be rounded onto a bound on the way in."""
    import os as _os
    from geophires_x_client import GeophiresInputParameters
    from hip_ra import HipRaInputParameters
    EXACT = ('str', 'repr', '', 'r')

    class TokFloat(float):
        """a Python float (isinstance(x, float) holds) whose renderings are provenance tokens and whose truth value is decided by the solver."""
        def __new__(cls, sym_):
            o = float.__new__(cls, 1.5)
            o.sym = sym_
            return o

        def __str__(self):
            return str(self.sym)

        def __repr__(self):
            return repr(self.sym)

        def __format__(self, spec):
            return format(self.sym, spec)

        def __bool__(self):
            return bool(self.sym)

        def __eq__(self, o):
            return self.sym == o

        def __hash__(self):
            return 0
    for which, make, names in (('GeophiresInputParameters(params=...)', lambda d: GeophiresInputParameters(d), ('Reservoir Depth', 'Maximum Temperature')),
                               ('HipRaInputParameters(dict)', lambda d: HipRaInputParameters(d), ('Reservoir Porosity', 'Recoverable Fluid Factor'))):
        cfg = {'layer': 'client-params', 'class': which}
        log = harness.UnitLog(cfg)

        def build(vals, make=make, names=names):
            d = {names[0]: vals[0], 'Print Output to Console': 0, names[1]: vals[1]}
            ip = make(d)
            pth = str(ip.as_file_path())
            try:
                with open(pth, encoding='UTF-8') as f:
                    return f.read()
            finally:
                try:
                    _os.unlink(pth)
                except OSError:
                    pass

        def concrete(inp, build=build, names=names, only=None):
            vals = [float(inp.get('v0', 0.0)), float(inp.get('v1', 0.0))]
            bad = []
            for vs in (vals, [0.0, vals[1]], [vals[0], 0.0], [600.0000000000001, 0.1234567890123456]):
                text = build(vs)
                rows = {ln.split(',')[0].strip(): ln.split(',', 1)[1].strip() for ln in text.splitlines() if ',' in ln}
                for n, v in zip(names, vs):
                    if n not in rows:
                        bad.append(('dropped', n, v))
                    elif float(rows[n]) != v:
                        bad.append(('altered', n, v, rows[n]))
            if only == 'dropped':
                bad = [b for b in bad if b[0] == 'dropped']
            if only == 'altered':
                bad = [b for b in bad if b[0] == 'altered']
            return bool(bad), {'problems (kind, name, value passed, text written)': bad[:4]}
        zv = {'v0': z3.Real('v0'), 'v1': z3.Real('v1')}
        k = 0
        for pr in core.explore(lambda: build([TokFloat(core.sym('v0')), TokFloat(core.sym('v1'))]), max_paths=64):
            log.path(pr)
            k += 1
            if pr.error is not None:
                raise pr.error
            if pr.aborted:
                continue
            harness.reachable(log, pr.ctx, 500)
            text = pr.value
            rows = {ln.split(',')[0].strip(): ln.split(',', 1)[1] for ln in text.splitlines() if ',' in ln}
            for j, n in enumerate(names):
                present = n in rows
                harness.discharge(log, pr.ctx, f'{which}: the entry "{n}" reaches the input file whatever its value', present, zv,
                                  lambda inp, concrete=concrete: concrete(inp, only='dropped'), sample=(k == 1 and j == 0))
                if not present:
                    continue
                tk = core.unmark(rows[n])
                ok = tk is not None and tk[1] in EXACT and z3.eq(z3.simplify(tk[0]), z3.simplify(z3.Real(f'v{j}')))
                harness.discharge(log, pr.ctx, f'{which}: the value of "{n}" is written with a round-trip-exact rendering of the value passed (no rounding on the way in)',
                                  bool(ok), zv, lambda inp, concrete=concrete: concrete(inp, only='altered'))
        yield log.result()


# ---- entry points: a rejected input produces an error that names the parameter AND no result ------------------------------------------
def run_entry_points(unit):
    """the readers raise (decided symbolically in the other layers); here the real entry points around them - HipRaXClient -> hip_ra_x.main(),
    GeophiresXClient -> GEOPHIRESv3.main() - are run with one out-of-range value each (just below Min / just above Max of several
    parameters per family, enumerated): the call must fail, the error must name the parameter, and no result file may be left."""
    import math as _math
    import os as _os
    import tempfile as _tf
    from geophires_x_client import GeophiresXClient, GeophiresInputParameters
    import hip_ra_x as HX
    from hip_ra import HipRaInputParameters
    fams = []
    o, _, _ = _fresh('hip_ra_x.hip_ra_x', 'HIP_RA_X')
    hip_base = {'Reservoir Temperature': 250.0, 'Rejection Temperature': 60.0, 'Reservoir Porosity': 10.0, 'Reservoir Area': 55.0, 'Reservoir Thickness': 0.25}
    fams.append(('HipRaXClient -> hip_ra_x.main()', o, hip_base, ['Reservoir Porosity', 'Reservoir Temperature', 'Reservoir Area', 'Recoverable Fluid Factor'],
                 lambda d: HX.HipRaXClient().get_hip_ra_result(HipRaInputParameters(d)), lambda ip_or_d: None))
    r, _, _ = gx.make_source('geophires_x.Reservoir', 'Reservoir')
    g_base = {'Reservoir Model': 4, 'Reservoir Depth': 3, 'Gradient 1': 50, 'End-Use Option': 2, 'Power Plant Type': 9, 'Plant Lifetime': 2, 'Time steps per year': 1,
              'Print Output to Console': 0}
    fams.append(('GeophiresXClient -> GEOPHIRESv3.main()', r, g_base, ['Reservoir Depth', 'Maximum Temperature', 'Surface Temperature', 'Reservoir Porosity'], None, None))
    for which, obj, base, pnames, call, _ in fams:
        cfg = {'layer': 'entry-point', 'entry': which}
        log = harness.UnitLog(cfg)
        for pname in pnames:
            prm = obj.ParameterDict.get(pname)
            if prm is None or not hasattr(prm, 'Min'):
                continue
            for side, val in (('just above Max', _math.nextafter(float(prm.Max), _math.inf)), ('just below Min', _math.nextafter(float(prm.Min), -_math.inf))):
                d = dict(base)
                d[pname] = val
                log['paths'] += 1
                log['reachable'] += 1
                cwd, argv = _os.getcwd(), sys.argv
                err, out_path = None, None
                before = set(_os.listdir(_tf.gettempdir()))
                try:
                    with contextlib.redirect_stdout(io.StringIO()), contextlib.redirect_stderr(io.StringIO()):
                        if call is not None:
                            res = call(d)
                        else:
                            ip = GeophiresInputParameters(d)
                            out_path = str(ip.get_output_file_path())
                            res = GeophiresXClient(enable_caching=False).get_geophires_result(ip)
                except BaseException as e:      # noqa: B902 (SystemExit included)
                    err = e
                finally:
                    _os.chdir(cwd)
                    sys.argv = argv
                new_out = [f for f in set(_os.listdir(_tf.gettempdir())) - before if f.endswith('.out')]
                for f in set(_os.listdir(_tf.gettempdir())) - before:
                    if f.startswith(('geophires-', 'hip-ra-')):
                        try:
                            _os.unlink(_os.path.join(_tf.gettempdir(), f))
                        except OSError:
                            pass
                checks = [(f'{which}: "{pname}" {side} is rejected (the call fails)', err is not None),
                          (f'{which}: the error for "{pname}" {side} names the parameter', err is not None and pname in (str(err) + str(getattr(err, '__cause__', '')))),
                          (f'{which}: no result is produced for "{pname}" {side}', not new_out)]
                for name, ok in checks:
                    log['obligations'] += 1
                    if ok:
                        log['discharged'] += 1
                    else:
                        log['cex'].append({'obligation': name, 'finding': None, 'config': cfg, 'reproduced': True, 'inputs': {pname: repr(val)},
                                           'detail': {'error': repr(err)[:200] if err else None, 'result files left': new_out[:3]},
                                           'how': 'the real entry point run with the enumerated out-of-range value', 'attempts': []})
        log['samples'].append({'entry': which, 'parameters': pnames, 'values': ['nextafter(Max, +inf)', 'nextafter(Min, -inf)']})
        yield log.result()


def units(tier, seed):
    us = [{'layer': 'hip-calculate'}, {'layer': 'client-params'}, {'layer': 'entry-point'}, {'layer': 'sdac-gt-calculate'}]
    srcs = list(gx.SOURCE_CLASSES) + [('hip_ra_x.hip_ra_x', 'HIP_RA_X')]
    for modn, clsn in srcs:
        us.append({'layer': 'reader', 'module': modn, 'cls': clsn})
        big = clsn in ('Economics', 'AGSEconomics', 'SBTEconomics', 'EconomicsAddOns')
        for sl in ([(0, 30), (30, 60), (60, 200)] if big else [None]):
            us.append({'layer': 'module', 'module': modn, 'cls': clsn, 'backgrounds': ['only-this-key', 'all-provided'], 'slice': sl})
        us.append({'layer': 'units', 'module': modn, 'cls': clsn})
    return us


def run_unit(unit):
    if unit['layer'] == 'entry-point':
        yield from run_entry_points(unit)
    elif unit['layer'] == 'client-params':
        yield from run_client_params(unit)
    elif unit['layer'] == 'hip-calculate':
        yield from run_hip_used(unit)
    elif unit['layer'] == 'sdac-gt-calculate':
        yield from run_sdac_second_layer(unit)
    elif unit['layer'] == 'units':
        yield from run_units_layer(unit)
    else:
        yield from run_source(unit)


def replay(cex):
    cfg = cex['config']
    srcs = dict((c, m) for m, c in list(gx.SOURCE_CLASSES) + [('hip_ra_x.hip_ra_x', 'HIP_RA_X')])
    modn = srcs[cfg['class']]
    if cfg['layer'] in ('units', 'hip-calculate', 'client-params', 'entry-point'):
        raise NotImplementedError
    val = cex['inputs'].get('v', cex['inputs'].get('k'))
    if isinstance(val, str):
        val = float(val)
    return concrete_read(modn, cfg['class'], cfg['param'], cfg['layer'], cfg.get('background', '-'), val)
