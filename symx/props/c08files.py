"""C08, real files: the REAL clients (GeophiresXClient with caching on/off, HipRaXClient) and the REAL input-file reader run on real
files; only the simulator core is a stand-in that writes, as its 'report', a digest of what the real reader (read_input_file) makes
of the file it is handed.  Every history of the bound is executed (exhaustive enumeration of a finite space): a request sequence
over ONE path whose file is rewritten between calls, with contents from a family chosen so that a lossy or order-insensitive cache
key collides while the simulator sees different inputs (later element of a list value, swapped duplicates, a scalar value), plus
contents that differ only in commentary (for those either a fresh or a cached result is right).  This complements the symbolic
history world (whose file contents are opaque solver integers)."""
from __future__ import annotations

import itertools
import os
import shutil
import sys
import tempfile

from .. import harness, shim

import geophires_x_client as GC
from geophires_x_client import GeophiresXClient, GeophiresInputParameters

CONTENTS = [
    'Reservoir Depth, 3\nGradients, 50, 40, 30\nNumber of Segments, 3\n',
    'Reservoir Depth, 3\nGradients, 50, 70, 30\nNumber of Segments, 3\n',                 # differs in a later element of a list value
    'Reservoir Depth, 4\nGradients, 50, 40, 30\nNumber of Segments, 3\n',                 # differs in a scalar
    'Reservoir Depth, 3\nReservoir Depth, 4\nGradients, 50, 40, 30\nNumber of Segments, 3\n',   # duplicates: the last occurrence governs
    'Reservoir Depth, 4\nReservoir Depth, 3\nGradients, 50, 40, 30\nNumber of Segments, 3\n',   # the same lines, duplicates swapped
    '# a comment\nReservoir Depth, 3, trailing remark\nGradients, 50, 40, 30\n\nNumber of Segments, 3\n',   # commentary only (same inputs as #0)
]


def effective(path):
    """what the simulator is given: the real reader's dictionary (name -> value and raw line), i.e. last occurrence governs, list values in full."""
    from geophires_x.GeoPHIRESUtils import read_input_file
    d = {}

    class L:
        def __getattr__(self, k):
            return lambda *a, **kw: None
    read_input_file(d, logger=L(), input_file_name=str(path))
    out = []
    for k in sorted(d):
        e = d[k]
        raw = str(getattr(e, 'raw_entry', '')).split('--')[0]
        vals = [x.strip() for x in raw.split(',')[1:]] if k in ('Gradients', 'Thicknesses') else [str(e.sValue).strip()]
        out.append(f'{k}={"|".join(vals)}')
    return ';'.join(out)


def stub_main(enable_geophires_logging_config=False, **k):
    inp, outp = sys.argv[1], sys.argv[2]
    os.chdir(os.path.dirname(os.path.abspath(GC.__file__)))       # as the real main() does
    with open(outp, 'w') as f:
        f.write('                               *****************\n                               ***CASE REPORT***\n                               *****************\n\n'
                f'Simulation Metadata\n----------------------\n GEOPHIRES Version: DIGEST {effective(inp)}\n'
                f'                           ***SUMMARY OF RESULTS***\n\n      Reservoir Model = DIGEST {effective(inp)}\n')


def digest_of_result(result):
    """what the returned object says it was computed from: the field the client PARSED when the run finished (falls back to the report file)."""
    parsed = (result.result.get('metadata') or {}).get('Reservoir Model') if isinstance(getattr(result, 'result', None), dict) else None
    if isinstance(parsed, str) and parsed.startswith('DIGEST '):
        return parsed[len('DIGEST '):].strip()
    return digest_of_file(result)


def digest_of_file(result):
    """what the report file the returned object points at (output_file_path) holds NOW."""
    txt = open(result.output_file_path).read()
    return txt.split('DIGEST ', 1)[1].split('\n')[0].strip() if 'DIGEST ' in txt else None


def run_history(seq, caching):
    d = tempfile.mkdtemp(prefix='symx_c08f_')
    cwd, argv = os.getcwd(), sys.argv
    bad = []
    try:
        path = os.path.join(d, 'case.txt')
        client = GeophiresXClient(enable_caching=caching)
        stub = type('Stub', (), {'main': staticmethod(stub_main)})
        with shim.shadow((GC, 'geophires', stub)):
            for step, ci in enumerate(seq):
                with open(path, 'w') as f:
                    f.write(CONTENTS[ci])
                want = effective(path)
                r = client.get_geophires_result(GeophiresInputParameters(from_file_path=path))
                got = digest_of_result(r)
                if got != want:
                    bad.append({'step': step, 'file content': CONTENTS[ci], 'result computed from': got, 'request means': want})
                elif digest_of_file(r) != want:
                    bad.append({'step': step, 'file content': CONTENTS[ci], 'report file of the returned result now holds': digest_of_file(r), 'request means': want,
                                'finding': 'C08-cached-result-points-at-a-report-file-a-later-request-overwrote'})
                if os.getcwd() != cwd or sys.argv is not argv:
                    bad.append({'step': step, 'cwd/argv not restored': os.getcwd()})
                    os.chdir(cwd)
                    sys.argv = argv
    finally:
        os.chdir(cwd)
        sys.argv = argv
        shutil.rmtree(d, ignore_errors=True)
    return bad


BASES = ['Reservoir Depth, 3\nNumber of Production Wells, 3\nGradients, 50, 40, 30\n', 'Reservoir Depth, 4\nGradients, 50, 40, 30\n']
PARAMS = [None, {'Gradient 1': 60}, {'Gradient 1': 70}, {'Reservoir Depth': 3}]


def run_params_history(seq, caching):
    """requests built from a base file AND override parameters (the client's documented way to vary a case): every request kind is a
    (base file, params) pair; the result must be computed from exactly that base's lines followed by exactly those overrides."""
    d = tempfile.mkdtemp(prefix='symx_c08p_')
    cwd, argv = os.getcwd(), sys.argv
    bad = []
    made = []
    try:
        bases = []
        for i, txt in enumerate(BASES):
            bases.append(os.path.join(d, f'base{i}.txt'))
            with open(bases[-1], 'w') as f:
                f.write(txt)
        client = GeophiresXClient(enable_caching=caching)
        stub = type('Stub', (), {'main': staticmethod(stub_main)})
        with shim.shadow((GC, 'geophires', stub)):
            for step, ri in enumerate(seq):
                bi, pi = divmod(ri, len(PARAMS))
                params = PARAMS[pi]
                ref = os.path.join(d, 'reference.txt')
                with open(ref, 'w') as f:
                    f.write(BASES[bi] + ''.join(f'{k}, {v}\n' for k, v in (params or {}).items()))
                want = effective(ref)
                req = GeophiresInputParameters(from_file_path=bases[bi], params=params) if params else GeophiresInputParameters(from_file_path=bases[bi])
                if params:
                    made.append(req.as_file_path())
                r = client.get_geophires_result(req)
                got = digest_of_result(r)
                if got != want:
                    bad.append({'step': step, 'request': {'base file': BASES[bi], 'params': params}, 'result computed from': got, 'request means': want})
                if os.getcwd() != cwd or sys.argv is not argv:
                    bad.append({'step': step, 'cwd/argv not restored': os.getcwd()})
                    os.chdir(cwd)
                    sys.argv = argv
    finally:
        os.chdir(cwd)
        sys.argv = argv
        for pth in made:
            for x in (pth, str(pth).replace('.txt', '.out')):
                try:
                    os.unlink(x)
                except OSError:
                    pass
        shutil.rmtree(d, ignore_errors=True)
    return bad


HIP_CONTENTS = ['Reservoir Temperature, 250\nReservoir Area, 55\n', 'Reservoir Temperature, 250\nReservoir Area, 110\n',
                'Reservoir Area, 55\nReservoir Temperature, 250\n', 'Reservoir Temperature, 250\nReservoir Area, 55\nReservoir Area, 110\n']


def hip_meaning(text):
    """what the assessment is given: last occurrence of every name (a number that encodes it, so that HipRaResult can carry it)."""
    d = {}
    for ln in text.splitlines():
        if ',' in ln and not ln.lstrip().startswith(('#', '--', '*')):
            k, v = ln.split(',')[:2]
            d[k.strip()] = v.strip()
    return float(sum((i + 1) * 1000003 % 9973 * float(v) for i, (k, v) in enumerate(sorted(d.items()))))


def run_hip_history(seq, caching):
    import hip_ra_x as HX
    from hip_ra import HipRaInputParameters
    d = tempfile.mkdtemp(prefix='symx_c08h_')
    cwd, argv = os.getcwd(), sys.argv
    bad = []

    def stub(enable_hip_ra_logging_config=False, **k):
        inp, outp = sys.argv[1], sys.argv[2]
        os.chdir(os.path.dirname(os.path.abspath(HX.__file__)))
        with open(outp, 'w') as f:
            f.write(f'***HIP CASE REPORT***\n      Input Digest:       {hip_meaning(open(inp).read())!r} kJ\n')
    try:
        path = os.path.join(d, 'hip.txt')
        client = HX.HipRaXClient(enable_caching=caching)
        with shim.shadow((HX, 'hip_ra_x', type('Stub', (), {'main': staticmethod(stub)}))):
            for step, ci in enumerate(seq):
                with open(path, 'w') as f:
                    f.write(HIP_CONTENTS[ci])
                want = hip_meaning(HIP_CONTENTS[ci])
                r = client.get_hip_ra_result(HipRaInputParameters(path))
                got = (r.result.get('Input Digest') or {}).get('value')
                if got is None or abs(got - want) > 1e-9 * max(1.0, abs(want)):
                    bad.append({'step': step, 'file content': HIP_CONTENTS[ci], 'result computed from (digest)': got, 'request means (digest)': want})
                if os.getcwd() != cwd or sys.argv is not argv:
                    bad.append({'step': step, 'cwd/argv not restored': os.getcwd()})
                    os.chdir(cwd)
                    sys.argv = argv
    finally:
        os.chdir(cwd)
        sys.argv = argv
        shutil.rmtree(d, ignore_errors=True)
    return bad


def units(tier):
    us = [{'harness': 'client-real-files', 'H': H, 'caching': c} for H in ((2,) if tier == 'quick' else (2, 3)) for c in (True, False)]
    us += [{'harness': 'client-real-files', 'client': 'hip', 'H': 2 if tier == 'quick' else 3, 'caching': True}]
    us += [{'harness': 'client-real-files', 'requests': 'base file + params', 'H': 2, 'caching': c} for c in ((True,) if tier == 'quick' else (True, False))]
    return us


def run_unit(unit):
    H, caching = unit['H'], unit['caching']
    hip = unit.get('client') == 'hip'
    byparams = bool(unit.get('requests'))
    family = HIP_CONTENTS if hip else (list(range(len(BASES) * len(PARAMS))) if byparams else CONTENTS)
    cfg = {'harness': 'client-real-files', 'client': 'HipRaXClient' if hip else 'GeophiresXClient', 'H': H, 'caching': caching, 'contents': len(family)}
    if byparams:
        cfg['requests'] = f'(base file, params) pairs: {len(BASES)} base files x {PARAMS}'
    log = harness.UnitLog(cfg)
    for seq in itertools.product(range(len(family)), repeat=H):
        log['paths'] += 1
        log['reachable'] += 1
        log['obligations'] += 1
        bad = run_hip_history(seq, caching) if hip else (run_params_history(seq, caching) if byparams else run_history(seq, caching))
        if not bad:
            log['discharged'] += 1
            continue
        fid = bad[0].get('finding') if all(b.get('finding') for b in bad) else None
        if fid:
            log['cex'].append({'obligation': 'the report file a returned result points at (output_file_path) holds the report of that request [recorded: cache hit after a later '
                                             'request on the same input path rewrote the shared result file]',
                               'finding': fid, 'config': cfg, 'reproduced': True, 'inputs': {'history (indices into the content family)': list(seq)},
                               'detail': bad[0], 'how': 'exhaustive enumeration of the bounded histories on real files with the real client and reader', 'attempts': []})
            log['discharged'] += 1      # the companion obligation (the PARSED result is the request's own) held on this history
            continue
        bad = [b for b in bad if not b.get('finding')]
        log['cex'].append({'obligation': 'a client never returns a result computed from input content different from the request it was given (file rewritten between calls)',
                           'finding': None, 'config': cfg, 'reproduced': True, 'inputs': {'history (indices into the content family)': list(seq)},
                           'detail': bad[0], 'how': 'exhaustive enumeration of the bounded histories on real files with the real client and reader', 'attempts': []})
    if not log['samples']:
        log['samples'].append({'history': [0, 1], 'contents': [CONTENTS[0], CONTENTS[1]], 'caching': caching})
    log.d['exhaustive'] = True
    yield log.result()
