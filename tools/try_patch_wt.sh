#!/bin/sh
# usage: tools/try_patch_wt.sh <patch.diff> <Cxx> [tier]
# Like try_patch.sh but leaves /repo alone: the patch is applied in a scratch worktree of /repo HEAD and the check runs against that tree
# (SYMX_REPO / PYTHONPATH), so it can be used while other checks are running against /repo.
P="$1"; ID="$2"; TIER="${3:-quick}"
WT=/tmp/tpw_$$
git -C /repo worktree add --detach "$WT" HEAD -q || exit 9
git -C "$WT" apply "$P" || { echo "PATCH DOES NOT APPLY"; git -C /repo worktree remove --force "$WT"; exit 9; }
cd /verif
SYMX_REPO="$WT" PYTHONPATH="$WT/src" ./.venv/bin/python -m symx.check "$ID" --tier "$TIER" --no-evidence > /tmp/try_patch_wt.$$ 2>&1
RC=$?
grep -c '^VIOLATION' /tmp/try_patch_wt.$$ | sed 's/^/violation lines: /'
grep 'violated obligation' /tmp/try_patch_wt.$$ | cut -c1-160 | sort | uniq -c | sort -rn | head -${TAILN:-4}
tail -2 /tmp/try_patch_wt.$$ | cut -c1-400
rm -f /tmp/try_patch_wt.$$
git -C /repo worktree remove --force "$WT"
echo "exit=$RC"
