"""Bounded symbolic strings: concrete length, each cell a concrete code point or a symbolic one (z3 Int).
Only the str methods used by the code under test are provided; every character predicate is a fork."""
from __future__ import annotations

import z3

from . import core
from .core import SymBool

# str.isspace() is true for exactly these code points (CPython 3.12 / Unicode 15); str.strip() strips exactly these
WS = [9, 10, 11, 12, 13, 28, 29, 30, 31, 32, 133, 160, 5760, 8192, 8193, 8194, 8195, 8196, 8197, 8198, 8199, 8200, 8201, 8202,
      8232, 8233, 8239, 8287, 12288]


class Ch:
    __slots__ = ('t',)

    def __init__(self, t):
        self.t = t     # python int or z3 Int term

    @property
    def concrete(self):
        return isinstance(self.t, int)

    def isspace(self):
        if self.concrete:
            return self.t in WS
        return bool(SymBool(z3.Or([self.t == c for c in WS])))

    def eq(self, o):
        if self.concrete and o.concrete:
            return self.t == o.t
        return bool(SymBool(self.t == o.t))

    def term(self):
        return z3.IntVal(self.t) if self.concrete else self.t


def chars(x):
    if isinstance(x, SymStr):
        return x.cs
    return [Ch(ord(c)) for c in x]


class SymStr:
    def __init__(self, cs):
        self.cs = list(cs)

    @staticmethod
    def fresh(name, n):
        return SymStr([Ch(z3.Int(f'{name}[{i}]')) for i in range(n)])

    def __len__(self):
        return len(self.cs)

    def __add__(self, o):
        return SymStr(self.cs + chars(o))

    def __radd__(self, o):
        return SymStr(chars(o) + self.cs)

    def __getitem__(self, i):
        if isinstance(i, slice):
            return SymStr(self.cs[i])
        return SymStr([self.cs[i]])

    def __iter__(self):
        return iter(SymStr([c]) for c in self.cs)

    def __eq__(self, o):
        if not isinstance(o, (str, SymStr)):
            return NotImplemented
        oc = chars(o)
        if len(oc) != len(self.cs):
            return False
        return all(a.eq(b) for a, b in zip(self.cs, oc))

    def __ne__(self, o):
        r = self.__eq__(o)
        return r if r is NotImplemented else not r

    def __hash__(self):
        return 0     # dict / set lookups then decide equality symbolically through __eq__

    def __contains__(self, sub):
        sc = chars(sub)
        n = len(sc)
        if n == 0:
            return True
        for i in range(len(self.cs) - n + 1):
            if all(a.eq(b) for a, b in zip(self.cs[i:i + n], sc)):
                return True
        return False

    def strip(self, *a):
        if a and a[0] is not None:
            raise core.HarnessError('strip(chars) not modelled')
        i, j = 0, len(self.cs)
        while i < j and self.cs[i].isspace():
            i += 1
        while j > i and self.cs[j - 1].isspace():
            j -= 1
        return SymStr(self.cs[i:j])

    def startswith(self, p):
        pc = chars(p)
        if len(pc) > len(self.cs):
            return False
        return all(a.eq(b) for a, b in zip(self.cs, pc))

    def split(self, sep=None, maxsplit=-1):
        if sep is None or maxsplit != -1:
            raise core.HarnessError('split() variant not modelled')
        sc = chars(sep)
        if len(sc) != 1:
            raise core.HarnessError('multi-character separator not modelled')
        out, cur = [], []
        for c in self.cs:
            if c.eq(sc[0]):
                out.append(SymStr(cur))
                cur = []
            else:
                cur.append(c)
        out.append(SymStr(cur))
        return out

    def eq_term(self, o):
        """z3 Bool: this string equals o (same length required)."""
        oc = chars(o)
        if len(oc) != len(self.cs):
            return z3.BoolVal(False)
        return z3.And([a.term() == b.term() for a, b in zip(self.cs, oc)]) if self.cs else z3.BoolVal(True)

    def concrete(self, model=None):
        out = []
        for c in self.cs:
            if c.concrete:
                out.append(chr(c.t))
            else:
                v = model.eval(c.t, model_completion=True).as_long() if model is not None else 63
                out.append(chr(v) if 0 <= v < 0x110000 else '?')
        return ''.join(out)

    def __repr__(self):
        return 'SymStr(%s)' % ','.join(str(c.t) for c in self.cs)

    def __str__(self):
        return self.__repr__()
