"""C13 / C14 at the level of the real Monte-Carlo main(): settings file -> header -> task list -> process pool -> rows.

The REAL MC_GeoPHIRES3.main() runs in the in-memory world up to the point where it starts summarising (the read-back of the
results file ends the run: the summarising half is the subject of the C14 statistics units).  The process pool is a model of
concurrent.futures.ProcessPoolExecutor with its documented semantics:

    map(fn, *iterables, timeout=None, chunksize=1): the items are cut into chunks of `chunksize`; every chunk is executed by one
    worker process (which one is a solver choice); the workers are forked from the parent when the work is submitted, so they
    inherit the parent's numpy generator state at that moment; an exception raised by one item ends ITS CHUNK (the later items of
    that chunk are not run) and is delivered only if the caller consumes the results.

Per iteration the simulated run fails or not (solver Boolean); in the lock-outcome units the results-file lock is granted with
pylocker's code 0, 1 or 2, or not granted (code 3, no file handle) - again solver choices.
"""
from __future__ import annotations

import os
import shutil
import sys
import tempfile

import z3

from .. import core, harness, mcworld, shim
from ..core import SymBool
from ..mcworld import MC
from . import c13

RESULT = '/w/MC_Result.txt'
OUTPUTS = ['Out A', 'Out B']


class StopMain(Exception):
    pass


def run_main(K, W, settings, code, lock_outcomes, cpus=None, may_fail=None, base_input=None, world=None, outputs=None, discrete=False):
    mcworld.Gen.seed_pairs = []
    w = world or mcworld.MCWorld(OUTPUTS, [True, True], False)
    w.discrete = discrete
    if base_input is not None:
        w.fs['/w/base_input.txt'] = base_input
    w.fs['/w/settings.txt'] = (''.join('INPUT, ' + ', '.join(s) + '\n' for s in settings) + ''.join(f'OUTPUT, {o}\n' for o in (outputs or OUTPUTS))
                               + f'ITERATIONS, {K}\nMC_OUTPUT_FILE, {RESULT}\n')
    obs = []
    state = {'pool_done': False, 'it': 0, 'lock': (True, 0), 'maps': 0}

    def run_item(fn, args, wi, workers):
        it = state['it']
        state['it'] += 1
        w.current_gen = workers[wi]
        w.fail = bool(SymBool(z3.Bool(f'fails[{it}]'))) if (may_fail is None or it < may_fail) else False
        if lock_outcomes:
            if bool(SymBool(z3.Bool(f'lock_granted[{it}]'))):
                state['lock'] = (True, c13.pick(f'lock_code[{it}]', 3))
            else:
                state['lock'] = (False, 3)
        else:
            state['lock'] = (True, 0)
        before = w.fs.get(RESULT, '')
        ndraw = len(workers[wi].draws)
        nsim = len(w.sim_inputs)
        exc = None
        try:
            fn(*args)
        except (RuntimeError, mcworld.SimExit, SystemExit) as e:
            exc = e
        after = w.fs.get(RESULT, '')
        obs.append({'it': it, 'worker': wi, 'failed': bool(w.fail), 'raised': exc is not None, 'draws': workers[wi].draws[ndraw:],
                    'appended': after[len(before):] if after.startswith(before) else None,
                    'sim_text': w.sim_inputs[nsim] if len(w.sim_inputs) > nsim else None, 'lock_acquired': state['lock'][0], 'lock_code': state['lock'][1]})
        return exc

    class Executor:
        def __init__(self, *a, **kw):
            pass

        def __enter__(self):
            return self

        def __exit__(self, *a):
            state['pool_done'] = True
            return False

        def shutdown(self, *a, **kw):
            state['pool_done'] = True

        def _workers(self):
            return [w.parent_gen.fork(f'worker{i}') for i in range(W)]

        def map(self, fn, *iterables, timeout=None, chunksize=1):
            state['maps'] += 1
            items = list(zip(*iterables))
            cs = max(1, int(chunksize))
            workers = self._workers()
            for ci in range(0, len(items), cs):
                wi = c13.pick(f'chunk[{ci // cs}]_worker', W)
                aborted = False
                for args in items[ci:ci + cs]:
                    if aborted:
                        obs.append({'it': state['it'], 'skipped': True})
                        state['it'] += 1
                        continue
                    aborted = run_item(fn, args, wi, workers) is not None
            return iter(())

        def submit(self, fn, *args, **kwargs):
            workers = self._workers()
            wi = c13.pick(f'task[{state["it"]}]_worker', W)
            run_item(lambda *a: fn(*a, **kwargs), args, wi, workers)

            class F:
                def result(self, *a, **k):
                    return None
            return F()

    class Futures:
        ProcessPoolExecutor = Executor

        @staticmethod
        def wait(*a, **k):
            return None

        @staticmethod
        def as_completed(fs, *a, **k):
            return list(fs)

    class Concurrent:
        futures = Futures
    base_open = w.open

    def wopen(path, mode='r', *a, **k):
        if state['pool_done'] and 'r' in mode and str(path) == RESULT:
            raise StopMain()       # main() starts summarising: the statistics units take over from here
        return base_open(path, mode, *a, **k)
    binds = [b for b in mcworld.shadows(w) if b[1] not in ('Locker', 'open')]

    class LockerOutcome:
        def __init__(self, filePath=None, lockPass=None, timeout=None, mode='a', **k):
            self.path, self.mode = filePath, mode

        def __enter__(self):
            acquired, code = state['lock']
            return acquired, code, (mcworld.FileObj(w, self.path, self.mode) if acquired else None)

        def __exit__(self, *a):
            return False
    binds += [(MC, 'Locker', LockerOutcome), (MC, 'open', wopen), (MC, 'concurrent', Concurrent)]
    if cpus is not None:
        class OsProxy:      # the machine the study runs on: number of processors is part of the environment
            def __getattr__(self, k):
                return getattr(os, k)

            @staticmethod
            def cpu_count():
                return cpus
        binds.append((MC, 'os', OsProxy()))
    cwd = os.getcwd()
    err = None
    try:
        with shim.shadow(*binds):
            try:
                MC.main(command_line_args=['/x/' + code, '/w/base_input.txt', '/w/settings.txt', RESULT])
            except StopMain:
                pass
            except (RuntimeError, mcworld.SimExit, SystemExit) as e:
                err = e
    finally:
        os.chdir(cwd)
    return {'obs': obs, 'file': w.fs.get(RESULT, ''), 'maps': state['maps'], 'error': repr(err)[:200] if err else None, 'writes': list(w.writes)}


_REPLAY = {}


def replay_lock_timeout():
    """real work_package, real pylocker: another holder keeps the results-file lock for longer than the driver's 10 s time-out."""
    if 'lock' in _REPLAY:
        return _REPLAY['lock']
    d = tempfile.mkdtemp(prefix='symx_c13lock_')
    out = os.path.join(d, 'MC_Result.txt')
    with open(out, 'w') as f:
        f.write('Out A, Out B, Reservoir Temperature\n')
    w = mcworld.MCWorld(OUTPUTS, [True, True], False)
    w.current_gen = w.parent_gen.fork('worker0')
    real_locker = MC.Locker
    holder = real_locker(filePath=out, lockPass='someone-else', timeout=2, mode='a')
    try:
        acquired, code = holder.acquire_lock()
        binds = [b for b in mcworld.shadows(w) if b[1] not in ('Locker', 'uuid', 'np')]
        pass_list = [[['Reservoir Temperature', 'normal', '250', '25']], list(OUTPUTS), mcworld.make_args('GEOPHIRESv3.py'), out, d + '/', 'python']
        with shim.shadow(*binds):
            MC.work_package(pass_list)
        holder.release_lock()
        text = open(out).read()
    finally:
        shutil.rmtree(d, ignore_errors=True)
    rows = text.count('\n') - 1
    _REPLAY['lock'] = (rows != 1, {'simulated run': 'succeeded', 'lock held by another process for more than 10 s': bool(acquired), 'rows in the results file': rows})
    return _REPLAY['lock']


def replay_real_main(settings, iterations, uuid_ints=None, count_attempts=False):
    """the real main(), real process pool, real HIP-RA-X.  uuid_ints: the .int of the first uuid4() results drawn by the parent (the
    solver's witness for 'OS entropy' values); count_attempts: every simulated run appends a line to a counter file (inherited by
    the forked workers), so that iterations that were never run can be told from iterations that failed."""
    import contextlib
    import io
    import uuid as real_uuid
    import warnings
    from .. import gx
    d = tempfile.mkdtemp(prefix='symx_c13main_')
    cwd, argv = os.getcwd(), sys.argv
    try:
        inp, st, out, counter = (os.path.join(d, n) for n in ('hip.txt', 'settings.txt', 'MC_Result.txt', 'attempts.txt'))
        with open(inp, 'w') as f:
            f.write('Reservoir Temperature, 250.0\nRejection Temperature, 60.0\nReservoir Porosity, 10.0\nReservoir Area, 55.0\n'
                    'Reservoir Thickness, 0.25\nReservoir Life Cycle, 25\n')
        with open(st, 'w') as f:
            for s_ in settings:
                f.write('INPUT, ' + ', '.join(s_) + '\n')
            f.write('OUTPUT, Producible Electricity (reservoir)\nITERATIONS, %d\nMC_OUTPUT_FILE, %s\n' % (iterations, out))
        binds = []
        if uuid_ints is not None:
            calls = {'n': 0}

            class U:
                def __init__(self, real, iv):
                    self.real, self.int = real, iv

                def __str__(self):
                    return str(self.real)

                @property
                def hex(self):
                    return self.real.hex

            class UuidMod:
                @staticmethod
                def uuid4():
                    i = calls['n']
                    calls['n'] += 1
                    r = real_uuid.uuid4()
                    return U(r, int(uuid_ints[i])) if i < len(uuid_ints) else r

                @staticmethod
                def uuid1():
                    return real_uuid.uuid1()
            binds.append((MC, 'uuid', UuidMod))
        if count_attempts:
            real_client = MC.HipRaXClient

            class Counting(real_client):
                def get_hip_ra_result(self, *a, **k):
                    with open(counter, 'a') as f:
                        f.write('x\n')
                    return super().get_hip_ra_result(*a, **k)
            binds.append((MC, 'HipRaXClient', Counting))
        err = None
        with shim.shadow(*binds), contextlib.redirect_stdout(io.StringIO()), contextlib.redirect_stderr(io.StringIO()), warnings.catch_warnings():
            warnings.simplefilter('ignore')
            try:
                MC.main(command_line_args=[os.path.join(gx.SRC, 'hip_ra_x', 'hip_ra_x.py'), inp, st, out])
            except Exception as e:   # the summary may fail on degenerate data; the rows are what matters
                err = repr(e)[:120]
        import re
        rows = [ln for ln in open(out).read().splitlines()[1:] if re.search(r'\([^()]*:[^()]*;\)\s*$', ln)]      # iteration rows end with '(Input:value;...)'; the summary block does not
        vecs = [ln[ln.rindex('('):] for ln in rows]
        attempts = len(open(counter).read().splitlines()) if count_attempts and os.path.exists(counter) else None
        return {'iterations': iterations, 'rows': len(rows), 'distinct_sample_vectors': len(set(vecs)), 'simulated runs attempted': attempts, 'summary_error': err,
                'example_rows': vecs[:3]}
    finally:
        os.chdir(cwd)
        sys.argv = argv
        shutil.rmtree(d, ignore_errors=True)


BOUNDS = {'quick': [(2, 2, 0, False), (3, 2, 1, False), (2, 2, 0, True)],
          'thorough': [(2, 2, 0, False), (3, 2, 1, False), (4, 2, 2, False), (4, 3, 0, False), (5, 2, 1, False), (2, 2, 0, True), (3, 2, 1, True)]}
# many iterations on a small machine (1 and 2 processors reported by the OS), one worker, only the first iterations may fail:
# how main() hands the iterations to the pool (batching) must not let one iteration's failure touch another's row
MANY = {'quick': [(8, 1, 2)], 'thorough': [(8, 1, 3), (16, 2, 2), (12, 1, 3)]}     # (iterations, processors, iterations that may fail)


def run_history_unit(unit):
    """two studies in one process, the base-case file edited in between: a distribution parameter given as '#' (take the value from the
    base-case file) must resolve to what the file holds when the study runs."""
    cfg = {'harness': 'main-history', 'studies': 2, 'settings': "Reservoir Temperature, normal, #, 25"}
    log = harness.UnitLog(cfg)
    zv = {}
    world = lambda inp: (True, {'note': 'fact about two consecutive real main() runs in the in-memory world'})

    def fn():
        w = mcworld.MCWorld(OUTPUTS, [True, True], False)
        out = []
        for base in ('250', '150'):
            settings = [['Reservoir Temperature', 'normal', '#', '25']]
            r = run_main(1, 1, settings, 'GEOPHIRESv3.py', False, base_input=f'Reservoir Temperature, {base}\nReservoir Porosity, 10\n', world=w)
            out.append((base, r))
        return out
    for pr in core.explore(fn, max_paths=64):
        log.path(pr)
        if pr.error is not None:
            raise pr.error
        if pr.aborted:
            continue
        harness.reachable(log, pr.ctx, 500)
        for study, (base, r) in enumerate(pr.value):
            draws = [d for o in r['obs'] if not o.get('skipped') for d in o['draws']]
            ok = bool(draws) and all(d.dist == 'normal' and abs(float(str(d.params[0]).strip()) - float(base)) < 1e-9 for d in draws)
            harness.discharge(log, pr.ctx, f"study {study + 1}: a mean given as '#' is the value the base-case file holds when the study runs ({base})", ok, zv,
                              lambda inp: replay_base_history(), sample=(study == 0))
    yield log.result()


def replay_base_history():
    """real main(), real pool, real HIP-RA-X, twice in this process with the base-case file rewritten in between."""
    if 'hist' in _REPLAY:
        return _REPLAY['hist']
    import contextlib
    import io
    import warnings
    from .. import gx
    d = tempfile.mkdtemp(prefix='symx_c13hist_')
    cwd, argv = os.getcwd(), sys.argv
    means = []
    try:
        inp, st, out = (os.path.join(d, n) for n in ('hip.txt', 'settings.txt', 'MC_Result.txt'))
        with open(st, 'w') as f:
            f.write('INPUT, Reservoir Temperature, normal, #, 0.01\nOUTPUT, Producible Electricity (reservoir)\nITERATIONS, 4\nMC_OUTPUT_FILE, %s\n' % out)
        for base in (250.0, 150.0):
            with open(inp, 'w') as f:
                f.write(f'Reservoir Temperature, {base}\nRejection Temperature, 60.0\nReservoir Porosity, 10.0\nReservoir Area, 55.0\nReservoir Thickness, 0.25\nReservoir Life Cycle, 25\n')
            with contextlib.redirect_stdout(io.StringIO()), contextlib.redirect_stderr(io.StringIO()), warnings.catch_warnings():
                warnings.simplefilter('ignore')
                try:
                    MC.main(command_line_args=[os.path.join(gx.SRC, 'hip_ra_x', 'hip_ra_x.py'), inp, st, out])
                except Exception:
                    pass
            vals = [float(ln.split('Reservoir Temperature:')[1].split(';')[0]) for ln in open(out).read().splitlines()[1:] if 'Reservoir Temperature:' in ln]
            means.append((base, sum(vals) / len(vals) if vals else None))
    finally:
        os.chdir(cwd)
        sys.argv = argv
        shutil.rmtree(d, ignore_errors=True)
    bad = [(b, m) for b, m in means if m is None or abs(m - b) > 1.0]
    _REPLAY['hist'] = (bool(bad), {'(value in the base-case file, mean of the sampled values)': means})
    return _REPLAY['hist']


def units(tier):
    us = [{'harness': 'main', 'K': K, 'W': W, 'settings': si, 'lock_outcomes': lo, 'code': 'hip_ra_x.py' if si % 2 else 'GEOPHIRESv3.py'} for (K, W, si, lo) in BOUNDS[tier]]
    us += [{'harness': 'main', 'K': K, 'W': 1, 'settings': 0, 'lock_outcomes': False, 'code': 'GEOPHIRESv3.py', 'cpus': cp, 'may_fail': mf} for (K, cp, mf) in MANY[tier]]
    us.append({'harness': 'main', 'history': True, 'lock_outcomes': False})
    us += [{'harness': 'main', 'requests': H, 'lock_outcomes': False} for H in ((2,) if tier == 'quick' else (2, 3))]
    us.append({'harness': 'main', 'K': 2 if tier == 'quick' else 3, 'W': 1, 'settings': 0, 'lock_outcomes': False, 'code': 'GEOPHIRESv3.py', 'discrete': True, 'may_fail': 0})
    # an OUTPUT named twice in the settings file
    us.append({'harness': 'main', 'K': 2, 'W': 1, 'settings': 0, 'lock_outcomes': False, 'code': 'GEOPHIRESv3.py', 'outputs': ['Out A', 'Out B', 'Out A']})
    return us


def run_requests_unit(unit):
    """the client entry: H MonteCarloRequests built without an output file (the documented default) in one process.  The clock is a
    symbolic schedule (between any two clock reads it may or may not have advanced), temporary-directory / uuid services return fresh
    names (their documented contract).  Each request must get its own results file: otherwise a later study truncates or extends the
    rows of an earlier one."""
    H = unit['requests']
    import types
    from pathlib import Path
    import geophires_monte_carlo as GMC
    cfg = {'harness': 'main-client-requests', 'requests without an output file': H, 'clock': 'symbolic: may or may not advance between two reads'}
    log = harness.UnitLog(cfg)
    zv = {}
    d = tempfile.mkdtemp(prefix='symx_c13req_')

    def fn():
        st = {'n': 0, 'tick': 0, 'reads': 0}

        def fresh(prefix='', suffix='', dir=None):
            st['n'] += 1
            pth = os.path.join(dir or d, f'{prefix or "tmp"}fresh{st["n"]}{suffix or ""}')
            os.makedirs(pth, exist_ok=True)
            return pth

        class TD:
            def __init__(self, suffix=None, prefix=None, dir=None, **kw):
                self.name = fresh(prefix or '', suffix or '', dir)

            def cleanup(self):
                pass

            def __enter__(self):
                return self.name

            def __exit__(self, *a):
                pass

        def now():
            st['reads'] += 1
            if st['reads'] > 1 and bool(core.symbool(f'clock_advanced_before_read_{st["reads"]}')):
                st['tick'] += 1
            return st['tick']
        clock = types.SimpleNamespace(strftime=lambda fmt='', *a: f'T{now():06d}', time=lambda: 1.7e9 + now(), time_ns=lambda: int(1.7e18) + now(),
                                      monotonic=lambda: float(now()), perf_counter=lambda: float(now()), sleep=lambda *a: None,
                                      localtime=lambda *a: None, gmtime=lambda *a: None)
        tf = types.SimpleNamespace(TemporaryDirectory=TD, mkdtemp=fresh, gettempdir=lambda: d, gettempprefix=lambda: 'tmp')

        class U:
            def __init__(self):
                st['n'] += 1
                self.hex = f'{st["n"]:032x}'
                self.int = st['n']

            def __str__(self):
                return self.hex
        uu = types.SimpleNamespace(uuid4=U, uuid1=U)
        binds = [(GMC, 'TemporaryDirectory', TD), (GMC, 'tempfile', tf), (GMC, 'time', clock), (GMC, 'uuid', uu)]
        with shim.shadow(*[b for b in binds if hasattr(b[0], b[1])]):
            reqs = [GMC.MonteCarloRequest(GMC.SimulationProgram.GEOPHIRES, Path(d, 'in.txt'), Path(d, f'settings{i}.txt')) for i in range(H)]
            paths = [str(r.output_file) for r in reqs]
            for r in reqs:
                if hasattr(r, '_temp_output_dir'):
                    r.__dict__.pop('_temp_output_dir')      # (no clean-up through the model services when the request is collected)
        return paths
    try:
        for pr in core.explore(fn, max_paths=4096):
            log.path(pr)
            if pr.error is not None:
                raise pr.error
            if pr.aborted:
                continue
            harness.reachable(log, pr.ctx, 500)
            paths = pr.value
            for a in range(H):
                for b in range(a + 1, H):
                    harness.discharge(log, pr.ctx, f'requests {a + 1} and {b + 1} (no output file named) write their rows to different results files',
                                      paths[a] != paths[b], zv, lambda inp: replay_requests(H), sample=(a == 0 and b == 1))
    finally:
        shutil.rmtree(d, ignore_errors=True)
    yield log.result()


def replay_discrete_rows():
    """real main(), real pool, real HIP-RA-X: one binomial input with four possible values, 12 iterations (equal sample vectors are certain)."""
    if 'discrete' not in _REPLAY:
        r = replay_real_main([['Reservoir Porosity', 'binomial', '3', '0.5']], 12)
        _REPLAY['discrete'] = (r['rows'] < r['iterations'], r)
    return _REPLAY['discrete']


def replay_duplicate_outputs():
    """real main(), real pool, real HIP-RA-X with an OUTPUT named twice in the settings file."""
    if 'dupout' in _REPLAY:
        return _REPLAY['dupout']
    import contextlib
    import io
    import warnings
    from .. import gx
    d = tempfile.mkdtemp(prefix='symx_c13dup_')
    cwd, argv = os.getcwd(), sys.argv
    try:
        inp, st, out = (os.path.join(d, n) for n in ('hip.txt', 'settings.txt', 'MC_Result.txt'))
        with open(st, 'w') as f:
            f.write('INPUT, Reservoir Temperature, normal, 250, 1\nOUTPUT, Producible Electricity (reservoir)\nOUTPUT, Producible Heat (reservoir)\n'
                    'OUTPUT, Producible Electricity (reservoir)\nITERATIONS, 3\nMC_OUTPUT_FILE, %s\n' % out)
        with open(inp, 'w') as f:
            f.write('Reservoir Temperature, 250.0\nRejection Temperature, 60.0\nReservoir Porosity, 10.0\nReservoir Area, 55.0\nReservoir Thickness, 0.25\nReservoir Life Cycle, 25\n')
        with contextlib.redirect_stdout(io.StringIO()), contextlib.redirect_stderr(io.StringIO()), warnings.catch_warnings():
            warnings.simplefilter('ignore')
            try:
                MC.main(command_line_args=[os.path.join(gx.SRC, 'hip_ra_x', 'hip_ra_x.py'), inp, st, out])
            except Exception:
                pass
        lines = open(out).read().splitlines() if os.path.exists(out) else []
        n_out = len(lines[0].split(',')) - 1 if lines else 0
        import re
        rows = [ln for ln in lines[1:] if re.search(r'\([^()]*:[^()]*;\)\s*$', ln)]      # the iteration rows end with '(Input:value;...)'
        bad = [ln for ln in rows if len([f for f in ln.partition('(')[0].strip().strip(',').split(',') if f.strip()]) != n_out]
        _REPLAY['dupout'] = (bool(bad) or not rows, {'header': lines[0] if lines else None, 'rows not matching the header': bad[:3], 'rows': len(rows)})
    finally:
        os.chdir(cwd)
        sys.argv = argv
        shutil.rmtree(d, ignore_errors=True)
    return _REPLAY['dupout']


def replay_requests(H):
    """the real constructor with the real clock and tempfile: H requests built back to back (same wall-clock second, retried if a second
    boundary was crossed)."""
    import time
    from pathlib import Path
    import geophires_monte_carlo as GMC
    d = tempfile.mkdtemp(prefix='symx_c13reqr_')
    try:
        for attempt in range(3):
            t0 = int(time.time())
            reqs = [GMC.MonteCarloRequest(GMC.SimulationProgram.GEOPHIRES, Path(d, 'in.txt'), Path(d, f'settings{i}.txt')) for i in range(H)]
            paths = [str(r.output_file) for r in reqs]
            if int(time.time()) == t0 or len(set(paths)) < H:
                break
        return len(set(paths)) < H, {'results files of the requests': paths}
    finally:
        shutil.rmtree(d, ignore_errors=True)


def run_unit(unit):
    if unit.get('history'):
        yield from run_history_unit(unit)
        return
    if unit.get('requests'):
        yield from run_requests_unit(unit)
        return
    K, W, si, code, lo = unit['K'], unit['W'], unit['settings'], unit['code'], unit['lock_outcomes']
    settings = [list(s) for s in c13.SETTINGS[si]]
    cfg = {'harness': 'main', 'K': K, 'W': W, 'settings': c13.SETTINGS[si], 'code': code, 'lock_outcomes': lo, 'cpus': unit.get('cpus'), 'may_fail': unit.get('may_fail')}
    outs = unit.get('outputs') or OUTPUTS
    if unit.get('outputs'):
        cfg['OUTPUT lines of the settings file'] = outs
    if unit.get('discrete'):
        # all inputs discrete: two iterations may legitimately draw the same vector, and the (deterministic) simulator then prints the same
        # figures: the two rows are textually identical and both belong in the file
        settings = [['Reservoir Life Cycle', 'binomial', '1', '0.5']]
        cfg['settings'] = settings
        cfg['discrete inputs'] = 'each binomial draw is a solver-chosen member of {0, 1}; report figures are a function of the simulated input text'
    log = harness.UnitLog(cfg)
    zv = {}

    for j in range(K):
        zv[f'uuid{j}.int'] = z3.Int(f'uuid{j}.int')

    def concrete_dups(inp):
        # the witness' entropy values (uuid ints drawn by the parent) are replayed; everything else is the real driver, pool and numpy
        ints = [int(inp.get(f'uuid{j}.int', 1000003 * (j + 1))) for j in range(K)]
        key = ('dups', si, tuple(ints))
        if key not in c13._REPLAYED:
            c13._REPLAYED[key] = replay_real_main(c13.SETTINGS[si], max(K, 2), uuid_ints=ints)
        r = c13._REPLAYED[key]
        if r['distinct_sample_vectors'] < r['rows']:
            return True, r
        key = ('dups', si)
        if key not in c13._REPLAYED:
            c13._REPLAYED[key] = c13.replay_system(c13.SETTINGS[si])
        r2 = c13._REPLAYED[key]
        return r2['distinct_sample_vectors'] < r2['rows'], r2

    def concrete_rows(inp):
        # a study large enough for this machine's processor count, with inputs sampled partly out of range so that some iterations fail
        key = ('rows',)
        if key not in c13._REPLAYED:
            n = 12 * (os.cpu_count() or 4)
            c13._REPLAYED[key] = replay_real_main([['Reservoir Porosity', 'uniform', '60', '140']], n, count_attempts=True)
        r = c13._REPLAYED[key]
        return (r['simulated runs attempted'] is not None and r['simulated runs attempted'] < r['iterations']), r
    world = lambda inp: (True, {'note': 'fact about the real main() running in the in-memory world'})
    header = ', '.join(outs) + ', ' + ', '.join(s[0] for s in settings) + '\n'
    n = 0
    for pr in core.explore(lambda: run_main(K, W, [list(s) for s in settings], code, lo, unit.get('cpus'), unit.get('may_fail'), outputs=unit.get('outputs'), discrete=bool(unit.get('discrete'))), max_paths=300000):
        log.path(pr)
        n += 1
        if pr.error is not None:
            raise pr.error
        if pr.aborted:
            continue
        r = pr.value
        c = pr.ctx
        obs = r['obs']
        attempted = [o for o in obs if not o.get('skipped')]
        harness.discharge(log, c, 'main(): the run reaches the summarising step without an error of its own', r['error'] is None, zv, world)
        harness.discharge(log, c, 'main(): the results file starts with exactly one header line naming the OUTPUT and INPUT columns',
                          r['file'].startswith(header) and r['file'].count(header) == 1, zv, world)
        harness.discharge(log, c, 'main(): as many iterations are submitted to the pool as ITERATIONS requests', len(obs) == K, zv, world)
        harness.discharge(log, c, 'main(): every requested iteration is run, whatever happens to the other iterations (a failing iteration affects only its own row)',
                          len(attempted) == K, zv, concrete_rows)
        ok_rows = sum(1 for o in attempted if not (o['raised'] or o['failed']) and o.get('lock_acquired', True))
        body = r['file'][len(header):] if r['file'].startswith(header) else ''
        if not lo:
            harness.discharge(log, c, 'main(): the results file holds exactly one row per successfully simulated iteration', body.count('\n') == ok_rows and len(attempted) == K, zv,
                              (lambda inp: replay_discrete_rows()) if unit.get('discrete') else concrete_rows)
        # every row has one value per OUTPUT column the header announces (the header is taken as the file holds it)
        hdr_line = r['file'].split('\n', 1)[0]
        n_out = len([x for x in hdr_line.split(',')]) - len(settings)
        rows_ok = all(len([f for f in ln.partition('(')[0].strip().strip(',').split(',') if f.strip()]) == n_out for ln in body.split('\n') if ln.strip())
        harness.discharge(log, c, 'main(): every row holds one value per OUTPUT column of the header line', rows_ok, zv,
                          (lambda inp: replay_duplicate_outputs()) if unit.get('outputs') else world)
        if unit.get('discrete'):
            continue      # (the per-iteration sampling obligations speak of symbolic variates; here the draws are concrete numbers)
        c13.check_obs(log, c, obs, settings, zv, concrete_dups, concrete_dups, first=(n == 1),
                      row_finding=('C13-row-lost-when-lock-not-granted', lambda inp: replay_lock_timeout()))
        if n % 400 == 0:
            yield log.result()
            log = harness.UnitLog(cfg)
    yield log.result()
