#!/usr/bin/env python3
"""Writes the measured-cost table (from evidence/tiers/*.json, i.e. the last quick and thorough run of every check) between the COST_TABLE markers of DESIGN.md."""
import glob, json, os
HERE = os.path.dirname(os.path.dirname(os.path.abspath(__file__)))
rows = ['| | quick: wall s / paths / obligations / inconclusive | thorough: wall s / paths / obligations / inconclusive |', '|---|---|---|']
for i in range(1, 21):
    pid = f'C{i:02d}'
    cells = []
    for tier in ('quick', 'thorough'):
        p = os.path.join(HERE, 'evidence', 'tiers', f'{pid}-{tier}.json')
        if os.path.exists(p):
            d = json.load(open(p)); c = d['coverage']
            cells.append(f"{d['wall_s']:.0f} / {c['paths']} / {c['obligations']} / {c['inconclusive']}")
        else:
            cells.append('-')
    rows.append(f'| {pid} | {cells[0]} | {cells[1]} |')
s = open(os.path.join(HERE, 'DESIGN.md')).read()
b, e = '<!-- COST_TABLE_BEGIN -->\n', '<!-- COST_TABLE_END -->'
i, j = s.index(b) + len(b), s.index(e)
open(os.path.join(HERE, 'DESIGN.md'), 'w').write(s[:i] + '\n'.join(rows) + '\n' + s[j:])
print('\n'.join(rows))
