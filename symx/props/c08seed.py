"""C08, hash-seed clause: the same input read (and the reservoir calculated) by fresh interpreters started with different PYTHONHASHSEED
values must end in the same parameter state.  The input mixes the list style and the enumerated style of the segment parameters and
repeats keys across the classes, so that any iteration over a set of strings in a reader shows up as an order change.  (Concrete
differential over an enumerated set of seeds: hash randomisation is an environment input that no solver variable stands for here.)"""
from __future__ import annotations

import json
import os
import subprocess
import sys

from .. import gx, harness

INPUT = {'Reservoir Model': 4, 'Number of Segments': 3, 'Gradients': '40, 50, 60', 'Gradient 2': 70, 'Gradient 1': 45, 'Thicknesses': '1, 1', 'Thickness 1': 1.5, 'Thickness 2': 0.5,
         'Reservoir Depth': 4, 'Maximum Temperature': 350, 'End-Use Option': 2, 'Power Plant Type': 9, 'Plant Lifetime': 3, 'Time steps per year': 1, 'Print Output to Console': 0,
         'Production Well Diameter': 8, 'Injection Well Diameter': 9, 'Ending Heat Sale Price': 0.04, 'Starting Heat Sale Price': 0.03}
SCRIPT = r'''
import json, sys
from symx import gx
m = gx.make_model(json.loads(sys.argv[1]))
m.reserv.Calculate(m)
state = {}
for cn in ('reserv', 'wellbores', 'surfaceplant', 'economics'):
    comp = getattr(m, cn)
    for k, p in comp.ParameterDict.items():
        state[f'{cn}.{k}'] = repr((p.value, str(getattr(p, 'CurrentUnits', None)), getattr(p, 'Provided', None)))
state['reserv.Trock'] = repr(float(m.reserv.Trock.value))
state['reserv.depth'] = repr(float(m.reserv.depth.value))
print('STATE' + json.dumps(state, sort_keys=True))
'''


def run_seed(seed):
    env = dict(os.environ, PYTHONHASHSEED=str(seed), PYTHONPATH=os.pathsep.join([os.path.dirname(os.path.dirname(os.path.dirname(os.path.abspath(__file__)))), gx.SRC]),
               SYMX_REPO=gx.REPO)
    r = subprocess.run([sys.executable, '-c', SCRIPT, json.dumps(INPUT)], env=env, capture_output=True, text=True, timeout=120)
    for ln in r.stdout.splitlines():
        if ln.startswith('STATE'):
            return json.loads(ln[5:])
    raise RuntimeError('no state from the sub-interpreter: ' + (r.stderr or r.stdout)[-400:])


def units(tier):
    return [{'harness': 'hash-seed', 'seeds': list(range(4 if tier == 'quick' else 12))}]


def run_unit(unit):
    cfg = {'harness': 'hash-seed', 'seeds': unit['seeds']}
    log = harness.UnitLog(cfg)
    ref = None
    for sd in unit['seeds']:
        st = run_seed(sd)
        log['paths'] += 1
        log['reachable'] += 1
        if ref is None:
            ref = st
            continue
        log['obligations'] += 1
        diff = [k for k in sorted(set(ref) | set(st)) if ref.get(k) != st.get(k)]
        if not diff:
            log['discharged'] += 1
        else:
            log['cex'].append({'obligation': 'the parameter state after reading (and the bottom-hole temperature) does not depend on the hash seed', 'finding': None, 'config': cfg,
                               'reproduced': True, 'inputs': {'PYTHONHASHSEED': [unit['seeds'][0], sd]},
                               'detail': {'differs in': diff[:6], 'values': {k: [ref.get(k), st.get(k)] for k in diff[:3]}},
                               'how': 'fresh interpreters with different hash seeds on the same input', 'attempts': []})
    log['samples'].append({'input': INPUT, 'seeds': unit['seeds']})
    log.d['exhaustive'] = True
    yield log.result()
