#!/bin/sh
# usage: tools/seed_matrix.sh [tier] [seed-dir-glob]
# For every confirmed seeded change under /verif/seeded: apply patch.diff to /repo's working tree, run the quick (or given) check of
# its own property with --no-evidence, record exit code / violation lines in seeded/<dir>/detection.json, revert /repo.
TIER="${1:-quick}"; GLOB="${2:-*}"
cd /verif
for d in seeded/$GLOB/; do
  d=${d%/}
  [ -f "$d/patch.diff" ] || continue
  ID=$(basename "$d" | cut -d- -f1)
  git -C /repo apply "/verif/$d/patch.diff" || { echo "$d: PATCH DOES NOT APPLY"; continue; }
  T0=$(date +%s)
  ./.venv/bin/python -m symx.check "$ID" --tier "$TIER" --no-evidence > "$d/check_$TIER.log" 2>&1
  RC=$?
  T1=$(date +%s)
  NV=$(grep -c '^VIOLATION' "$d/check_$TIER.log")
  FIRST=$(grep -m1 'violated obligation' "$d/check_$TIER.log" | cut -c1-300 | sed 's/"/\\"/g')
  git -C /repo checkout -- .
  (cd /repo && git clean -fdq src tests >/dev/null 2>&1; git clean -fdqx src/geophires_x -e all_messages_conf.log -e __pycache__ >/dev/null 2>&1)
  # keep the log small
  grep -E '^(VIOLATION|KNOWN-FINDING|C[0-9]+ |HARNESS)|violated obligation' "$d/check_$TIER.log" | cut -c1-400 | head -40 > "$d/check_$TIER.log.tmp"; mv "$d/check_$TIER.log.tmp" "$d/check_$TIER.log"
  echo "{\"check\": \"./.venv/bin/python -m symx.check $ID --tier $TIER\", \"exit\": $RC, \"violation_lines\": $NV, \"wall_s\": $((T1-T0)), \"first_violated_obligation\": \"$FIRST\", \"repo_head\": \"$(git -C /repo rev-parse --short HEAD)\"}" > "$d/detection_$TIER.json"
  echo "$d exit=$RC violations=$NV wall=$((T1-T0))s"
done
git -C /repo status --short
