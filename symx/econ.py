"""Drive for the real Economics.Calculate (and add-ons) on a real Model with symbolic inputs.

A *spec* is a list of (name, kind, lo, hi) where name addresses model state:
    economics.totalcapcost            -> model.economics.totalcapcost.value            (scalar)
    economics.totalcapcost.Valid      -> the Valid / Provided flag                     (bool)
    surfaceplant.NetkWhProduced[2]    -> element of an array-valued output            (scalar)
"""
from __future__ import annotations

import re

import numpy as np

from . import core, gx, shim
from .core import SymReal, SymBool

from geophires_x import Economics as E
from geophires_x import EconomicsAddOns as EA
from geophires_x.OptionList import EndUseOptions, PlantType, EconomicModel

NPF = None


def npf_shim():
    global NPF
    if NPF is None:
        NPF = shim.NPFShim()
    return NPF


class MathForEcon(shim.MathShim):
    @staticmethod
    def isnan(x):
        if isinstance(x, shim.IrrResult):
            return bool(SymBool(x.nan))
        if isinstance(x, SymReal):
            return False
        import math
        return math.isnan(x)


MATH = MathForEcon()

HEAT_PLANTS = {5: 'Absorption Chiller', 6: 'Heat Pump', 7: 'District Heating', 9: 'Industrial'}


def base_params(cfg):
    """input file of a small but complete case for the configuration."""
    eu, pt = cfg['eu'], cfg['pt']
    p = {
        'Reservoir Model': 4, 'Drawdown Parameter': 0.005, 'Reservoir Depth': 3, 'Number of Segments': 1, 'Gradient 1': 50,
        'Maximum Temperature': 400, 'Number of Production Wells': 2, 'Number of Injection Wells': 2,
        'Production Flow Rate per Well': 55, 'Injection Temperature': 50, 'Reservoir Volume Option': 4, 'Reservoir Volume': 1e9,
        'End-Use Option': eu, 'Power Plant Type': pt, 'Economic Model': cfg.get('em', 2),
        'Plant Lifetime': cfg['L'], 'Construction Years': cfg.get('K', 1), 'Time steps per year': cfg.get('T', 2),
        'Print Output to Console': 0, 'Ramey Production Wellbore Model': 1, 'Productivity Index': 5, 'Injectivity Index': 5,
        'Reservoir Impedance': 0.05,
    }
    if eu in (41, 42):
        p['Gradient 1'] = 70
        p['CHP Bottoming Entering Temperature'] = 140
    if pt == 7:
        p['District Heating Demand Option'] = 1
        p['District Heating Demand File Name'] = gx.REPO + '/tests/examples/cornell_heat_demand.csv'
    if cfg.get('carbon'):
        p['Do Carbon Price Calculations'] = True
        p['Starting Carbon Credit Value'] = 0.015
        p['Ending Carbon Credit Value'] = 0.1
        p['Carbon Escalation Rate Per Year'] = 0.01
    if cfg.get('addon'):
        p.update({'Do AddOn Calculations': True, 'AddOn Nickname 1': 'a1', 'AddOn CAPEX 1': 30, 'AddOn OPEX 1': 1.5,
                  'AddOn Electricity Gained 1': 2.0, 'AddOn Heat Gained 1': 1.0, 'AddOn Profit Gained 1': 0.5})
        if cfg.get('addon') == 2:
            p.update({'AddOn Nickname 2': 'a2', 'AddOn CAPEX 2': 10, 'AddOn OPEX 2': 0.5,
                      'AddOn Electricity Gained 2': 1.0, 'AddOn Heat Gained 2': 0.0, 'AddOn Profit Gained 2': 0.1})
    p.update(cfg.get('extra', {}))
    return p


class Prepared:
    """a real Model whose reservoir / wellbore / surface plant have been calculated concretely once."""

    def __init__(self, cfg):
        self.cfg = cfg
        self.model = m = gx.make_model(base_params(cfg))
        m.reserv.Calculate(m)
        m.wellbores.Calculate(m)
        m.surfaceplant.Calculate(m)
        if m.surfaceplant.plant_type.value == PlantType.DISTRICT_HEATING:
            m.reserv.Calculate(m)
            m.wellbores.Calculate(m)
            m.surfaceplant.Calculate(m)
        self.snap = gx.Snapshot(m)

    def reset(self):
        self.snap.restore()
        return self.model


_NAME = re.compile(r'^(\w+)\.(\w+)(?:\[(\d+)\])?(?:\.(Valid|Provided|value))?$')


def resolve(model, name):
    mt = _NAME.match(name)
    if not mt:
        raise core.HarnessError(f'bad state name {name}')
    comp, attr, idx, flag = mt.groups()
    obj = getattr(getattr(model, comp), attr)
    return obj, (int(idx) if idx is not None else None), flag


def install(model, vals):
    """write values (proxies or python numbers) into the model state."""
    arrays = {}
    for name, v in vals.items():
        obj, idx, flag = resolve(model, name)
        if flag in ('Valid', 'Provided'):
            setattr(obj, flag, v)
        elif idx is None:
            if gx.is_param(obj):
                obj.value = v
            else:
                comp, attr = name.split('.')[:2]
                setattr(getattr(model, comp), attr, v)
        else:
            arrays.setdefault(name[:name.index('[')], {})[idx] = v
    for base, d in arrays.items():
        obj, _, _ = resolve(model, base)
        cur = obj.value
        n = max(len(cur) if hasattr(cur, '__len__') else 0, max(d) + 1)
        symbolic = any(core.is_sym(x) for x in d.values())
        if symbolic:
            a = np.empty(n, dtype=object)
            for i in range(n):
                a[i] = d[i] if i in d else float(cur[i])
            a = a.view(core.SymArray)
        else:
            a = np.array([float(d[i]) if i in d else float(cur[i]) for i in range(n)])
        if isinstance(cur, list):
            a = list(a)
        obj.value = a


def make_symbolic(spec):
    vals = {}
    zvars = {}
    import z3
    for name, kind, lo, hi in spec:
        if kind == 'real':
            vals[name] = core.sym(name, lo, hi)
            zvars[name] = z3.Real(name)
        elif kind == 'int':
            vals[name] = core.symint(name, lo, hi)
            zvars[name] = z3.Int(name)
        elif kind == 'bool':
            vals[name] = core.symbool(name)
            zvars[name] = z3.Bool(name)
        else:
            raise core.HarnessError(kind)
    return vals, zvars


def concrete_vals(spec, inputs):
    vals = {}
    for name, kind, lo, hi in spec:
        v = inputs.get(name)
        if v is None:
            v = False if kind == 'bool' else (lo if lo is not None else 0.0)
        vals[name] = bool(v) if kind == 'bool' else (int(v) if kind == 'int' else float(v))
    return vals


def objectify(model):
    """give the concretely prepared float64 annual-energy series (…kWh…) of the upstream components object dtype, so that code that updates
    one of them in place with a symbolic factor executes (numpy refuses to cast an object result into a float64 array)
    and the change is visible to the obligations instead of crashing the path."""
    for comp in ('reserv', 'wellbores', 'surfaceplant'):
        c = getattr(model, comp, None)
        for k, p in list(vars(c).items()) if c is not None else ():
            v = getattr(p, 'value', None)
            if 'kwh' in k.lower() and gx.is_param(p) and isinstance(v, np.ndarray) and v.dtype == np.float64 and v.ndim == 1:
                a = np.empty(len(v), dtype=object)
                for i, x in enumerate(v):
                    a[i] = float(x)
                p.value = a.view(core.SymArray)


def run_econ(model, symbolic=True):
    if symbolic:
        objectify(model)
        binds = [(E, 'npf', npf_shim()), (E, 'math', MATH), (E, 'np', shim.NP),
                 (EA, 'npf', npf_shim()), (EA, 'np', shim.NP), (EA, 'math', MATH)]
        if type(model.economics).__module__.endswith('SBTEconomics'):
            from geophires_x import SBTEconomics as SE
            binds += [(SE, 'npf', npf_shim()), (SE, 'math', MATH), (SE, 'np', shim.NP)]
        binds = [b for b in binds if hasattr(b[0], b[1])]
        # float(x) on a proxy keeps the proxy (a conversion of a computed figure must not end the symbolic run)
        binds += [(mod_, 'float', shim.FloatShadow) for mod_ in {b[0] for b in binds}]
        with shim.shadow(*binds):
            model.economics.Calculate(model)
    else:
        model.economics.Calculate(model)


def val(x):
    return x
