#!/bin/sh
# usage: tools/try_patch.sh <patch.diff> <Cxx> [tier]   -- applies to /repo, runs the check, always reverts
P="$1"; ID="$2"; TIER="${3:-quick}"
cd /verif
git -C /repo apply "$P" || { echo "PATCH DOES NOT APPLY"; exit 9; }
./.venv/bin/python -m symx.check "$ID" --tier "$TIER" --no-evidence 2>&1 | tail -${TAILN:-12}
RC=$?
git -C /repo checkout -- . 
git -C /repo status --short | grep -v '^?? -q' 
echo "exit=$RC"
