"""Relational (two-run) obligations from ONE symbolic exploration.

The real function is explored once on symbolic inputs x; each path p yields (pc_p(x), out_p(x)).  A second run on
related inputs x' = s(x) follows some path q with pc_q(s(x)) and outputs out_q(s(x)) — obtained by substituting the
input variables in the recorded terms (z3.substitute), which is exactly what re-running the code on s(x) would build.
For every pair (p, q):  assumptions(x) & assumptions(s(x)) & pc_p(x) & pc_q(s(x))  =>  R(out_p(x), out_q(s(x))).
Paths whose relevant output terms are syntactically identical are merged (their path conditions are disjoined), which
keeps the number of pairs small when forks do not influence the compared outputs."""
from __future__ import annotations

import z3

from . import core


class PathRec:
    __slots__ = ('cons', 'outs', 'trace', 'keep', 'defs')

    def __init__(self, cons, outs, trace=None, keep=(), defs=()):
        self.defs = list(defs)   # defining equations of named terms (subset of cons)
        self.keep = list(keep)   # constraints never dropped by weakening (definedness: den != 0)
        self.cons = cons     # list of z3 Bool: defined + side + pc + defs (NOT the input-range assumptions)
        self.outs = outs     # dict name -> z3 term
        self.trace = trace


def is_linear(c):
    """a constraint the linear abstraction leaves untouched (no products of variables, no symbolic division)."""
    return core.abstract(c).eq(c)


def group_weak(paths, keys):
    """like group(), but the merged condition keeps only the LINEAR conjuncts of every path (a weaker premise: proving
    the relation under it is sound and usually enough; paths that differ only in non-linear forks collapse)."""
    groups = {}
    for p in paths:
        sig = tuple(p.outs[k].get_id() if p.outs[k] is not None else None for k in keys)
        keep_ids = {c.get_id() for c in p.keep}
        lin = [c for c in p.cons if c.get_id() in keep_ids or is_linear(c)]
        key = tuple(sorted(c.get_id() for c in lin))
        g = groups.setdefault(sig, [{}, p.outs])
        g[0].setdefault(key, z3.And(lin) if lin else z3.BoolVal(True))
    out = []
    for g in groups.values():
        conds = list(g[0].values())
        out.append((z3.Or(conds) if len(conds) > 1 else conds[0], g[1]))
    return out


def record(ctx, outs):
    cons = list(ctx.defined) + list(ctx.side) + list(ctx.pc) + list(ctx.defs)
    return PathRec(cons, {k: core.lift(v) for k, v in outs.items()}, keep=list(ctx.defined), defs=list(ctx.defs))


def group(paths, keys):
    """merge paths with identical output terms for the given keys; returns list of (cond, outs)."""
    groups = {}
    for p in paths:
        sig = tuple(p.outs[k].get_id() if p.outs[k] is not None else None for k in keys)
        g = groups.get(sig)
        if g is None:
            groups[sig] = [[z3.And(p.cons) if p.cons else z3.BoolVal(True)], p.outs, [p.outs[k] for k in keys]]
        else:
            g[0].append(z3.And(p.cons) if p.cons else z3.BoolVal(True))
    return [(z3.Or(g[0]) if len(g[0]) > 1 else g[0][0], g[1]) for g in groups.values()]


def fresh_side_vars(terms):
    """side variables (max!k, irr!k, def!k, uf results are fine) that must be renamed in the second run."""
    seen, out, stack = set(), [], list(terms)
    while stack:
        t = stack.pop()
        if t.get_id() in seen:
            continue
        seen.add(t.get_id())
        if z3.is_const(t) and t.decl().kind() == z3.Z3_OP_UNINTERPRETED and '!' in t.decl().name():
            out.append(t)
        elif z3.is_app(t):
            stack.extend(t.children())
    return out


def substituted(cond, outs, subst):
    """the second run: substitute inputs; rename internal fresh variables (they are run-local)."""
    terms = [cond] + [t for t in outs.values() if t is not None]
    ren = []
    for v in fresh_side_vars(terms):
        ren.append((v, z3.Const(v.decl().name() + "'", v.sort())))
    allsub = list(subst) + ren
    c2 = z3.substitute(cond, *allsub)
    o2 = {k: (z3.substitute(t, *allsub) if t is not None else None) for k, t in outs.items()}
    return c2, o2
