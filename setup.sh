#!/bin/sh
# Offline setup: overlay venv on top of /venv (repo deps) + z3-solver from the wheelhouse.
set -e
cd "$(dirname "$0")"
if [ ! -x .venv/bin/python ] || ! .venv/bin/python -c "import z3, numpy, pint" 2>/dev/null; then
  rm -rf .venv
  /venv/bin/python -m venv .venv
  SP=$(.venv/bin/python -c "import sysconfig; print(sysconfig.get_paths()['purelib'])")
  printf "import site; site.addsitedir('/venv/lib/python3.12/site-packages')\n/repo/src\n" > "$SP/_base.pth"
  PIP_NO_INDEX=1 .venv/bin/python -m pip install --quiet --no-index --find-links /opt/veriftools/wheels z3-solver
fi
.venv/bin/python -c "import z3, numpy, pint; print('symx venv ok: z3', z3.get_version_string(), 'numpy', numpy.__version__)"
