"""symx core: proxy values over z3 terms, path exploration by re-execution, obligations.

The code under test is the *real* GEOPHIRES-X code imported from /repo/src; it is executed on the proxy
objects defined here.  Every arithmetic operation builds a z3 term; every `if` on a symbolic condition is a
fork point explored by re-execution under a decision prefix (DFS).
"""
from __future__ import annotations

import sys as _sys
_sys.set_int_max_str_digits(0)
import fractions
import math
import time

import numpy as np
import z3

R = z3.RealSort()


class PathAbort(BaseException):
    """Raised to abandon the current path (infeasible / budget)."""


class Realize(BaseException):
    """The code under test asked for a concrete value of a symbolic one (float(), int(), index)."""


class HarnessError(Exception):
    pass


# --------------------------------------------------------------------------------------------------
# linear abstraction used for branch feasibility (exact NRA feasibility hangs z3 on this code)
# --------------------------------------------------------------------------------------------------
_ABS_MUL = z3.Function('abs_mul', R, R, R)
_ABS_DIV = z3.Function('abs_div', R, R, R)
_ABS_POW = z3.Function('abs_pow', R, R, R)
_abs_cache: dict = {}


def _is_const(t):
    return z3.is_rational_value(t) or z3.is_int_value(t)


def abstract(t):
    k = t.get_id()
    hit = _abs_cache.get(k)
    if hit is not None and hit[0].eq(t):
        return hit[1]
    r = _abstract(t)
    _abs_cache[k] = (t, r)  # keep t alive: z3 ids are reused after GC
    return r


def _abstract(t):
    if not z3.is_app(t) or t.num_args() == 0:
        return t
    ch = [abstract(c) for c in t.children()]
    kind = t.decl().kind()
    if kind == z3.Z3_OP_MUL:
        consts = [c for c in ch if _is_const(c)]
        others = [c for c in ch if not _is_const(c)]
        if len(others) <= 1:
            return t.decl()(*ch) if len(ch) > 1 else ch[0]
        acc = others[0]
        for o in others[1:]:
            acc = _ABS_MUL(acc, o)
        for c in consts:
            acc = c * acc
        return acc
    if kind == z3.Z3_OP_DIV:
        if _is_const(ch[1]):
            return ch[0] / ch[1]
        return _ABS_DIV(ch[0], ch[1])
    if kind == z3.Z3_OP_POWER:
        return _ABS_POW(ch[0], ch[1])
    return t.decl()(*ch)


# --------------------------------------------------------------------------------------------------
# execution context
# --------------------------------------------------------------------------------------------------
class Ctx:
    def __init__(self, decisions=(), branch_timeout_ms=400, max_decisions=4000, name_threshold=None):
        self.solver = z3.Solver()
        self.solver.set('timeout', branch_timeout_ms)
        self.decisions = list(decisions)
        self.trace = []          # (decision, other_side_feasible)
        self.pc = []             # exact path-condition conjuncts (z3 Bool)
        self.assume = []         # harness assumptions (exact)
        self.defined = []        # definedness assumptions (den != 0), with provenance
        self.side = []           # side constraints introduced by exact encodings (max/min/floor)
        self.defs = []           # defining equations of named large terms (v == term); dropping them generalises
        self.name_threshold = name_threshold
        self.tokens = []         # provenance tokens (term, spec)
        self.fresh = 0
        self.max_decisions = max_decisions
        self.notes = []
        self.branch_unknown = 0
        self._psolver = None
        self._pcount = -1

    # -- assumptions ----------------------------------------------------------------------------
    def add_assume(self, *conds):
        for c in conds:
            if isinstance(c, SymBool):
                c = c.t
            if isinstance(c, bool):
                if not c:
                    raise HarnessError('assumption is literally False')
                continue
            self.assume.append(c)
            self.solver.add(abstract(c))

    def add_side(self, *conds):
        for c in conds:
            self.side.append(c)
            self.solver.add(abstract(c))

    def add_defined(self, den, where=''):
        c = z3.simplify(den != 0)
        if z3.is_true(c):
            return
        if z3.is_false(c):
            raise ZeroDivisionError('symbolic division by a term that simplifies to zero')
        self.defined.append(c)
        self.solver.add(abstract(c))

    def fresh_real(self, prefix='v'):
        self.fresh += 1
        return z3.Real(f'{prefix}!{self.fresh}')

    def fresh_bool(self, prefix='b'):
        self.fresh += 1
        return z3.Bool(f'{prefix}!{self.fresh}')

    # -- branching ------------------------------------------------------------------------------
    def branch(self, cond):
        cond = z3.simplify(cond)
        if z3.is_true(cond):
            return True
        if z3.is_false(cond):
            return False
        i = len(self.trace)
        if i >= self.max_decisions:
            raise PathAbort('decision budget')
        ac = abstract(cond)
        if i < len(self.decisions):
            d = self.decisions[i]
            # the prefix was feasible when it was scheduled; no need to re-check
            self.trace.append((d, False))
        else:
            self.solver.push()
            self.solver.add(ac)
            rt = str(self.solver.check())
            self.solver.pop()
            self.solver.push()
            self.solver.add(z3.Not(ac))
            rf = str(self.solver.check())
            self.solver.pop()
            if rt == 'unknown' or rf == 'unknown':
                self.branch_unknown += 1
            can_t, can_f = rt != 'unsat', rf != 'unsat'
            if not can_t and not can_f:
                raise PathAbort('infeasible path')
            d = can_t
            self.trace.append((d, can_t and can_f))
        c = cond if d else z3.Not(cond)
        self.pc.append(c)
        self.solver.add(ac if d else z3.Not(ac))
        return d

    def all_constraints(self, with_defs=True):
        return list(self.assume) + list(self.defined) + list(self.side) + list(self.pc) + (list(self.defs) if with_defs else [])

    def name_term(self, t):
        """definitional naming: returns a fresh variable v with the recorded definition v == t."""
        v = self.fresh_real('def')
        self.defs.append(v == t)
        self.solver.add(abstract(v == t))
        return v


CTX: Ctx | None = None


def set_ctx(c):
    global CTX
    CTX = c


def ctx() -> Ctx:
    if CTX is None:
        raise HarnessError('no symbolic context active')
    return CTX


# --------------------------------------------------------------------------------------------------
# lifting
# --------------------------------------------------------------------------------------------------
def rv(x):
    """exact rational value of a python number (floats are lifted to the exact binary rational)."""
    if isinstance(x, (bool, np.bool_)):
        return z3.RealVal(int(x))
    if isinstance(x, (int, np.integer)):
        return z3.RealVal(int(x))
    if isinstance(x, fractions.Fraction):
        return z3.RealVal(str(x))
    x = float(x)
    if math.isnan(x) or math.isinf(x):
        raise HarnessError(f'non-finite constant {x} meets a symbolic value')
    return z3.RealVal(str(fractions.Fraction(x)))


def lift(x):
    if isinstance(x, SymReal):
        return x.t
    if isinstance(x, np.ndarray) and x.ndim == 0:
        return lift(x.item())
    if isinstance(x, SymBool):
        return z3.If(x.t, z3.RealVal(1), z3.RealVal(0))
    if isinstance(x, (bool, np.bool_, int, np.integer, float, np.floating, fractions.Fraction)):
        return rv(x)
    return None


def is_sym(x):
    if isinstance(x, np.ndarray) and x.ndim == 0 and x.dtype == object:
        x = x.item()
    return isinstance(x, (SymReal, SymBool))


def has_sym(x):
    if is_sym(x):
        return True
    if isinstance(x, np.ndarray) and x.dtype == object:
        return any(is_sym(e) for e in x.ravel())
    if isinstance(x, (list, tuple)):
        return any(has_sym(e) for e in x)
    return False


# --------------------------------------------------------------------------------------------------
# SymBool
# --------------------------------------------------------------------------------------------------
class SymBool:
    __slots__ = ('t',)

    def __init__(self, t):
        self.t = t

    def __hash__(self):
        return self.t.hash()

    def __bool__(self):
        return ctx().branch(self.t)

    def _lift(self, o):
        if isinstance(o, SymBool):
            return o.t
        if isinstance(o, (bool, np.bool_)):
            return z3.BoolVal(bool(o))
        return None

    def __eq__(self, o):
        l = self._lift(o)
        if l is None:
            return NotImplemented
        return SymBool(self.t == l)

    def __ne__(self, o):
        l = self._lift(o)
        if l is None:
            return NotImplemented
        return SymBool(self.t != l)

    def __and__(self, o):
        l = self._lift(o)
        if l is None:
            return NotImplemented
        return SymBool(z3.And(self.t, l))

    __rand__ = __and__

    def __or__(self, o):
        l = self._lift(o)
        if l is None:
            return NotImplemented
        return SymBool(z3.Or(self.t, l))

    __ror__ = __or__

    def __invert__(self):
        return SymBool(z3.Not(self.t))

    # (hashable: see __hash__ above)

    def __repr__(self):
        return f'SymBool({self.t})'


# --------------------------------------------------------------------------------------------------
# uninterpreted transcendental functions
# --------------------------------------------------------------------------------------------------
_UF = {}
HASH_CONST = False


def uf(name, arity=1):
    key = (name, arity)
    if key not in _UF:
        _UF[key] = z3.Function('uf_' + name, *([R] * (arity + 1)))
    return _UF[key]


UF_CONCRETE = {
    'log': math.log, 'exp': math.exp, 'sqrt': math.sqrt, 'sin': math.sin, 'cos': math.cos, 'erf': math.erf,
    'erfc': math.erfc, 'log10': math.log10, 'pow': math.pow, 'tan': math.tan, 'atan': math.atan,
}


def apply_uf(name, *args):
    """apply a named function: concrete math on numbers, UF application on proxies."""
    if not any(isinstance(a, SymReal) for a in args):
        return UF_CONCRETE[name](*[float(a) for a in args])
    return SymReal(uf(name, len(args))(*[lift(a) for a in args]))


# --------------------------------------------------------------------------------------------------
# SymReal
# --------------------------------------------------------------------------------------------------
MARK_BASE = 0xE000


class SymReal:
    __slots__ = ('t', 'sz')

    def __init__(self, t, sz=1):
        self.t = t
        self.sz = sz

    def __hash__(self):
        # hashable so that memoising code (functools.lru_cache, dict keys) can take proxies: equal terms hash alike, and the equality test
        # that follows a hash match is the symbolic == (a fork decided by the solver).  With HASH_CONST set (history units: "is a value kept
        # from an earlier call reused for this one?") every proxy hashes alike, so that whether two keys are equal is always the solver's
        # decision and never settled by the accident that two variables have different names.
        return 0 if HASH_CONST else self.t.hash()

    # arithmetic --------------------------------------------------------------------------------
    def _bin(self, o, f):
        l = lift(o)
        if l is None:
            return NotImplemented
        sz = self.sz + (o.sz if isinstance(o, SymReal) else 1) + 1
        r = f(self.t, l)
        c = CTX
        if c is not None and c.name_threshold is not None and sz > c.name_threshold:
            return SymReal(c.name_term(r), 1)
        return SymReal(r, sz)

    def __add__(self, o):
        return self._bin(o, lambda a, b: a + b)

    def __radd__(self, o):
        return self._bin(o, lambda a, b: b + a)

    def __sub__(self, o):
        return self._bin(o, lambda a, b: a - b)

    def __rsub__(self, o):
        return self._bin(o, lambda a, b: b - a)

    def __mul__(self, o):
        return self._bin(o, lambda a, b: a * b)

    def __rmul__(self, o):
        return self._bin(o, lambda a, b: b * a)

    def __truediv__(self, o):
        l = lift(o)
        if l is None:
            return NotImplemented
        if _is_const(l):
            if z3.simplify(l == 0).eq(z3.BoolVal(True)):
                raise ZeroDivisionError('symbolic / 0')
            return SymReal(self.t / l)
        ctx().add_defined(l)
        return self._bin(o, lambda a, b: a / b)

    def __rtruediv__(self, o):
        l = lift(o)
        if l is None:
            return NotImplemented
        ctx().add_defined(self.t)
        return SymReal(l / self.t)

    def __neg__(self):
        return SymReal(-self.t)

    def __pos__(self):
        return self

    def __abs__(self):
        return SymReal(z3.If(self.t >= 0, self.t, -self.t))

    def __pow__(self, o):
        if isinstance(o, np.ndarray):
            return NotImplemented
        if isinstance(o, (int, float, np.integer, np.floating)) and float(o) == int(o) and abs(int(o)) <= 64:
            n = int(o)
            if n == 0:
                return 1.0
            r = self.t
            for _ in range(abs(n) - 1):
                r = r * self.t
            if n < 0:
                ctx().add_defined(self.t)
                return SymReal(1 / r, self.sz * abs(n) + 1)
            return SymReal(r, self.sz * abs(n))
        if isinstance(o, (int, float, np.integer, np.floating)) and float(o) == 0.5:
            return apply_uf('sqrt', self)
        l = lift(o)
        if l is None:
            return NotImplemented
        return SymReal(uf('pow', 2)(self.t, l))

    def __rpow__(self, o):
        l = lift(o)
        if l is None:
            return NotImplemented
        return SymReal(uf('pow', 2)(l, self.t))

    def __floordiv__(self, o):
        q = self.__truediv__(o)
        if q is NotImplemented:
            return q
        return q.floor()

    def __mod__(self, o):
        q = self.__floordiv__(o)
        if q is NotImplemented:
            return q
        return self - q * o

    def __and__(self, o):
        if isinstance(o, int) and not isinstance(o, bool) and o >= 0 and (o & (o + 1)) == 0:
            return self % (o + 1)        # mask 2^k - 1 on a non-negative integer: x & mask = x mod 2^k
        return NotImplemented

    __rand__ = __and__

    # rounding ----------------------------------------------------------------------------------
    def floor(self):
        return SymReal(z3.ToReal(z3.ToInt(self.t)))

    def ceil(self):
        return SymReal(-z3.ToReal(z3.ToInt(-self.t)))

    __floor__ = floor
    __ceil__ = ceil

    def __trunc__(self):
        return SymReal(z3.If(self.t >= 0, z3.ToReal(z3.ToInt(self.t)), -z3.ToReal(z3.ToInt(-self.t))))

    def __round__(self, nd=None):
        # round(x, nd): the nearest multiple of 10^-nd (a tie may go either way: real arithmetic, the binary representation of x is not modelled)
        c = ctx()
        k = z3.Int(f'round!{c.fresh_real("r").decl().name()}')
        scale = 10 ** int(nd or 0)
        sc = z3.RealVal(scale) if scale >= 1 else z3.Q(1, 10 ** (-int(nd)))
        c.add_side(self.t * sc - z3.ToReal(k) <= z3.Q(1, 2))
        c.add_side(self.t * sc - z3.ToReal(k) >= -z3.Q(1, 2))
        return SymReal(z3.ToReal(k) / sc)

    def round(self, nd=0):      # numpy object-array hook (np.round / np.around)
        return self.__round__(nd)

    # numpy object-array ufunc hooks ------------------------------------------------------------
    def log(self):
        return apply_uf('log', self)

    def exp(self):
        return apply_uf('exp', self)

    def sqrt(self):
        return apply_uf('sqrt', self)

    def sin(self):
        return apply_uf('sin', self)

    def cos(self):
        return apply_uf('cos', self)

    def log10(self):
        return apply_uf('log10', self)

    def conjugate(self):
        return self

    # comparisons -------------------------------------------------------------------------------
    def _cmp(self, o, f):
        l = lift(o)
        if l is None:
            return NotImplemented
        return SymBool(f(self.t, l))

    def __lt__(self, o):
        return self._cmp(o, lambda a, b: a < b)

    def __le__(self, o):
        return self._cmp(o, lambda a, b: a <= b)

    def __gt__(self, o):
        return self._cmp(o, lambda a, b: a > b)

    def __ge__(self, o):
        return self._cmp(o, lambda a, b: a >= b)

    def __eq__(self, o):
        return self._cmp(o, lambda a, b: a == b)

    def __ne__(self, o):
        return self._cmp(o, lambda a, b: a != b)

    # (hashable: see __hash__ above)

    # conversions -------------------------------------------------------------------------------
    def __float__(self):
        raise Realize(f'float() of symbolic {self.t.sexpr()[:80]}')

    def __int__(self):
        raise Realize(f'int() of symbolic {self.t.sexpr()[:80]}')

    def __index__(self):
        raise Realize(f'index of symbolic {self.t.sexpr()[:80]}')

    def __bool__(self):
        return ctx().branch(self.t != 0)

    # provenance tokens -------------------------------------------------------------------------
    def _token(self, spec):
        c = ctx()
        c.tokens.append((self.t, spec))
        k = len(c.tokens) - 1
        r = getattr(c, 'render', None)
        return chr(MARK_BASE + k) if r is None else r(k, spec)

    def __format__(self, spec):
        return self._token(spec)

    def __str__(self):
        if CTX is None:
            return f'Sym({self.t})'
        return self._token('str')

    def __repr__(self):
        if CTX is None:
            return f'Sym({self.t})'
        return self._token('repr')


def unmark(s):
    """if s is a single provenance marker (optionally surrounded by whitespace) return (term, spec) else None."""
    if not isinstance(s, str):
        return None
    s2 = s.strip()
    if len(s2) == 1 and MARK_BASE <= ord(s2) < MARK_BASE + len(ctx().tokens):
        return ctx().tokens[ord(s2) - MARK_BASE]
    return None


def markers_in(s):
    return [(i, ord(ch) - MARK_BASE) for i, ch in enumerate(s) if MARK_BASE <= ord(ch) < 0xF8FF]


# --------------------------------------------------------------------------------------------------
# constructors
# --------------------------------------------------------------------------------------------------
def sym(name, lo=None, hi=None, lo_strict=False, hi_strict=False):
    v = z3.Real(name)
    c = ctx()
    if lo is not None:
        c.add_assume(v > rv(lo) if lo_strict else v >= rv(lo))
    if hi is not None:
        c.add_assume(v < rv(hi) if hi_strict else v <= rv(hi))
    return SymReal(v)


def symint(name, lo=None, hi=None):
    v = z3.Int(name)
    c = ctx()
    if lo is not None:
        c.add_assume(v >= int(lo))
    if hi is not None:
        c.add_assume(v <= int(hi))
    return SymReal(z3.ToReal(v))


def symbool(name):
    return SymBool(z3.Bool(name))


class SymArray(np.ndarray):
    """object-dtype ndarray whose max/min are encoded exactly (fresh variable, no forks)."""

    def _ext(self, ge):
        els = [lift(x) for x in self.ravel()]
        if not any(isinstance(x, SymReal) for x in self.ravel()):
            vals = [float(x) for x in self.ravel()]
            return max(vals) if ge else min(vals)
        c = ctx()
        m = c.fresh_real('max' if ge else 'min')
        c.add_side(*[(m >= e if ge else m <= e) for e in els])
        c.add_side(z3.Or([m == e for e in els]))
        return SymReal(m)

    def max(self, axis=None, out=None, **k):
        return self._ext(True)

    def min(self, axis=None, out=None, **k):
        return self._ext(False)


def symarr(name, n, lo=None, hi=None, **kw):
    a = np.empty(n, dtype=object)
    for i in range(n):
        a[i] = sym(f'{name}[{i}]', lo, hi, **kw)
    return a.view(SymArray)


def as_symarray(xs):
    a = np.empty(len(xs), dtype=object)
    for i, x in enumerate(xs):
        a[i] = x
    return a.view(SymArray)


def ite(c, a, b):
    """dual-mode if-then-else for oracles."""
    if isinstance(c, SymBool):
        la, lb = lift(a), lift(b)
        return SymReal(z3.If(c.t, la, lb))
    return a if c else b


def near(a, b, tol=1e-9):
    """|a - b| <= tol * (1 + |b|) - for obligations where the code folds float constants that the reference keeps exact
    (paths on which an input equals a default take the concrete double instead of the symbolic value)."""
    if not (is_sym(a) or is_sym(b)):
        return eq(a, b)
    la, lb = lift(a), lift(b)
    bound = rv(tol) * (1 + z3.If(lb >= 0, lb, -lb))
    return SymBool(z3.And(la - lb <= bound, lb - la <= bound))


def smax(*xs):
    if len(xs) == 1:
        xs = list(xs[0])
    r = xs[0]
    for x in xs[1:]:
        r = ite(x > r, x, r)
    return r


def smin(*xs):
    if len(xs) == 1:
        xs = list(xs[0])
    r = xs[0]
    for x in xs[1:]:
        r = ite(x < r, x, r)
    return r


def sand(*cs):
    if any(isinstance(c, SymBool) for c in cs):
        return SymBool(z3.And([c.t if isinstance(c, SymBool) else z3.BoolVal(bool(c)) for c in cs]))
    return all(cs)


def sor(*cs):
    if any(isinstance(c, SymBool) for c in cs):
        return SymBool(z3.Or([c.t if isinstance(c, SymBool) else z3.BoolVal(bool(c)) for c in cs]))
    return any(cs)


def snot(c):
    if isinstance(c, SymBool):
        return SymBool(z3.Not(c.t))
    return not c


def implies(a, b):
    return sor(snot(a), b)


def eq(a, b, rel=1e-7, abs_=1e-9):
    """dual-mode equality returning SymBool / bool (never forks).  On proxies: exact equality of terms (decided by
    the solver); on floats (replay): equality up to rounding (relative tolerance)."""
    if is_sym(a) or is_sym(b):
        return SymBool(lift(a) == lift(b))
    a, b = float(a), float(b)
    if math.isnan(a) or math.isnan(b):
        return math.isnan(a) and math.isnan(b)
    return abs(a - b) <= abs_ + rel * max(abs(a), abs(b))


def sabs(x):
    return abs(x)


# --------------------------------------------------------------------------------------------------
# exploration
# --------------------------------------------------------------------------------------------------
class PathResult:
    __slots__ = ('value', 'ctx', 'error', 'aborted')

    def __init__(self, value, ctx_, error=None, aborted=None):
        self.value, self.ctx, self.error, self.aborted = value, ctx_, error, aborted


def explore(fn, max_paths=20000, deadline=None, catch=(Exception,), **ctxkw):
    """DFS over decision prefixes by re-execution.  `fn()` runs under a fresh Ctx and returns anything.
    Exceptions of the types in `catch` raised by the code under test are reported as PathResult.error (they
    are behaviours of the code, e.g. ValueError on rejected input)."""
    stack = [[]]
    n = 0
    while stack:
        dec = stack.pop()
        c = Ctx(dec, **ctxkw)
        set_ctx(c)
        val = err = ab = None
        try:
            val = fn()
        except PathAbort as e:
            ab = str(e)
        except Realize:
            raise
        except catch as e:  # behaviour of the code under test
            err = e
        n += 1
        for i in range(len(dec), len(c.trace)):
            d, two = c.trace[i]
            if two:
                stack.append([t[0] for t in c.trace[:i]] + [not d])
        yield PathResult(val, c, err, ab)
        if n >= max_paths:
            if stack:
                raise HarnessError(f'path budget {max_paths} exhausted with {len(stack)} prefixes pending')
        if deadline is not None and time.time() > deadline and stack:
            raise HarnessError('exploration deadline reached with prefixes pending')
    set_ctx(None)


# --------------------------------------------------------------------------------------------------
# discharging obligations
# --------------------------------------------------------------------------------------------------
def model_value(m, t):
    v = m.eval(t, model_completion=True)
    if z3.is_rational_value(v):
        return fractions.Fraction(v.numerator_as_long(), v.denominator_as_long())
    if z3.is_int_value(v):
        return fractions.Fraction(v.as_long())
    if z3.is_algebraic_value(v):
        a = v.approx(30)
        return fractions.Fraction(a.numerator_as_long(), a.denominator_as_long())
    if z3.is_true(v):
        return True
    if z3.is_false(v):
        return False
    return None


def _guarded_check(s, timeout_ms):
    """s.check() -> 'sat' | 'unsat' | 'unknown' (z3 exceptions count as unknown).  NOTE: interrupting the context from a watchdog thread
    was tried and corrupts z3's heap when it races with a normal return; queries that z3 cannot abandon (nonlinear arithmetic of
    very high degree) have to be avoided by the harness (lower degree, concrete rates) - the pool's hard kill is the last resort."""
    try:
        return str(s.check())
    except z3.Z3Exception:
        return 'unknown'


def check_sat(constraints, timeout_ms=20000, tactic=None):
    """returns (result_str, model_or_None, seconds)."""
    s = z3.Solver() if tactic is None else z3.Tactic(tactic).solver()
    s.set('timeout', int(timeout_ms))
    s.add(*constraints)
    t0 = time.time()
    r = _guarded_check(s, timeout_ms)
    dt = time.time() - t0
    m = None
    if r == 'sat':
        try:
            m = s.model()
        except z3.Z3Exception:
            r = 'unknown'
    return r, m, dt


def prove(c: Ctx, prop, extra=(), timeout_ms=20000):
    """Is `prop` implied by assumptions+path condition?  returns (verdict, model, seconds);
    verdict: 'unsat' = holds, 'sat' = counterexample model, 'unknown'.
    One solver per path (constraints asserted once), one push/pop per obligation."""
    if isinstance(prop, SymBool):
        prop = prop.t
    if isinstance(prop, (bool, np.bool_)):
        if prop:
            return 'unsat', None, 0.0
        neg = []
    else:
        neg = [z3.Not(prop)]
    s = getattr(c, '_psolver', None)
    ncons = len(c.assume) + len(c.defined) + len(c.side) + len(c.pc) + len(c.defs)
    if s is None or c._pcount != ncons:
        s = z3.Solver()
        s.add(*c.all_constraints())
        c._psolver, c._pcount = s, ncons
    # fast attempt on the shared incremental solver (cheap: constraints asserted once per path) ...
    t0 = time.time()
    r, m = 'unknown', None
    if _INC_FAILS[0] < 3:
        s.set('timeout', int(min(timeout_ms, INCREMENTAL_MS)))
        s.push()
        try:
            s.add(*extra)
            s.add(*neg)
            r = _guarded_check(s, min(timeout_ms, INCREMENTAL_MS))
            m = s.model() if r == 'sat' else None
        except z3.Z3Exception:
            r, m = 'unknown', None
        s.pop()
        if r == 'unknown':
            _INC_FAILS[0] += 1
        elif _INC_FAILS[0] > 0:
            _INC_FAILS[0] -= 1
    if r == 'unknown':
        # ... then a fresh solver: z3's non-incremental mode uses the full nonlinear tactic pipeline (nlsat), which decides
        # polynomial identities the incremental core gives up on
        r, m, _ = check_sat(c.all_constraints() + list(extra) + neg, timeout_ms)
    return r, m, time.time() - t0


INCREMENTAL_MS = 400
_INC_FAILS = [0]   # after repeated failures in this process the incremental attempt is skipped


# --------------------------------------------------------------------------------------------------
# exact IEEE-754 double proxy (only comparisons are needed where IEEE behaviour is the subject: C07, C19)
# --------------------------------------------------------------------------------------------------
FP64 = z3.Float64()


def fpv(x):
    return z3.FPVal(float(x), FP64)


class SymFP:
    __slots__ = ('t',)

    def __init__(self, t):
        self.t = t

    def _l(self, o):
        if isinstance(o, SymFP):
            return o.t
        if isinstance(o, (int, float, np.integer, np.floating)) and not isinstance(o, bool):
            return fpv(o)
        return None

    def _c(self, o, f):
        l = self._l(o)
        return NotImplemented if l is None else SymBool(f(self.t, l))

    def __lt__(self, o):
        return self._c(o, z3.fpLT)

    def __gt__(self, o):
        return self._c(o, z3.fpGT)

    def __le__(self, o):
        return self._c(o, z3.fpLEQ)

    def __ge__(self, o):
        return self._c(o, z3.fpGEQ)

    def __eq__(self, o):
        return self._c(o, z3.fpEQ)

    def __ne__(self, o):
        return self._c(o, lambda a, b: z3.Not(z3.fpEQ(a, b)))

    __hash__ = None

    def __mul__(self, o):
        l = self._l(o)
        return NotImplemented if l is None else SymFP(z3.fpMul(z3.RNE(), self.t, l))

    __rmul__ = __mul__

    def __truediv__(self, o):
        l = self._l(o)
        return NotImplemented if l is None else SymFP(z3.fpDiv(z3.RNE(), self.t, l))

    def __float__(self):
        raise Realize('float() of SymFP')

    def __str__(self):
        return '<symbolic double>'

    __repr__ = __str__

    def __format__(self, spec):
        return '<symbolic double>'


def fp_model_value(m, t):
    """python float for the value of FP term t in model m (exact, via the IEEE bit pattern)."""
    import struct
    v = m.eval(t, model_completion=True)
    bv = z3.simplify(z3.fpToIEEEBV(v))
    if z3.is_bv_value(bv):
        return struct.unpack('>d', bv.as_long().to_bytes(8, 'big'))[0]
    if z3.is_fp_value(v) and v.isNaN():
        return float('nan')
    return None
