"""C03 — capital and O&M totals are the sum of their parts (DESIGN §4 C03)."""
from __future__ import annotations

import itertools

import z3

from .. import core, econ, harness
from ..core import eq, sand, sor, snot, SymReal, SymBool
from . import c04

from geophires_x.OptionList import PlantType

ID = 'C03'
FUNCTIONS = ['geophires_x.Economics:Economics.Calculate', 'geophires_x.Economics:calculate_cost_of_one_vertical_well',
             'geophires_x.Economics:calculate_cost_of_non_vertical_section', 'geophires_x.WellBores:calculate_total_drilling_lengths_m']
UNIT_TIMEOUT = {'quick': 280, 'thorough': 1700}
KINDS_T = {'quick': ['electricity', 'direct-use', 'chiller', 'heat-pump', 'district-heating', 'cogen-topping'],
           'thorough': list(c04.KINDS)}
META = {
    'explanation': 'The real Economics.Calculate runs on a real Model per end-use/plant class with every user-fixable cost, adjustment '
                   'factor, ITC rate, grant, fee, tax relief, redrilling count and well counts symbolic AND the Valid/Provided flags of '
                   'nine override inputs symbolic Booleans (three more enumerated per unit), so "any mix of user-fixed vs correlated '
                   'components" is the explored path tree. Per path z3 proves the roll-up identities over the reported quantities: '
                   'CCap = [total | sum of components] - ITC + fees - incentives - grants; Coam = [total | sum of components] + '
                   'redrilling + annual fees - tax relief; every component equals the user figure when its override is valid; wellfield '
                   'cost = per-well costs x well counts (+ laterals, x1.05 on the correlation route); chiller / heat-pump / boiler cost '
                   'enters the plant cost exactly once (unit sensitivity by term substitution).',
    'bounds': {t: {'kinds': KINDS_T[t], 'L': 1, 'K': 1, 'time steps per year': 2, 'flags': 'thorough: 9 symbolic Booleans x 8 enumerated combinations of the other 3; quick: 5 symbolic x 5 patterns of the other 7', 'well cost correlation': 'default + SIMPLE (thorough: all 17 via the concrete well-cost term)'} for t in KINDS_T},
    'outside': ['numeric content of the plant / well cost correlations (they enter as the concrete or uninterpreted terms the code computes)',
                'AGS economics (its database is not in the repository); the SBT and SUTRA (RTES) economics have their own units', 'lifetimes other than 1 (the roll-up does not depend on L except through redrilling/L, which is symbolic in redrill)', 'IEEE rounding'],
    'assumptions': ['real arithmetic', 'inputs inside declared ranges'],
    'stubs': ['Economics.npf/np/math shims (as C04)'],
}

FLAGS_SYM = ['ccstimfixed.Valid', 'ccexplfixed.Valid', 'ccplantfixed.Valid', 'ccgathfixed.Valid', 'per_injection_well_cost.Provided',
             'oamplantfixed.Valid', 'oamwellfixed.Valid', 'oamwaterfixed.Valid', 'RITC.Provided']
FLAGS_ENUM = ['totalcapcost.Valid', 'oamtotalfixed.Valid', 'per_production_well_cost.Valid']

REALS = [('totalcapcost', 0, 1000), ('oamtotalfixed', 0, 100), ('ccstimfixed', 0, 1000), ('ccexplfixed', 0, 100), ('ccplantfixed', 0, 1000),
         ('ccgathfixed', 0, 100), ('per_production_well_cost', 0, 200), ('per_injection_well_cost', 0, 200),
         ('oamplantfixed', 0, 100), ('oamwellfixed', 0, 100), ('oamwaterfixed', 0, 100),
         ('ccstimadjfactor', 0, 10), ('ccexpladjfactor', 0, 10), ('ccplantadjfactor', 0, 10), ('ccgathadjfactor', 0, 10),
         ('production_well_cost_adjustment_factor', 0, 10), ('injection_well_cost_adjustment_factor', 0, 10),
         ('oamplantadjfactor', 0, 10), ('oamwelladjfactor', 0, 10), ('oamwateradjfactor', 0, 10),
         ('RITC', 0, 1), ('TotalGrant', -1000, 1000), ('OtherIncentives', -1000, 1000), ('FlatLicenseEtc', -1000, 1000),
         ('AnnualLicenseEtc', -1000, 1000), ('TaxRelief', 0, 100)]


ALL_FLAGS = FLAGS_ENUM + FLAGS_SYM
QUICK_SYM = ['ccstimfixed.Valid', 'ccplantfixed.Valid', 'per_injection_well_cost.Provided', 'oamplantfixed.Valid', 'RITC.Provided']


def spec_of(cfg):
    s = [(f'economics.{n}', 'real', lo, hi) for n, lo, hi in REALS]
    s += [(f'economics.{f}', 'bool', None, None) for f in ALL_FLAGS if f not in cfg['flags']]
    s += [('wellbores.redrill', 'real', 0, 50), ('wellbores.nprod', 'real', 1, 200), ('wellbores.ninj', 'real', 0, 200)]
    s += [('surfaceplant.piping_length', 'real', 0, 100)]
    kind = cfg['kind']
    if kind == 'district-heating':
        s += [('economics.dhtotaldistrictnetworkcost', 'real', 0, 1000), ('economics.dhpipinglength', 'real', 0, 10000),
              ('economics.dhtotaldistrictnetworkcost.Provided', 'bool', None, None), ('economics.dhpipinglength.Provided', 'bool', None, None)]
    if kind == 'chiller':
        s += [('economics.chillercapex', 'real', 0, 100), ('economics.chilleropex', 'real', 0, 100)]
    if kind == 'heat-pump':
        s += [('economics.heatpumpcapex', 'real', 0, 100)]
    return s


SBT_EXTRA = {'Reservoir Model': 8, 'Reservoir Depth': '2.4 kilometer', 'Gradient 1': 31.25, 'Reservoir Volume Option': 4, 'Reservoir Volume': 8136407202.64,
             'Reservoir Heat Capacity': 1112, 'Reservoir Density': 2663, 'Reservoir Thermal Conductivity': 2.25,
             'Lateral Endpoint Depth': '2.5 kilometer', 'Lateral Inclination Angle': 89, 'Junction Depth': '2.45 kilometer', 'Vertical Section Length': '2.4 kilometer',
             'Number of Multilateral Sections': 2, 'SBT Accuracy Desired': 1, 'Lateral Spacing': 75, 'Discretization Length': 250,
             'SBT Initial Timestep Count': 5, 'SBT Initial to Final Timestep Transition': 10000, 'SBT Final Timestep Count': 20,
             'Is AGS': True, 'Well Geometry Configuration': 5, 'Number of Production Wells': 1, 'Number of Injection Wells': 1,
             'Production Well Diameter': 8.5, 'Injection Well Diameter': 8.5, 'Nonvertical Wellbore Diameter': 0.216, 'Production Flow Rate per Well': 6,
             'Reservoir Impedance': 1e-4, 'Multilaterals Cased': False, 'Ambient Temperature': 3, 'Surface Temperature': 3, 'Injection Temperature': 24,
             'SBT Generate Wireframe Graphics': False, 'Power Plant Type': 2, 'End-Use Option': 1}


def sbt_cfg(flags, K=1):
    """closed-loop (SBT, EavorLoop geometry with the junction below the vertical section) configuration family: SBTEconomics.Calculate."""
    cfg = c04.cfg_of('electricity', 2, K, False)
    cfg.update({'pt': 2, 'extra': dict(SBT_EXTRA), 'family': 'sbt', 'flags': flags})
    return cfg


def drive(cfg, vals, symbolic):
    base = {k: v for k, v in cfg.items() if k not in ('flags', 'harness')}
    pr = c04.prepared(base)
    m = pr.reset()
    v = dict(vals)
    for f, val in cfg['flags'].items():
        v[f'economics.{f}'] = val
    econ.install(m, v)
    econ.run_econ(m, symbolic=symbolic)
    return m


def _b(x):
    return x


def _choose(flag, a, b):
    """dual-mode: a if flag else b (values)."""
    if isinstance(flag, SymBool):
        return core.ite(flag, a, b)
    return a if flag else b


def obligations(cfg, m, v):
    e = m.economics
    g = lambda k: v['economics.' + k]
    fl = lambda k: cfg['flags'][k] if k in cfg['flags'] else v['economics.' + k]
    v = dict(v)
    for _f, _val in cfg['flags'].items():
        v['economics.' + _f] = _val
    nprod, ninj = v['wellbores.nprod'], v['wellbores.ninj']
    kind = cfg['kind']
    out = []
    # per-well costs and wellfield cost
    if fl('per_production_well_cost.Valid'):
        cp = g('per_production_well_cost')
        ci = _choose(fl('per_injection_well_cost.Provided'), g('per_injection_well_cost'), cp)
        out.append(('user per-well cost is the reported production-well cost', eq(e.cost_one_production_well.value, cp)))
        out.append(('injection-well cost = user figure if supplied else the production-well figure', eq(e.cost_one_injection_well.value, ci)))
        out.append(('wellfield cost = per-well costs x numbers of wells (user-cost route)', eq(e.Cwell.value, cp * nprod + ci * ninj)))
    elif cfg.get('family') == 'sbt':
        out.append(('SBT: wellfield cost = reported per-well costs x numbers of wells + reported lateral and junction sections (correlation route)',
                    eq(e.Cwell.value, e.cost_one_production_well.value * nprod + e.cost_one_injection_well.value * ninj
                       + e.cost_lateral_section.value + e.cost_to_junction_section.value)))
    else:
        ci_rep = e.cost_one_injection_well.value
        out.append(('wellfield cost = 1.05 x (reported per-well costs x numbers of wells + laterals) (correlation route)',
                    eq(e.Cwell.value, 1.05 * (e.cost_one_production_well.value * nprod + ci_rep * ninj + e.cost_lateral_section.value))))
    for flag, fixed, outp, label in (('ccstimfixed.Valid', 'ccstimfixed', 'Cstim', 'stimulation'), ('ccgathfixed.Valid', 'ccgathfixed', 'Cgath', 'field gathering'),
                                     ('ccplantfixed.Valid', 'ccplantfixed', 'Cplant', 'surface plant')):
        if kind.startswith('cogen') and outp == 'Cplant':
            continue
        out.append((f'user-supplied {label} cost is used as given', sor(snot(fl(flag)), eq(getattr(e, outp).value, g(fixed)))))
    tot_valid = fl('totalcapcost.Valid')
    if kind == 'district-heating' and not tot_valid and 'economics.dhtotaldistrictnetworkcost.Provided' in v:
        out.append(('user-supplied total district heating network cost is used as given (it takes precedence over a piping length)',
                    sor(snot(v['economics.dhtotaldistrictnetworkcost.Provided']), eq(e.dhdistrictcost.value, g('dhtotaldistrictnetworkcost')))))
    if not tot_valid:
        out.append(('user-supplied exploration cost is used as given', sor(snot(fl('ccexplfixed.Valid')), eq(e.Cexpl.value, g('ccexplfixed')))))
        base = e.Cexpl.value + e.Cwell.value + e.Cstim.value + e.Cgath.value + e.Cplant.value + e.Cpiping.value + e.dhdistrictcost.value
    else:
        base = g('totalcapcost')
    itc = g('RITC') * base
    adj = g('FlatLicenseEtc') - g('OtherIncentives') - g('TotalGrant')
    prov = fl('RITC.Provided')
    out.append(('total capital cost = [user total | sum of components] - ITC + fees - incentives - grants',
                sor(sand(prov, eq(e.CCap.value, base - itc + adj)), sand(snot(prov), eq(e.CCap.value, base + adj)))))
    # O&M
    oam_valid = fl('oamtotalfixed.Valid')
    if not oam_valid:
        for flag, fixed, outp, label in (('oamplantfixed.Valid', 'oamplantfixed', 'Coamplant', 'plant O&M'), ('oamwellfixed.Valid', 'oamwellfixed', 'Coamwell', 'wellfield O&M'),
                                         ('oamwaterfixed.Valid', 'oamwaterfixed', 'Coamwater', 'water')):
            out.append((f'user-supplied {label} cost is used as given', sor(snot(fl(flag)), eq(getattr(e, outp).value, g(fixed)))))
        obase = e.Coamwell.value + e.Coamplant.value + e.Coamwater.value + e.chilleropex.value + e.dhdistrictoandmcost.value
    else:
        obase = g('oamtotalfixed')
    L = cfg['L']
    rd = v['wellbores.redrill']
    red = (e.Cwell.value + e.Cstim.value) * rd / L
    out.append(('total annual O&M = [user total | sum of components] + amortised redrilling + annual fees - tax relief',
                eq(e.Coam.value, obase + red + g('AnnualLicenseEtc') - g('TaxRelief'))))
    return out


def sensitivity_obligations(cfg, m, v, zv):
    """end-use equipment enters the plant cost exactly once: d Cplant / d equipment cost = 1 (term substitution)."""
    e = m.economics
    out = []
    kind = cfg['kind']
    if cfg['flags'].get('totalcapcost.Valid', True) is not False:
        return out
    pairs = []
    if kind == 'chiller':
        pairs.append(('economics.chillercapex', 'absorption chiller capital cost'))
    if kind == 'heat-pump':
        pairs.append(('economics.heatpumpcapex', 'heat pump capital cost'))
    for name, label in pairs:
        x = zv[name]
        cp = core.lift(e.Cplant.value)
        if cp is None or not isinstance(e.Cplant.value, SymReal):
            continue
        shifted = z3.substitute(cp, (x, x + 1))
        fixed = cfg['flags'].get('ccplantfixed.Valid', v.get('economics.ccplantfixed.Valid'))
        out.append((f'{label} enters the surface plant cost exactly once (unless the plant cost is user-fixed)',
                    SymBool(z3.Or(fixed.t if isinstance(fixed, SymBool) else z3.BoolVal(bool(fixed)), shifted - cp == 1))))
    return out


def concrete(cfg, inputs, only=None):
    spec = spec_of(cfg)
    vals = econ.concrete_vals(spec, inputs)
    try:
        m = drive(cfg, vals, symbolic=False)
        obs = obligations(cfg, m, vals)
    except ZeroDivisionError:
        return False, {'note': 'division by zero'}
    bad = [n for n, ok in obs if not ok and (only is None or n == only)]
    e = m.economics
    d = {k: float(getattr(e, k).value) for k in ('CCap', 'Coam', 'Cwell', 'Cstim', 'Cgath', 'Cplant', 'Cexpl', 'Coamwell', 'Coamplant', 'Coamwater')}
    d['failed'] = bad[:5]
    if only is not None and 'exactly once' in only:
        # sensitivity obligations: replay by finite difference
        key = 'economics.chillercapex' if 'chiller' in only else 'economics.heatpumpcapex'
        v2 = dict(vals)
        v2[key] = vals[key] + 1.0
        m2 = drive(cfg, v2, symbolic=False)
        diff = float(m2.economics.Cplant.value) - d['Cplant']
        d['dCplant'] = diff
        fixed = cfg['flags'].get('ccplantfixed.Valid', vals.get('economics.ccplantfixed.Valid'))
        return (not fixed) and abs(diff - 1.0) > 1e-6, d
    return bool(bad), d



# ---- the two well-cost adjustment factors: the one the user states for injection wells is the one used -----------------------------
def run_factor_sync(unit):
    """real Economics.sync_well_drilling_and_completion_capital_cost_adjustment_factor on symbolic factors, which of the two lines was
    given symbolic: a stated injection-well factor is used as stated (also when it equals the default, 1.0); only an injection factor
    that was NOT stated follows the production-well factor."""
    from . import c04
    cfg = {'harness': 'factor-sync'}
    log = harness.UnitLog(cfg)
    names = ['production well factor', 'injection well factor']
    zv = {n: z3.Real(n) for n in names}
    zv.update({'production factor given': z3.Bool('production factor given'), 'injection factor given': z3.Bool('injection factor given')})

    def run(p, q, gp, gq):
        m = c04.prepared(c04.cfg_of('electricity', 2, 1, False)).reset()
        e = m.economics
        q0 = e.injection_well_cost_adjustment_factor.DefaultValue
        e.production_well_cost_adjustment_factor.value, e.production_well_cost_adjustment_factor.Provided = (p if gp else e.production_well_cost_adjustment_factor.DefaultValue), gp
        e.injection_well_cost_adjustment_factor.value, e.injection_well_cost_adjustment_factor.Provided = (q if gq else q0), gq
        e.sync_well_drilling_and_completion_capital_cost_adjustment_factor(m)
        P_, Q_ = e.production_well_cost_adjustment_factor.value, e.injection_well_cost_adjustment_factor.value
        out = []
        if gq:
            out.append(('a stated injection-well cost adjustment factor is used as stated', core.near(Q_, q, 1e-12)))
        elif gp:
            out.append(('an injection-well factor that was not stated follows the stated production-well factor', core.near(Q_, p, 1e-12)))
        else:
            out.append(('neither stated: the injection-well factor stays at its default', core.near(Q_, q0, 1e-12)))
        if gp:
            out.append(('a stated production-well cost adjustment factor is used as stated', core.near(P_, p, 1e-12)))
        return out

    def concrete(inp, only=None):
        obs = run(float(inp.get(names[0], 1.5)), float(inp.get(names[1], 1.0)), bool(inp.get('production factor given', False)), bool(inp.get('injection factor given', False)))
        bad = [n for n, ok in obs if not ok and (only is None or n == only)]
        return bool(bad), {'failed': bad}

    def fn():
        p, q = core.sym(names[0], 0, 10), core.sym(names[1], 0, 10)
        return run(p, q, bool(core.symbool('production factor given')), bool(core.symbool('injection factor given')))
    for pr in core.explore(fn, max_paths=64):
        log.path(pr)
        if pr.error is not None:
            raise pr.error
        if pr.aborted:
            continue
        harness.reachable(log, pr.ctx, 1000)
        for name, cond in pr.value:
            harness.discharge(log, pr.ctx, name, cond, zv, lambda inp, name=name: concrete(inp, name), timeout_ms=10000, sample=True)
    yield log.result()

def units(tier, seed):
    us = []
    for ki, kind in enumerate(KINDS_T[tier]):
        if tier == 'thorough':
            for combo in itertools.product([False, True], repeat=3):
                cfg = c04.cfg_of(kind, 1, 1, False)
                cfg['flags'] = dict(zip(FLAGS_ENUM, combo))
                us.append(cfg)
        else:
            conc = [f for f in ALL_FLAGS if f not in QUICK_SYM]
            pats = [[False] * len(conc), [True] * len(conc), [(i + ki + seed) % 2 == 0 for i in range(len(conc))],
                    [(i + ki + seed) % 2 == 1 for i in range(len(conc))], [(i // 2 + ki) % 2 == 0 for i in range(len(conc))]]
            for pat in pats:
                cfg = c04.cfg_of(kind, 1, 1, False)
                cfg['flags'] = dict(zip(conc, pat))
                us.append(cfg)
    # the closed-loop family has its own copy of the roll-up (SBTEconomics.Calculate)
    conc = [f for f in ALL_FLAGS if f not in QUICK_SYM]
    for pat in ([[f in ('ccexplfixed.Valid', 'ccgathfixed.Valid', 'oamwellfixed.Valid') for f in conc]] if tier == 'quick' else [[False] * len(conc), [True] * len(conc), [i % 2 == 0 for i in range(len(conc))]]):
        fl = dict(zip(conc, pat))
        if tier == 'quick':
            fl.update({'ccstimfixed.Valid': False, 'oamplantfixed.Valid': False})
        us.append(sbt_cfg(fl))
    us.append({'harness': 'sutra'})      # reservoir thermal energy storage family: SUTRAEconomics.Calculate
    us.append({'harness': 'factor-sync'})
    return us


def run_unit(unit):
    if unit.get('harness') == 'sutra':
        from . import c03sutra
        yield from c03sutra.run_unit(unit)
        return
    if unit.get('harness') == 'factor-sync':
        yield from run_factor_sync(unit)
        return
    cfg = {k: v for k, v in unit.items() if k != 'tier'}
    spec = spec_of(cfg)
    log = harness.UnitLog({k: v for k, v in cfg.items() if k != 'extra'})
    c04.prepared({k: v for k, v in cfg.items() if k not in ('flags', 'harness')})

    def fn():
        vals, zv = econ.make_symbolic(spec)
        m = drive(cfg, vals, symbolic=True)
        return zv, obligations(cfg, m, vals) + sensitivity_obligations(cfg, m, vals, zv)
    n = 0
    for pr in core.explore(fn, max_paths=40000):
        log.path(pr)
        n += 1
        if pr.error is not None:
            raise pr.error
        if pr.aborted:
            continue
        zv, obs = pr.value
        if n <= 6 or n % 100 == 0:
            harness.reachable(log, pr.ctx, 1500)
        for name, cond in obs:
            if isinstance(cond, bool) and cond:
                log['obligations'] += 1
                log['discharged'] += 1
                log['trivial'] += 1
                continue
            harness.discharge(log, pr.ctx, name, cond, zv, lambda inp, name=name: concrete(cfg, inp, only=name), timeout_ms=20000,
                              sample=(n == 1), desc=f'{name} [{cfg["kind"]}]')
        if n % 300 == 0:
            yield log.result()
            log = harness.UnitLog(cfg)
    yield log.result()


def replay(cex):
    if cex['config'].get('family') == 'sutra':
        from . import c03sutra
        return c03sutra.concrete(cex['inputs'], only=cex.get('obligation'))
    return concrete(cex['config'], cex['inputs'], only=cex.get('obligation'))
