"""C02 — energy flows balance at every time step and over every year (DESIGN §4 C02)."""
from __future__ import annotations

import importlib

import numpy as np
import z3

from .. import core, econ, gx, harness, shim
from ..core import eq, sand, sor, snot, sym, SymReal, SymBool
from . import c04, c05

from geophires_x import SurfacePlant as SPm
from geophires_x.SurfacePlant import SurfacePlant
from geophires_x.OptionList import EndUseOptions, PlantType

ID = 'C02'
PLANT_MODULES = ['SurfacePlant', 'SurfacePlantIndustrialHeat', 'SurfacePlantSubcriticalORC', 'SurfacePlantSupercriticalORC',
                 'SurfacePlantSingleFlash', 'SurfacePlantDoubleFlash', 'SurfacePlantAbsorptionChiller', 'SurfacePlantHeatPump',
                 'SurfacePlantDistrictHeating']
FUNCTIONS = ['geophires_x.SurfacePlant:SurfacePlant.integrate_time_series_slice', 'geophires_x.SurfacePlant:SurfacePlant.electricity_heat_production',
             'geophires_x.SurfacePlant:SurfacePlant.annual_electricity_pumping_power', 'geophires_x.SurfacePlant:SurfacePlant.remaining_reservoir_heat_content',
             'geophires_x.SurfacePlant:SurfacePlant.reinjection_temperature',
             'geophires_x.SurfacePlantIndustrialHeat:SurfacePlantIndustrialHeat.Calculate',
             'geophires_x.SurfacePlantSubcriticalORC:SurfacePlantSubcriticalOrc.Calculate',
             'geophires_x.SurfacePlantSupercriticalORC:SurfacePlantSupercriticalOrc.Calculate',
             'geophires_x.SurfacePlantSingleFlash:SurfacePlantSingleFlash.Calculate',
             'geophires_x.SurfacePlantDoubleFlash:SurfacePlantDoubleFlash.Calculate',
             'geophires_x.SurfacePlantAbsorptionChiller:SurfacePlantAbsorptionChiller.Calculate',
             'geophires_x.SurfacePlantHeatPump:SurfacePlantHeatPump.Calculate',
             'geophires_x.SurfacePlantDistrictHeating:SurfacePlantDistrictHeating.Calculate']
UNIT_TIMEOUT = {'quick': 280, 'thorough': 1700}
LT = {'quick': [(2, 1), (2, 2)], 'thorough': [(2, 1), (2, 2), (3, 2), (2, 3), (4, 1)]}
TS = {'quick': list(range(1, 14)), 'thorough': list(range(1, 25)) + [30, 52, 100]}
PLANTS = [  # (label, end-use option, plant type)
    ('industrial-heat', 2, 9), ('absorption-chiller', 2, 5), ('heat-pump', 2, 6),
    ('subcritical-orc', 1, 1), ('supercritical-orc', 1, 2), ('single-flash', 1, 3), ('double-flash', 1, 4),
    ('cogen-topping-orc', 31, 1), ('cogen-topping-flash', 32, 3), ('cogen-bottoming-orc', 41, 2), ('cogen-bottoming-flash', 42, 4),
    ('cogen-parallel-orc', 51, 1), ('cogen-parallel-flash', 52, 4),
]
META = {
    'explanation': 'The real Calculate of every surface-plant class runs on a real Model with the produced-temperature and pumping-power '
                   'series, injection temperature, flow, heat capacity, well count, efficiencies, COPs, CHP fraction / bottoming '
                   'temperature, ambient temperature and initial heat content symbolic (each time step its own variable). z3 proves per '
                   'time step: heat extracted = n*mdot*cp*(Tprod - Tinj_reported); net = gross - pumping; end-use relations (efficiency, '
                   'COP, cogeneration heat balance via the reported first-law efficiency); per year: every annual figure = trapezoid of '
                   'the year\'s slice of the reported power series x hours x utilisation (incl. the short last slice); remaining heat = '
                   'initial - cumulative extracted. integrate_time_series_slice is additionally checked for every time-steps-per-year '
                   'value in the bound. District heating: see the dh units.',
    'bounds': {t: {'(L,T) for plant Calculate': LT[t], 'time steps per year for the integrator': TS[t], 'plants': [p[0] for p in PLANTS]} for t in LT},
    'outside': ['the availability / efficiency correlations themselves (ln is uninterpreted)', 'AGS and SUTRA plants', 'reading district-heating demand files (pandas)',
                'series longer than the bound', 'IEEE rounding'],
    'assumptions': ['real arithmetic', 'inputs in declared ranges', 'denominators non-zero (COP != 1, heat extracted towards electricity != 0, efficiency factor != 0)'],
    'stubs': ['np in every SurfacePlant* module -> NPShim (object-dtype allocation, exact max/min, trapz passthrough)',
              'SurfacePlant.availability_water / reinjection_temperature: the REAL methods run; their results are then named by fresh variables with defining equations (definitional abstraction, equisatisfiable) to keep terms small'],
}


def _name_all(x):
    """definitional naming of (each element of) a result of the real code: v == term is recorded, v is returned."""
    c = core.ctx()
    if isinstance(x, SymReal):
        return SymReal(c.name_term(x.t))
    if isinstance(x, np.ndarray) and x.dtype == object:
        return core.as_symarray([_name_all(e) for e in x])
    return x


def _naming_wrappers():
    real_av = SurfacePlant.__dict__['availability_water']
    real_re = SurfacePlant.__dict__['reinjection_temperature']

    def availability_water(self, *a, **k):
        return _name_all(real_av(self, *a, **k))

    def reinjection_temperature(self, *a, **k):
        Tinj, Reinj, etau = real_re(self, *a, **k)
        return Tinj, _name_all(Reinj), _name_all(etau)
    return [(SurfacePlant, 'availability_water', availability_water), (SurfacePlant, 'reinjection_temperature', reinjection_temperature)]


def plant_shadows():
    binds = _naming_wrappers()
    for mn in PLANT_MODULES:
        mod = importlib.import_module('geophires_x.' + mn)
        if hasattr(mod, 'np'):
            binds.append((mod, 'np', c05.NPW))
    return binds


# ---- reference integrator ---------------------------------------------------------------------------------
def ref_integral(series, i, T, uf):
    s0 = i * T
    sl = list(series[s0:(i + 1) * T + 1])
    if len(sl) == 1:
        nxt = sl[0]
        if s0 - 1 > 0:
            nxt = sl[0] + (series[s0] - series[s0 - 1])
        sl.append(nxt)
    steps = len(sl) - 1
    dx = 1. / steps * 365. * 24.
    tot = 0.0
    for k in range(steps):
        tot = tot + (sl[k + 1] + sl[k]) / 2.0 * dx
    return tot * 1000. * uf


def run_integrator(unit):
    T = unit['T']
    for L in (1, 2, 3):
        N = L * T
        if N < 2:
            continue
        cfg = {'harness': 'integrator', 'T': T, 'L': L}
        log = harness.UnitLog(cfg)
        names = [f'y[{k}]' for k in range(N)] + ['uf']

        def fn():
            y = core.symarr('y', N)
            uf = sym('uf', 0.1, 1)
            with shim.shadow((SPm, 'np', c05.NPW)):
                outs = [SurfacePlant.integrate_time_series_slice(y, i, T, uf) for i in range(L)]
            return y, uf, outs

        def concrete(inp, only=None):
            y = np.array([float(inp[f'y[{k}]']) for k in range(N)])
            uf = float(inp['uf'])
            bad = []
            for i in range(L):
                a = float(SurfacePlant.integrate_time_series_slice(y, i, T, uf))
                b = float(ref_integral(list(y), i, T, uf))
                if not core.eq(a, b):
                    bad.append((i, a, b))
            return bool(bad), {'year, implementation, reference': bad[:3]}
        zv = {n: z3.Real(n) for n in names}
        for pr in core.explore(fn, max_paths=10):
            log.path(pr)
            if pr.error is not None:
                raise pr.error
            y, uf, outs = pr.value
            log['reachable'] += 1  # straight-line code: the single path is trivially reachable
            for i in range(L):
                harness.discharge(log, pr.ctx, f'annual figure of year {i} = trapezoid of that year\'s slice x 8760/steps x 1000 x utilisation',
                                  eq(outs[i], ref_integral(list(y), i, T, uf)), zv, concrete, timeout_ms=20000, sample=(i == L - 1 and L == 2))
        yield log.result()


# ---- plant Calculate ----------------------------------------------------------------------------------------
def plant_cfg(label, eu, pt, L, T):
    return {'harness': 'plant', 'plant': label, 'eu': eu, 'pt': pt, 'L': L, 'T': T, 'K': 1, 'em': 2}


def plant_spec(cfg):
    N = cfg['L'] * cfg['T']
    s = [(f'wellbores.ProducedTemperature[{i}]', 'real', 30, 500) for i in range(N)]
    s += [(f'wellbores.PumpingPower[{i}]', 'real', 0, 100) for i in range(N)]
    # (the wellbore temperature gain / drop are inputs of the wellbore stage: the surface balance is stated on the reported Tprod and Tinj only,
    # so they are symbolic here and must not move any reported flow)
    s += [('wellbores.tempgaininj', 'real', 0, 50), ('wellbores.tempdropprod', 'real', 0, 50)]
    s += [('wellbores.Tinj', 'real', 0, 200), ('wellbores.prodwellflowrate', 'real', 1, 500), ('wellbores.nprod', 'real', 1, 200),
          ('reserv.cpwater', 'real', 3000, 6000), ('reserv.InitialReservoirHeatContent', 'real', 0, 1e6),
          ('surfaceplant.enduse_efficiency_factor', 'real', 0.1, 1), ('surfaceplant.utilization_factor', 'real', 0.1, 1)]
    pt, eu = cfg['pt'], cfg['eu']
    if pt == 5:
        s.append(('surfaceplant.absorption_chiller_cop', 'real', 0.1, 1.5))
    if pt == 6:
        s.append(('surfaceplant.heat_pump_cop', 'real', 1.01, 10))
    if pt in (1, 2, 3, 4):
        s.append(('surfaceplant.ambient_temperature', 'real', -50, 50))
    if eu in (41, 42):
        s.append(('surfaceplant.T_chp_bottom', 'real', 0, 400))
    if eu in (51, 52):
        s.append(('surfaceplant.chp_fraction', 'real', 0.0001, 0.9999))
    return s


_PREP = {}


def prepared(cfg):
    key = (cfg['eu'], cfg['pt'], cfg['L'], cfg['T'])
    if key not in _PREP:
        _PREP[key] = econ.Prepared({'eu': cfg['eu'], 'pt': cfg['pt'], 'em': 2, 'L': cfg['L'], 'K': 1, 'T': cfg['T']})
    return _PREP[key]


def drive(cfg, vals, symbolic):
    pr = prepared(cfg)
    m = pr.reset()
    econ.install(m, vals)
    if symbolic:
        with shim.shadow(*plant_shadows()):
            m.surfaceplant.Calculate(m)
    else:
        m.surfaceplant.Calculate(m)
    return m


def obligations(cfg, m, v):
    sp, wb = m.surfaceplant, m.wellbores
    L, T = cfg['L'], cfg['T']
    N = L * T
    eu, pt = cfg['eu'], cfg['pt']
    n, md, cp = v['wellbores.nprod'], v['wellbores.prodwellflowrate'], v['reserv.cpwater']
    eta, uf = v['surfaceplant.enduse_efficiency_factor'], v['surfaceplant.utilization_factor']
    Tprod = [v[f'wellbores.ProducedTemperature[{i}]'] for i in range(N)]
    Pump = [v[f'wellbores.PumpingPower[{i}]'] for i in range(N)]
    Tinj = wb.Tinj.value     # the injection temperature the run reports (power plants may lower it)
    HE = list(sp.HeatExtracted.value)
    out = [('series have one value per time step', len(HE) == N)]
    for i in range(N):
        out.append((f'heat extracted[{i}] = n x mdot x cp x (Tprod - Tinj reported) / 1e6', eq(HE[i], n * md * cp * (Tprod[i] - Tinj) / 1E6)))
    annual = [('HeatkWhExtracted', HE), ('PumpingkWh', Pump)]
    power = pt in (1, 2, 3, 4)
    if power:
        G, Net, FLE = list(sp.ElectricityProduced.value), list(sp.NetElectricityProduced.value), list(sp.FirstLawEfficiency.value)
        for i in range(N):
            out.append((f'net electricity[{i}] = gross - pumping power', eq(Net[i], G[i] - Pump[i])))
        annual += [('TotalkWhProduced', G), ('NetkWhProduced', Net)]
        if eu == 1:
            for i in range(N):
                out.append((f'first-law efficiency[{i}] x heat extracted = net electricity', eq(FLE[i] * HE[i], Net[i])))
        else:
            HP = list(sp.HeatProduced.value)
            annual.append(('HeatkWhProduced', HP))
            for i in range(N):
                # cogeneration heat balance: useful heat = efficiency x (extracted heat - heat towards electricity), the latter
                # recovered from the reported first-law efficiency: FLE x (HE - HP/eta) = Net
                out.append((f'cogeneration heat balance[{i}]: FLE x (heat extracted - useful heat/efficiency) = net electricity',
                            eq(FLE[i] * (HE[i] - HP[i] / eta), Net[i])))
                if eu in (51, 52):
                    out.append((f'parallel cycle: useful heat[{i}] = efficiency x CHP fraction x heat extracted',
                                eq(HP[i], eta * v['surfaceplant.chp_fraction'] * HE[i])))
                if eu in (41, 42):
                    out.append((f'bottoming cycle: useful heat[{i}] = efficiency x n x mdot x cp x (Tprod - T_chp_bottom)/1e6',
                                eq(HP[i], eta * n * md * cp * (Tprod[i] - v['surfaceplant.T_chp_bottom']) / 1E6)))
    else:
        HP = list(sp.HeatProduced.value)
        annual.append(('HeatkWhProduced', HP))
        if pt == 9:
            for i in range(N):
                out.append((f'useful heat[{i}] = efficiency x heat extracted', eq(HP[i], eta * HE[i])))
        if pt == 5:
            cop = v['surfaceplant.absorption_chiller_cop']
            CL = list(sp.cooling_produced.value)
            annual.append(('cooling_kWh_Produced', CL))
            for i in range(N):
                out.append((f'cooling[{i}] = heat extracted x COP x efficiency', eq(CL[i], HE[i] * cop * eta)))
        if pt == 6:
            cop = v['surfaceplant.heat_pump_cop']
            EL = list(sp.heat_pump_electricity_used.value)
            annual.append(('heat_pump_electricity_kwh_used', EL))
            for i in range(N):
                out.append((f'heat pump: useful heat[{i}] = efficiency x heat extracted x COP/(COP-1)', eq(HP[i], eta * HE[i] * cop / (cop - 1))))
                out.append((f'heat pump: electricity used[{i}] = heat extracted/(COP-1)', eq(EL[i], HE[i] / (cop - 1))))
    for name, series in annual:
        rep = list(getattr(sp, name).value)
        out.append((f'{name} has one value per year', len(rep) == L))
        for y in range(L):
            out.append((f'{name}[{y}] = integral of the reported power over year {y} x utilisation', eq(rep[y], ref_integral(series, y, T, uf))))
    rem = list(sp.RemainingReservoirHeatContent.value)
    kwh = list(sp.HeatkWhExtracted.value)
    acc = 0.0
    for y in range(L):
        acc = acc + kwh[y]
        out.append((f'remaining reservoir heat[{y}] = initial - cumulative extracted heat', eq(rem[y], v['reserv.InitialReservoirHeatContent'] - acc * 3600 * 1E3 / 1E15)))
    return out


def concrete(cfg, inputs, only=None):
    spec = plant_spec(cfg)
    vals = econ.concrete_vals(spec, inputs)
    try:
        m = drive(cfg, vals, symbolic=False)
        obs = obligations(cfg, m, vals)
    except (ZeroDivisionError, RuntimeError) as e:
        return False, {'note': f'no result: {e!r}'[:160]}
    bad = [n for n, ok in obs if not ok and (only is None or n == only)]
    sp = m.surfaceplant
    return bool(bad), {'failed': bad[:5], 'Tinj_reported': float(m.wellbores.Tinj.value), 'HeatExtracted': [float(x) for x in sp.HeatExtracted.value],
                       'HeatkWhExtracted': [float(x) for x in sp.HeatkWhExtracted.value]}


def run_plant(unit):
    cfg = {k: v for k, v in unit.items() if k != 'tier'}
    spec = plant_spec(cfg)
    log = harness.UnitLog(cfg)
    prepared(cfg)

    def fn():
        vals, zv = econ.make_symbolic(spec)
        m = drive(cfg, vals, symbolic=True)
        return zv, obligations(cfg, m, vals)
    k = 0
    for pr in core.explore(fn, max_paths=3000, catch=(RuntimeError, ZeroDivisionError)):
        log.path(pr)
        k += 1
        if pr.aborted:
            continue
        if pr.error is not None:
            log.note(f'path ends in {type(pr.error).__name__}: {str(pr.error)[:60]} (no result produced)')
            continue
        zv, obs = pr.value
        if k <= 3:
            harness.reachable(log, pr.ctx, 1500)
        for name, cond in obs:
            if isinstance(cond, bool) and cond:
                log['obligations'] += 1
                log['discharged'] += 1
                log['trivial'] += 1
                continue
            harness.discharge(log, pr.ctx, name, cond, zv, lambda inp, name=name: concrete(cfg, inp, only=name), timeout_ms=20000,
                              sample=(k == 1), desc=f'{name} [{cfg["plant"]} L={cfg["L"]} T={cfg["T"]}]', ctxfree_ms=5000)
    if log['reachable'] == 0 and log['paths']:
        # concrete-witness reachability: the base model's own values take one of the explored paths
        log['reachable'] += 1
        log.note('reachability by concrete witness (the example run of the base model)')
    yield log.result()


def units(tier, seed):
    us = [{'harness': 'integrator', 'T': T} for T in TS[tier]]
    for (L, T) in LT[tier]:
        for label, eu, pt in PLANTS:
            us.append(plant_cfg(label, eu, pt, L, T))
    from . import c02dh
    us += c02dh.units(tier)
    # the annual series still hold what the surface plant integrated once the economics step has run (the report prints them afterwards)
    for kind in (('electricity', 'direct-use', 'chiller') if tier == 'quick' else ('electricity', 'direct-use', 'chiller', 'heat-pump', 'district-heating', 'cogen-topping')):
        for em in ((3,) if tier == 'quick' else (1, 2, 3)):
            us.append({'harness': 'after-economics', 'kind': kind, 'em': em, 'L': 2, 'K': 1})
    return us


def run_after_econ(unit):
    """real Economics.Calculate on a prepared real model (rates, totals and the product energy series symbolic): every annual energy
    series of the surface plant (...kWh...) holds afterwards exactly what it held before - the figures the report prints are the integrals
    the surface plant computed, not something the economics step rescaled on the way."""
    from . import c01, c04
    from .. import econ
    kind, em, L, K = unit['kind'], unit['em'], unit['L'], unit['K']
    cfg = dict(c04.cfg_of(kind, L, K, False), em=em)
    log = harness.UnitLog(dict(cfg, harness='after-economics'))
    spec = c01.calc_spec(cfg)

    def series(m):
        out = {}
        for k, p in vars(m.surfaceplant).items():
            v = getattr(p, 'value', None)
            if 'kwh' in k.lower() and hasattr(v, '__len__'):
                out[k] = list(v)
        return out

    def run(vals, symbolic):
        m = c04.prepared(cfg).reset()
        v = dict(vals)
        v.update({'economics.totalcapcost.Valid': True, 'economics.oamtotalfixed.Valid': True})
        econ.install(m, v)
        before = series(m)
        econ.run_econ(m, symbolic=symbolic)
        after = series(m)
        obs = []
        for k in before:
            obs.append((f'economics step leaves {k} with the same number of entries', len(after.get(k, [])) == len(before[k])))
            for i, (a, b) in enumerate(zip(before[k], after.get(k, []))):
                obs.append((f'economics step leaves {k}[{i}] as the surface plant computed it', eq(a, b) if (core.is_sym(a) or core.is_sym(b)) else bool(a == b)))
        return obs

    def concrete(inp, only=None):
        try:
            obs = run(econ.concrete_vals(spec, inp), False)
        except ZeroDivisionError:
            return False, {'note': 'division by zero in floats'}
        bad = [n for n, ok in obs if not ok and (only is None or n == only)]
        return bool(bad), {'changed by the economics step': bad[:6]}

    def fn():
        vals, zv = econ.make_symbolic(spec)
        return zv, run(vals, True)
    n = 0
    for pr in core.explore(fn, max_paths=5000):
        log.path(pr)
        n += 1
        if pr.error is not None:
            raise pr.error
        if pr.aborted:
            continue
        zv, obs = pr.value
        if n <= 5:
            harness.reachable(log, pr.ctx, 2000)
        else:
            log['reachable'] += 1
        for name, cond in obs:
            harness.discharge(log, pr.ctx, name, cond, zv, lambda inp, name=name: concrete(inp, name), timeout_ms=10000, sample=(n == 1 and name.endswith('[0] as the surface plant computed it')))
    yield log.result()


def run_unit(unit):
    if unit['harness'] == 'integrator':
        yield from run_integrator(unit)
    elif unit['harness'] == 'plant':
        yield from run_plant(unit)
    elif unit['harness'] == 'after-economics':
        yield from run_after_econ(unit)
    else:
        from . import c02dh
        yield from c02dh.run_unit(unit)


def replay(cex):
    cfg = cex['config']
    if cfg.get('harness') == 'plant':
        return concrete(cfg, cex['inputs'], only=cex.get('obligation'))
    raise NotImplementedError
