"""C06 — results do not depend on the units in which inputs are written (DESIGN §4 C06)."""
from __future__ import annotations

import contextlib
import io

import numpy as np
import z3

from .. import core, gx, harness, shim
from ..core import SymReal, sym, sand
from . import c07

P = gx.P
from geophires_x import Units as U  # noqa: E402

ID = 'C06'
FUNCTIONS = ['geophires_x.Parameter:ReadParameter', 'geophires_x.Parameter:ConvertUnits', 'geophires_x.Parameter:LookupUnits',
             'geophires_x.Parameter:ConvertUnitsBack', 'geophires_x.Parameter:ConvertOutputUnits', 'geophires_x.Outputs:Outputs._convert_units']
UNIT_TIMEOUT = {'quick': 280, 'thorough': 1500}
META = {
    'explanation': 'For every float parameter of every class that owns a ParameterDict and every spelling of its unit enum (the program\'s '
                   'own catalogue) the real ReadParameter / ConvertUnits / LookupUnits run through the real pint registry with the value '
                   'a solver variable (proxy as pint magnitude). z3 proves: (i) the stored value equals the harness-side pint conversion '
                   'of "v u" to the preferred unit (so the computation sees the same physical quantity as for the default unit); (ii) the '
                   'stored (value, CurrentUnits) pair denotes the physical quantity the user supplied - this is what the report echo '
                   '(ConvertUnitsBack) relies on; (iii) after the real ConvertUnitsBack the echoed (value, unit) again denotes v u; (iv) '
                   'the output-units directive (real ConvertOutputUnits) multiplies the stored value by exactly the conversion factor and '
                   'sets the label to the requested unit.',
    'bounds': {t: {'parameters': 'every float parameter of 32 classes + HIP-RA-X', 'units': 'every member of the parameter\'s unit enum' if t == 'thorough' else 'up to 4 members of the unit enum per parameter',
                   'outputs': 'every OutputParameter x every member of its unit enum (thorough) / 3 (quick)'} for t in ('quick', 'thorough')},
    'outside': ['currency conversions that need exchange rates (EUR, MXN: forex API disabled in the code); the USD/KUSD/MUSD/cents family is inside', 'the numeric content of pint\'s unit definitions (trusted base: the harness-side conversion uses the same registry)',
                'IEEE rounding (pint factors are doubles; equality is decided up to 1e-9 relative)', 'magnitude heuristics in Reservoir/WellBores (depth x1000, gradient > 1, diameter > 2) - decided in C05/C12 configurations only'],
    'assumptions': ['pint converts correctly between the units it parses'],
    'stubs': ['Parameter.float/int -> proxy-aware (as C07); Parameter.print -> no-op'],
}

_ureg = U.get_unit_registry()
TOL = 1e-9


def approx(a, b):
    """|a-b| <= TOL*(|b|+1) as a z3 formula over reals."""
    d = a - b
    m = z3.If(b >= 0, b, -b) + 1
    return z3.And(d <= core.rv(TOL) * m, -d <= core.rv(TOL) * m)


def pint_convert(v, u_from, u_to):
    """harness-side conversion through the same registry (trusted base); works on proxies and floats."""
    return _ureg.Quantity(v, u_from).to(U.convertible_unit(u_to)).magnitude


def enum_members(prm):
    e = type(prm.PreferredUnits)
    if not hasattr(e, '__members__'):
        return []
    return [m for m in e]


CURRENCY_TYPES = None


def _convertible(u, prm):
    try:
        pint_convert(1.0, u, (prm.CurrentUnits if hasattr(prm.CurrentUnits, 'value') else prm.PreferredUnits).value)
        return True
    except Exception:
        return False


def is_currency(prm):
    return prm.UnitType in [U.Units.CURRENCY, U.Units.CURRENCYFREQUENCY, U.Units.COSTPERMASS, U.Units.ENERGYCOST]


# (unit type, spelling) pairs of the program's own catalogue that the reader cannot use on the pinned tree (recorded finding)
KNOWN_UNUSABLE = {
    ('AreaUnit', 'cm**2'), ('AreaUnit', 'ft**2'), ('AreaUnit', 'in**2'), ('AreaUnit', 'km**2'), ('AreaUnit', 'm**2'), ('AreaUnit', 'mi**2'),
    ('CO2ProductionUnit', 'k/kWh'), ('CO2ProductionUnit', 'lbs/kWh'), ('CO2ProductionUnit', 't/MWh'),
    ('DensityUnit', 'gr/cm**3'), ('DensityUnit', 'kg/km**3'), ('DensityUnit', 'kg/m**3'), ('DensityUnit', 'lbs/ft**3'), ('DensityUnit', 'lbs/mi**3'),
    ('DensityUnit', 'oz/in**3'), ('DrawdownUnit', 'kg/s/m**2'), ('EnergyPerCO2Unit', 'kW/t'), ('EnergyPerCO2Unit', 'kWh/t'),
    ('HeatCapacityUnit', 'J/kg/K'), ('HeatCapacityUnit', 'kJ/kgC'), ('HeatCapacityUnit', 'kJ/km**3C'), ('PercentUnit', '%'),
    ('TemperatureGradientUnit', 'degC/m'), ('TemperatureGradientUnit', 'degF/mi'),
    ('VolumeUnit', 'cm**3'), ('VolumeUnit', 'ft**3'), ('VolumeUnit', 'in**3'), ('VolumeUnit', 'km**3'), ('VolumeUnit', 'mi**3'),
    # 'cents' is sent to the (disabled) exchange-rate branch although it is USD/100
    ('EnergyCostUnit', 'cents/kW'), ('EnergyCostUnit', 'cents/kWh'), ('CostPerMassUnit', 'cents/lb'), ('CostPerMassUnit', 'cents/mt'),
}
# currency units whose "/..." part differs from the parameter's: the reader strips the suffix and converts nothing (its own comment says so)
KNOWN_SUFFIX_IGNORED = {
    ('EnergyCostUnit', 'USD/kWh'), ('EnergyCostUnit', 'USD/MWh'), ('EnergyCostUnit', 'USD/MMBTU'),
    ('CostPerMassUnit', 'USD/lb'), ('CostPerMassUnit', 'USD/mt'), ('CostPerMassUnit', 'USD/tonne'),
}
# parameters whose CurrentUnits stay at the user's unit although the value was converted (temperature spellings: recorded finding)
KNOWN_STALE_CURRENT_UNITS = {
    ('AngleUnit', 'radians'), ('TemperatureUnit', 'degF'), ('TemperatureUnit', 'degK'),
    ('CurrencyUnit', 'USD'), ('CurrencyUnit', 'KUSD'), ('CurrencyFrequencyUnit', 'USD/yr'), ('CurrencyFrequencyUnit', 'KUSD/yr'),
    ('TimeUnit', 'day'), ('TimeUnit', 'hr'), ('TimeUnit', 'min'), ('TimeUnit', 'msec'), ('TimeUnit', 'sec'), ('TimeUnit', 'week'), ('TimeUnit', 'yr'),
}


def run_inputs(unit):
    modn, clsn = unit['module'], unit['cls']
    tier = unit['tier']
    obj0, model0, mod = c07._make(modn, clsn)
    maxu = 4 if tier == 'quick' else 100
    for pname, p0 in list(obj0.ParameterDict.items()):
        if not isinstance(p0, P.floatParameter):
            continue
        members = [m for m in enum_members(p0) if m != p0.PreferredUnits and m != p0.CurrentUnits and str(m.value).strip()]   # (an empty spelling cannot be written in a file)
        if is_currency(p0):
            # other currencies need exchange rates (the forex call is disabled in the code): only the spellings the registry can convert
            # without a rate (USD / KUSD / MUSD / cents and their per-year, per-energy, per-mass forms) are in the property's scope
            members = [m for m in members if _convertible(m.value, p0)]
        if not members:
            continue
        lo, hi = float(p0.Min), float(p0.Max)
        pref = p0.CurrentUnits if hasattr(p0.CurrentUnits, 'value') else p0.PreferredUnits   # the unit the code works in (normally = PreferredUnits)
        for um in members[:maxu]:
            u = um.value
            cfg = {'harness': 'input-units', 'class': clsn, 'param': pname, 'unit': u, 'unit_type': type(pref).__name__}
            log = harness.UnitLog(cfg)
            # is the spelling usable at all (harness-side pint)?
            try:
                pint_convert(1.0, u, pref.value)
                harness_ok = True
            except Exception as e:
                harness_ok = False
                herr = type(e).__name__
            zv = {'v': z3.Real('v')}
            name = p0.Name.strip()

            def concrete(inp, u=u, pname=pname, clause=None):
                return concrete_input(modn, clsn, pname, u, float(inp.get('v', 1.0)), clause)

            def cc(clause, concrete=concrete):
                return lambda inp: concrete(inp, clause=clause)

            def fn(u=u, pname=pname):
                obj, model, _ = c07._make(modn, clsn)
                prm = obj.ParameterDict[pname]
                v = sym('v')
                exc = None
                try:
                    with shim.shadow(*c07.param_shadows()), contextlib.redirect_stdout(io.StringIO()):
                        P.ReadParameter(P.ParameterEntry(Name=name, sValue=f'{v!s} {u}', raw_entry=f'{name}, SYMV {u}'), prm, model)
                except ValueError as e:
                    exc = ('range', e)
                except RuntimeError as e:
                    exc = ('units', e)
                except Exception as e:    # pint errors escape uncaught on the pinned tree for some spellings
                    exc = ('uncaught', e)
                return prm, v, exc, model
            k = 0
            try:
                for pr in core.explore(fn, max_paths=80):
                    log.path(pr)
                    k += 1
                    if pr.aborted:
                        continue
                    if pr.error is not None:
                        raise pr.error
                    prm, v, exc, model = pr.value
                    c = pr.ctx
                    if k <= 2:
                        harness.reachable(log, c, 1000)
                    sfid = 'C06-currency-suffix-not-converted' if (type(pref).__name__, u) in KNOWN_SUFFIX_IGNORED else None
                    if exc is not None and exc[0] in ('units', 'uncaught'):
                        fid = 'C06-catalogue-unit-not-usable' if (type(pref).__name__, u) in KNOWN_UNUSABLE else None
                        harness.discharge(log, c, f'a unit the program lists for this kind of quantity ({u}) is converted, not refused', False, zv, cc('refused'), finding=fid)
                        continue
                    if not harness_ok:
                        log.note(f'{u}: pint cannot parse this spelling harness-side ({herr}) but the reader did not refuse it')
                        continue
                    expected = pint_convert(v, u, pref.value)
                    et = core.lift(expected)
                    if exc is not None:      # rejected as out of range: only if the converted value really is out of range
                        harness.discharge(log, c, f'"v {u}" is rejected only when the equivalent value in the default unit is out of range',
                                          z3.Or(et < core.rv(lo) + core.rv(TOL) * (abs(lo) + 1), et > core.rv(hi) - core.rv(TOL) * (abs(hi) + 1)), zv, cc('rejected'), finding=sfid)
                        continue
                    stored = prm.value
                    if not isinstance(stored, SymReal):
                        # value left untouched (sentinel / same as current): must be because the converted value equals it
                        harness.discharge(log, c, f'"v {u}": a value passed over silently equals the value already held', approx(core.rv(float(stored)), et), zv, cc('stored'), finding=sfid)
                        continue
                    harness.discharge(log, c, f'"v {u}" is stored as the equivalent value in the default unit (the computation sees the same physical quantity)',
                                      approx(stored.t, et), zv, cc('stored'), sample=(k == 1), finding=sfid)
                    if sfid:
                        harness.discharge(log, c, f'"v {u}": the stored value deviates from the equivalent value only by the unconverted "/..." part of the unit (recorded finding): it is the number as written',
                                          approx(stored.t, z3.Real('v')), zv, cc('unchanged'))
                    # (ii) the (value, CurrentUnits) pair left behind denotes what the user wrote
                    cu = prm.CurrentUnits
                    cuv = cu.value if hasattr(cu, 'value') else str(cu)
                    try:
                        denotes = pint_convert(stored, cuv, pref.value)
                        ok2 = approx(core.lift(denotes), et)
                    except Exception:
                        ok2 = z3.BoolVal(False)
                    fid = 'C06-current-units-left-at-user-unit' if (type(pref).__name__, u) in KNOWN_STALE_CURRENT_UNITS else sfid
                    harness.discharge(log, c, f'"v {u}": the (value, current unit) pair kept for the report echo denotes the quantity the user supplied',
                                      ok2, zv, cc('pair'), finding=fid)
                    # (iii) the real echo conversion
                    try:
                        with shim.shadow(*c07.param_shadows()):
                            P.ConvertUnitsBack(prm, model) if not prm.UnitsMatch else None
                        cu3 = prm.CurrentUnits
                        echoed = pint_convert(prm.value, cu3.value if hasattr(cu3, 'value') else str(cu3), pref.value)
                        ok3 = approx(core.lift(echoed), et)
                    except Exception:
                        ok3 = z3.BoolVal(False)
                    harness.discharge(log, c, f'"v {u}": what the report echoes (after ConvertUnitsBack) denotes the quantity the user supplied', ok3, zv, cc('echo'), finding=fid)
            except core.Realize as e:
                log['inconclusive'].append({'obligation': f'{clsn}/{pname}/{u}', 'why': f'pint realises the magnitude: {str(e)[:60]}'})
            yield log.result()


def concrete_input(modn, clsn, pname, u, v, clause=None):
    """replay on the real reader: 'v u' vs the harness-side conversion; the echo after ConvertUnitsBack.
    clause: 'refused' | 'rejected' | 'stored' | 'pair' | 'echo' | 'unchanged' | None (any)."""
    obj, model, _ = c07._make(modn, clsn)
    prm = obj.ParameterDict[pname]
    pref = prm.CurrentUnits if hasattr(prm.CurrentUnits, 'value') else prm.PreferredUnits
    name = prm.Name.strip()
    lo, hi = float(prm.Min), float(prm.Max)
    try:
        want = float(pint_convert(v, u, pref.value))
    except Exception as e:
        want = None
    detail = {'text': f'{v!r} {u}'}
    bad = {}
    try:
        with contextlib.redirect_stdout(io.StringIO()):
            P.ReadParameter(P.ParameterEntry(Name=name, sValue=f'{v!r} {u}'), prm, model)
    except ValueError as e:
        detail['rejected'] = str(e)[:100]
        bad['rejected'] = want is not None and lo + 1e-7 * (abs(lo) + 1) <= want <= hi - 1e-7 * (abs(hi) + 1)
        return (bad['rejected'] if clause in (None, 'rejected') else False), detail
    except Exception as e:
        detail['refused'] = f'{type(e).__name__}: {str(e)[:100]}'
        return clause in (None, 'refused'), detail
    if want is None:
        return False, detail
    stored = prm.value
    detail.update({'stored': stored, 'equivalent in default unit': want, 'current units after reading': str(prm.CurrentUnits)})
    tol = 1e-7 * (abs(want) + 1)
    bad['stored'] = abs(float(stored) - want) > tol
    bad['unchanged'] = abs(float(stored) - float(v)) > 1e-7 * (abs(float(v)) + 1)
    try:
        cu = prm.CurrentUnits.value if hasattr(prm.CurrentUnits, 'value') else str(prm.CurrentUnits)
        den = float(pint_convert(float(stored), cu, pref.value))
        detail['(value, current unit) denotes'] = den
        bad['pair'] = abs(den - want) > tol
    except Exception as e:
        detail['(value, current unit) cannot be interpreted'] = repr(e)[:100]
        bad['pair'] = True
    try:
        if not prm.UnitsMatch:
            P.ConvertUnitsBack(prm, model)
        cu = prm.CurrentUnits.value if hasattr(prm.CurrentUnits, 'value') else str(prm.CurrentUnits)
        echoed = float(pint_convert(float(prm.value), cu, pref.value))
        detail['echo denotes'] = echoed
        detail['echo'] = f'{prm.value} {cu}'
        bad['echo'] = abs(echoed - want) > tol
    except Exception as e:
        detail['echo failed'] = repr(e)[:100]
        bad['echo'] = True
    detail['clauses violated'] = sorted(k for k, b in bad.items() if b and k != 'unchanged')
    if clause is None:
        return any(b for k, b in bad.items() if k != 'unchanged'), detail
    return bool(bad.get(clause)), detail


# ---- output-units directive -------------------------------------------------------------------------------------------------
def run_outputs(unit):
    modn, clsn = unit['module'], unit['cls']
    tier = unit['tier']
    obj0, model0, mod = c07._make(modn, clsn)
    maxu = 3 if tier == 'quick' else 100
    # a directive names an output ('Units:<output name>, <unit>'): the name must lead to that output and to no other
    log = harness.UnitLog({'harness': 'output-units', 'class': clsn, 'clause': 'a directive naming an output reaches that output'})
    log['paths'] += 1
    log['reachable'] += 1
    for oname, o0 in list(obj0.OutputParameterDict.items()):
        log['obligations'] += 1
        if oname == o0.Name:
            log['discharged'] += 1
        else:
            log['cex'].append({'obligation': f'output "{o0.Name}" is addressed by its own name in a Units: directive', 'finding': None, 'config': dict(log.d['config']),
                               'reproduced': True, 'inputs': {'directive': f'Units:{oname}, <unit>'},
                               'detail': {'output reached by that directive': o0.Name, 'directive that names the output': f'Units:{o0.Name}, <unit> (reaches ' + repr(getattr(obj0.OutputParameterDict.get(o0.Name), 'Name', None)) + ')'},
                               'how': 'native (the registry the directive reader consults)', 'attempts': []})
    yield log.result()
    for oname, o0 in list(obj0.OutputParameterDict.items()):
        if not isinstance(o0.value, (int, float)) or isinstance(o0.value, bool):
            continue
        e = type(o0.PreferredUnits)
        if not hasattr(e, '__members__'):
            continue
        for um in [m for m in e if m != o0.CurrentUnits][:maxu]:
            cfg = {'harness': 'output-units', 'class': clsn, 'output': oname, 'unit': um.value}
            log = harness.UnitLog(cfg)
            try:
                pint_convert(1.0, o0.CurrentUnits.value, um.value)
            except Exception:
                log.note(f'{um.value}: not convertible by pint from {o0.CurrentUnits.value}; outside the property')
                log['paths'] += 1
                yield log.result()
                continue
            zv = {'x': z3.Real('x')}

            def concrete(inp, oname=oname, um=um):
                obj, model, _ = c07._make(modn, clsn)
                op = obj.OutputParameterDict[oname]
                x = float(inp.get('x', 1.5))
                op.value = x
                cu0 = op.CurrentUnits.value
                with contextlib.redirect_stdout(io.StringIO()):
                    P.ConvertOutputUnits(op, um, model)
                want = float(pint_convert(x, cu0, um.value))
                bad = abs(float(op.value) - want) > 1e-9 * (abs(want) + 1) or op.CurrentUnits != um
                return bad, {'stored': x, 'from': cu0, 'to': um.value, 'displayed': op.value, 'expected': want, 'label': str(op.CurrentUnits)}

            def fn(oname=oname, um=um):
                obj, model, _ = c07._make(modn, clsn)
                op = obj.OutputParameterDict[oname]
                x = sym('x')
                op.value = x
                cu0 = op.CurrentUnits.value
                with contextlib.redirect_stdout(io.StringIO()):
                    P.ConvertOutputUnits(op, um, model)
                return op, x, cu0
            try:
                for pr in core.explore(fn, max_paths=20):
                    log.path(pr)
                    if pr.error is not None:
                        raise pr.error
                    if pr.aborted:
                        continue
                    op, x, cu0 = pr.value
                    harness.reachable(log, pr.ctx, 1000)
                    want = core.lift(pint_convert(x, cu0, um.value))
                    got = core.lift(op.value)
                    harness.discharge(log, pr.ctx, f'output-units directive: the displayed value is the stored value times the exact factor ({cu0} -> {um.value})',
                                      got is not None and approx(got, want), zv, concrete, sample=True)
                    harness.discharge(log, pr.ctx, 'output-units directive: the label becomes the requested unit', op.CurrentUnits == um, zv, concrete)
            except core.Realize as e:
                log['inconclusive'].append({'obligation': f'{clsn}/{oname}/{um.value}', 'why': 'pint realises the magnitude'})
            yield log.result()
    yield from run_output_series(unit)


def run_output_series(unit):
    """series-valued outputs (profiles): a directive converts EVERY element exactly - also to units with an offset (degF, kelvin)."""
    modn, clsn = unit['module'], unit['cls']
    tier = unit['tier']
    obj0, model0, mod = c07._make(modn, clsn)
    maxu = 3 if tier == 'quick' else 100
    for oname, o0 in list(obj0.OutputParameterDict.items()):
        if not isinstance(o0.value, (list, tuple, np.ndarray)):
            continue
        e = type(o0.PreferredUnits)
        if not hasattr(e, '__members__'):
            continue
        for um in [m for m in e if m != o0.CurrentUnits][:maxu]:
            try:
                pint_convert(1.0, o0.CurrentUnits.value, um.value)
            except Exception:
                continue
            for container in ('ndarray', 'list'):
                cfg = {'harness': 'output-units', 'class': clsn, 'output': oname, 'unit': um.value, 'series': container}
                log = harness.UnitLog(cfg)
                zv = {'x0': z3.Real('x0'), 'x1': z3.Real('x1')}

                def concrete(inp, oname=oname, um=um, container=container):
                    obj, model, _ = c07._make(modn, clsn)
                    op = obj.OutputParameterDict[oname]
                    xs = [float(inp.get('x0', 1.5)), float(inp.get('x1', 80.25))]
                    op.value = np.array(xs) if container == 'ndarray' else list(xs)
                    cu0 = op.CurrentUnits.value
                    with contextlib.redirect_stdout(io.StringIO()):
                        P.ConvertOutputUnits(op, um, model)
                    want = [float(pint_convert(x, cu0, um.value)) for x in xs]
                    got = [float(x) for x in np.ravel(op.value)]
                    bad = len(got) != 2 or any(abs(g - w) > 1e-9 * (abs(w) + 1) for g, w in zip(got, want)) or op.CurrentUnits != um
                    return bad, {'stored': xs, 'from': cu0, 'to': um.value, 'displayed': got, 'expected': want, 'label': str(op.CurrentUnits)}

                def fn(oname=oname, um=um, container=container):
                    obj, model, _ = c07._make(modn, clsn)
                    op = obj.OutputParameterDict[oname]
                    xs = [sym('x0'), sym('x1')]
                    op.value = core.as_symarray(xs) if container == 'ndarray' else list(xs)
                    cu0 = op.CurrentUnits.value
                    with contextlib.redirect_stdout(io.StringIO()), shim.shadow(*([(P, 'np', shim.NP)] if hasattr(P, 'np') else [])):
                        P.ConvertOutputUnits(op, um, model)
                    return op, xs, cu0
                try:
                    for pr in core.explore(fn, max_paths=20):
                        log.path(pr)
                        if pr.error is not None:
                            raise pr.error
                        if pr.aborted:
                            continue
                        op, xs, cu0 = pr.value
                        harness.reachable(log, pr.ctx, 1000)
                        got = [core.lift(g) for g in np.ravel(op.value)]
                        ok = len(got) == 2 and all(g is not None for g in got)
                        prop = z3.And([approx(g, core.lift(pint_convert(x, cu0, um.value))) for g, x in zip(got, xs)]) if ok else False
                        harness.discharge(log, pr.ctx, f'output-units directive on a series: every element is converted exactly ({cu0} -> {um.value})', prop, zv, concrete,
                                          sample=(container == 'ndarray'))
                        harness.discharge(log, pr.ctx, 'output-units directive on a series: the label becomes the requested unit', op.CurrentUnits == um, zv, concrete)
                except (core.Realize, TypeError, ValueError) as e:
                    # pint could not carry the proxies through this container: decide the obligation on concrete points instead of giving up
                    for k, inp in enumerate(({'x0': 1.5, 'x1': 80.25}, {'x0': 0.0, 'x1': -40.0}, {'x0': 212.0, 'x1': 1e-3})):
                        bad, detail = concrete(inp)
                        if bad:
                            log['obligations'] += 1
                            log['cex'].append({'obligation': f'output-units directive on a series: every element is converted exactly ({o0.CurrentUnits.value} -> {um.value})', 'finding': None,
                                               'config': dict(cfg), 'reproduced': True, 'inputs': inp, 'detail': detail, 'how': 'concrete points (pint realises a series of proxies)', 'attempts': []})
                            break
                    else:
                        log['inconclusive'].append({'obligation': f'{clsn}/{oname}/{um.value}/{container}', 'why': f'pint realises the series ({type(e).__name__}); 3 concrete points held'})
                yield log.result()


# ---- the directive path: 'Units:<output>, <unit>' lines -> Outputs.read_parameters -> the conversion pass before printing ----------------------
DIRECTIVES = [('reserv', 'Trock', 'degF'), ('economics', 'Cexpl', 'KUSD'), ('surfaceplant', 'NetElectricityProduced', 'kW'), ('economics', 'cost_one_injection_well', 'KUSD')]
# inputs written in another unit than the one they are held in (values with more digits than any display rounding keeps)
ECHOED = [('wellbores', 'prodwelldiam', 'Production Well Diameter', 'meter', 0.244475), ('wellbores', 'injwelldiam', 'Injection Well Diameter', 'centimeter', 26.9875)]


def run_directive_path(unit):
    """a real, fully calculated Model; the real Outputs.read_parameters is given 'Units:' directive lines (with and without other, unrelated
    lines present) and the real Outputs._convert_units runs: every directed output must show value x exact factor under the requested label,
    every other output is untouched; an input that was read in another unit is echoed with a (value, unit) denoting what the user wrote."""
    from . import c09
    from geophires_x import Outputs as O
    kind, L, T, K, x = c09.CONFIGS['quick'][0]
    cfgm = c09.params_for(kind, L, T, K, x)
    cfgm['extra'] = dict(cfgm.get('extra', {}), **{name: f'{val!r} {u}' for _, _, name, u, val in ECHOED})
    for with_console_line in (False, True):
        cfg = {'harness': 'directive-path', 'other lines present': ['Print Output to Console'] if with_console_line else []}
        log = harness.UnitLog(cfg)
        zv = {}

        def drive(symbolic, with_console_line=with_console_line):
            m = c09.prepared(cfgm).reset()
            for kx in [kx for kx, vx in m.outputs.ParameterDict.items() if not gx.is_param(vx)]:
                del m.outputs.ParameterDict[kx]       # directives registered by an earlier path of this exploration (the dictionary is not part of the snapshot)
            before, given = {}, {}
            entries = {}
            if with_console_line:
                entries['Print Output to Console'] = P.ParameterEntry(Name='Print Output to Console', sValue='0', raw_entry='Print Output to Console, 0')
            for j, (comp, attr, u) in enumerate(DIRECTIVES):
                op = getattr(getattr(m, comp), attr)
                if symbolic:
                    v = op.value
                    op.value = core.as_symarray([sym(f'x{j}[{i}]') for i in range(len(v))]) if hasattr(v, '__len__') else sym(f'x{j}')
                before[(comp, attr)] = (op.value, op.CurrentUnits)
                okey = next((k_ for k_, v_ in getattr(m, comp).OutputParameterDict.items() if v_ is op), op.Name)     # directives address the dictionary key
                key = 'Units:' + okey
                entries[key] = P.ParameterEntry(Name=key, sValue=u, raw_entry=f'{key}, {u}')
            # inputs that the model read in another unit when it was built (what the report echoes)
            for j, (comp, attr, name, u, val) in enumerate(ECHOED):
                given[(comp, attr)] = (val, u)
            m.InputParameters = entries
            untouched = {(cn, k): (op.value, op.CurrentUnits) for cn in ('reserv', 'wellbores', 'surfaceplant', 'economics')
                         for k, op in getattr(m, cn).OutputParameterDict.items() if not any(op is getattr(getattr(m, c_), a_) for c_, a_, _ in DIRECTIVES)}
            with shim.shadow(*(list(c07.param_shadows()) + [(O, 'np', shim.NP)])), contextlib.redirect_stdout(io.StringIO()):
                m.outputs.read_parameters(m)
                m.outputs._convert_units(m)
            return m, before, given, untouched

        def facts(m, before, given, untouched):
            out = []
            for (comp, attr, u) in DIRECTIVES:
                op = getattr(getattr(m, comp), attr)
                v0, cu0 = before[(comp, attr)]
                try:
                    want = pint_convert(v0, cu0.value, u)
                    vals_now, vals_want = (list(op.value), list(want)) if hasattr(v0, '__len__') else ([op.value], [want])
                    ok = sand(*[core.near(a, b, 1e-9) for a, b in zip(vals_now, vals_want)]) if len(vals_now) == len(vals_want) else False
                except Exception:
                    ok = False
                out.append((f'directive "Units:{op.Name}, {u}": the displayed value is the stored value times the exact conversion factor', ok))
                out.append((f'directive "Units:{op.Name}, {u}": the label becomes the requested unit', getattr(op.CurrentUnits, 'value', None) == u))
            changed = []
            for (cn, k), (v, cu) in untouched.items():
                now = getattr(m, cn).OutputParameterDict[k]
                if now.value is v or _same(now.value, v):
                    continue
                try:      # shown in its preferred unit instead: must denote the same quantity
                    back = pint_convert(now.value, now.CurrentUnits.value, cu.value)
                    if not all(abs(float(a) - float(b)) <= 1e-9 * (1 + abs(float(b))) for a, b in zip(np.ravel(back), np.ravel(v))):
                        changed.append(k)
                except Exception:
                    changed.append(k)
            out.append(('outputs without a directive still denote the quantity that was computed', not changed))
            for (comp, attr, name, u, _) in ECHOED:
                prm = getattr(getattr(m, comp), attr)
                val, _u = given[(comp, attr)]
                cu = prm.CurrentUnits.value if hasattr(prm.CurrentUnits, 'value') else str(prm.CurrentUnits)
                try:
                    den = pint_convert(prm.value, cu, u)
                    ok = core.near(den, val, 1e-9)
                except Exception:
                    ok = False
                out.append((f'"{name}" given in {u}: after the conversion pass the echoed (value, unit) denotes the quantity the user wrote (to the precision it was written with)', ok))
            return out

        def concrete(inp, only=None):
            m, before, given, untouched = drive(False)
            bad = [n for n, ok in facts(m, before, given, untouched) if not ok and (only is None or n == only)]
            return bool(bad), {'failed': bad[:4], 'echo': {name: (float(getattr(getattr(m, c_), a_).value), str(getattr(getattr(m, c_), a_).CurrentUnits)) for c_, a_, name, _, _ in ECHOED}}
        k = 0
        for pr in core.explore(lambda: drive(True), max_paths=200, catch=(RuntimeError, ValueError)):
            log.path(pr)
            k += 1
            if pr.error is not None:
                if core.check_sat(pr.ctx.all_constraints(), 2000)[0] != 'sat':
                    continue          # a rejection branch that the linear abstraction could not exclude but the solver can
                raise pr.error
            if pr.aborted:
                continue
            harness.reachable(log, pr.ctx, 1000)
            for name, ok in facts(*pr.value):
                harness.discharge(log, pr.ctx, name, ok, zv, lambda inp, name=name: concrete(inp, only=name), sample=(k == 1 and 'exact conversion' in name))
        yield log.result()


def _same(a, b):
    try:
        if hasattr(a, '__len__') and hasattr(b, '__len__'):
            return len(a) == len(b) and all(x is y or x == y for x, y in zip(a, b))
        return a is b or bool(a == b)
    except Exception:
        return a is b


# ---- a value with a unit through the class's own read_parameters (which may read a parameter more than once) -------------------------------
CLASS_UNIT_TYPES = ('TemperatureUnit', 'TimeUnit', 'LengthUnit', 'PressureUnit')


def run_class_reader(unit):
    """'<v> <unit>' given to the real read_parameters of the class (not to ReadParameter directly): what the object holds afterwards is the
    quantity written, converted to the unit the freshly constructed object holds the parameter in - whatever the class does with its parameters on the way (a second pass over the same
    entries, a super() call, a special case)."""
    modn, clsn = unit['module'], unit['cls']
    obj0, model0, mod = c07._make(modn, clsn)
    per_type = 1 if unit['tier'] == 'quick' else 3
    seen = {}
    # the unit each parameter is held in by a freshly constructed object (taken now: c07._make re-uses and restores ONE object, and probing a
    # unit below leaves the parameter's CurrentUnits at the probed unit)
    held_in = {k: str(p_.CurrentUnits.value) for k, p_ in obj0.ParameterDict.items() if hasattr(p_, 'CurrentUnits') and hasattr(p_.CurrentUnits, 'value')}
    for pname, p0 in obj0.ParameterDict.items():
        if not isinstance(p0, P.floatParameter):
            continue
        tname = type(p0.PreferredUnits).__name__
        if tname not in CLASS_UNIT_TYPES or seen.get(tname, 0) >= per_type or p0.Name.strip() in c07.KNOWN_NORMALISED:
            continue      # (Reservoir Depth / Impedance: the class deliberately holds them in another unit than the preferred one - C07 lists them)
        us_ = [u for u in c07.convertible_units(p0) if c07._probe_unit(modn, clsn, pname, u)[0]]
        if not us_:
            continue
        u = us_[0]
        seen[tname] = seen.get(tname, 0) + 1
        name = p0.Name.strip()
        lo, hi = float(p0.Min), float(p0.Max)
        cu0 = held_in[pname]
        cfg = {'harness': 'class-reader-units', 'class': clsn, 'param': pname, 'unit': u}
        log = harness.UnitLog(cfg)

        def read(tok, symbolic, name=name):
            obj, model, _ = c07._make(modn, clsn)
            entry = P.ParameterEntry(Name=name, sValue=tok, raw_entry=f'{name}, {tok}')
            call = c07.reader_call('module', obj, model, mod, pname, entry)
            call.inputs = {name: entry}
            exc = None
            try:
                with contextlib.redirect_stdout(io.StringIO()), shim.shadow(*(c07.param_shadows() if symbolic else [])):
                    call()
            except (ValueError, RuntimeError) as e:
                exc = e
            return obj.ParameterDict[pname], exc

        def fn(u=u, cu0=cu0):
            v = sym('v')
            prm, exc = read(f'{v!s} {u}', True)
            return v, prm, exc
        zv = {'v': z3.Real('v')}

        def concrete(inp, u=u, cu0=cu0, lo=lo, hi=hi):
            v = float(inp['v'])
            prm, exc = read(f'{v!r} {u}', False)
            want = float(pint_convert(v, u, cu0))
            d = {'text': f'{v!r} {u}', 'the quantity written, in the working unit': want, 'held afterwards': repr(prm.value)[:60], 'raised': repr(exc)[:120] if exc else None}
            if exc is not None:
                return (lo <= want <= hi), d          # only a quantity outside the documented range may be refused
            return (lo <= want <= hi) and abs(float(prm.value) - want) > 1e-9 * (abs(want) + 1), d
        try:
            for pr in core.explore(fn, max_paths=200, catch=(Exception,)):
                log.path(pr)
                if pr.aborted:
                    continue
                if pr.error is not None:
                    if isinstance(pr.error, (core.Realize, core.HarnessError, TypeError, AttributeError)):
                        log['inconclusive'].append({'obligation': f'{clsn}/{pname}/{u}', 'why': f'post-read code of the class is not encodable here: {type(pr.error).__name__}'})
                        break
                    raise pr.error
                v, prm, exc = pr.value
                c = pr.ctx
                harness.reachable(log, c, 1500)
                want = core.lift(pint_convert(v, u, cu0))
                inr = z3.And(want >= core.rv(lo), want <= core.rv(hi))
                if exc is not None:
                    harness.discharge(log, c, f'{name} written in {u}, read by {clsn}.read_parameters: only a quantity outside the documented range is refused',
                                      z3.Not(z3.And(want > core.rv(lo), want < core.rv(hi))), zv, concrete)
                    continue
                got = core.lift(prm.value)
                harness.discharge(log, c, f'{name} written in {u}, read by {clsn}.read_parameters: the object holds the quantity written (exact conversion to the working unit)',
                                  z3.Implies(inr, approx(got, want)) if got is not None else False, zv, concrete, sample=True)
        except core.Realize:
            log['inconclusive'].append({'obligation': f'{clsn}/{pname}/{u}', 'why': 'post-read code realises the value'})
        yield log.result()


def units(tier, seed):
    us = [{'harness': 'directive-path'}]
    srcs = list(gx.SOURCE_CLASSES) + [('hip_ra_x.hip_ra_x', 'HIP_RA_X')]
    if tier == 'quick':
        keep = {'Reservoir', 'TDPReservoir', 'CylindricalReservoir', 'SBTReservoir', 'WellBores', 'SBTWellbores', 'SurfacePlant', 'SurfacePlantAGS', 'SurfacePlantDistrictHeating',
                'Economics', 'EconomicsS_DAC_GT', 'HIP_RA_X', 'SurfacePlantHeatPump', 'SurfacePlantAbsorptionChiller'}
        srcs = [s for s in srcs if s[1] in keep]
    for modn, clsn in srcs:
        us.append({'harness': 'inputs', 'module': modn, 'cls': clsn})
    for modn, clsn in [s for s in srcs if s[1] in ('TDPReservoir', 'WellBores', 'SurfacePlantSubcriticalOrc', 'SurfacePlant', 'Economics', 'SurfacePlantDistrictHeating')]:
        us.append({'harness': 'outputs', 'module': modn, 'cls': clsn})
    for modn, clsn in srcs:
        if clsn != 'HIP_RA_X':
            us.append({'harness': 'class-reader', 'module': modn, 'cls': clsn})
    return us


def run_unit(unit):
    if unit['harness'] == 'directive-path':
        yield from run_directive_path(unit)
    elif unit['harness'] == 'inputs':
        yield from run_inputs(unit)
    elif unit['harness'] == 'class-reader':
        yield from run_class_reader(unit)
    else:
        yield from run_outputs(unit)


def replay(cex):
    cfg = cex['config']
    srcs = dict((c, m) for m, c in list(gx.SOURCE_CLASSES) + [('hip_ra_x.hip_ra_x', 'HIP_RA_X')])
    if cfg['harness'] == 'input-units':
        return concrete_input(srcs[cfg['class']], cfg['class'], cfg['param'], cfg['unit'], float(cex['inputs'].get('v', 1.0)))
    raise NotImplementedError
