"""Rendering of provenance tokens as number-like placeholders of a chosen width (C10: the parser sees column-aligned text).

placeholder = '#' + base-36 token index + '~' filler; it contains no whitespace, comma, colon, bar or parenthesis.
mode 'pad' : the figure is shorter than its column (left-padded with spaces, the usual case)
mode 'full': the figure fills its column exactly (no padding)
mode 'over': the figure overflows its column by two characters"""
from __future__ import annotations

import re

from . import core

SPEC_RE = re.compile(r'^(?P<fill>.?[<>^])?(?P<sign>[+\- ])?(?P<width>\d+)?(?P<comma>,)?(?:\.(?P<prec>\d+))?(?P<type>[a-zA-Z%])?$')
PH_RE = re.compile(r'#([0-9a-z]+)~*')
DIG = '0123456789abcdefghijklmnopqrstuvwxyz'


def b36(k):
    s = ''
    while True:
        s = DIG[k % 36] + s
        k //= 36
        if k == 0:
            return s


def make(mode):
    def render(k, spec):
        core_txt = '#' + b36(k)
        m = SPEC_RE.match(spec or '')
        width = int(m.group('width')) if (m and m.group('width')) else None
        if width is None or spec in ('str', 'repr'):
            return core_txt + '~'
        if mode == 'pad':
            n = max(len(core_txt) + 1, width - 2)
            body = core_txt + '~' * (n - len(core_txt))
            return body.rjust(width)
        if mode == 'full':
            n = max(len(core_txt) + 1, width)
            return core_txt + '~' * (n - len(core_txt))
        n = max(len(core_txt) + 1, width + 2)
        return core_txt + '~' * (n - len(core_txt))
    return render


def token_of(text):
    """placeholder text -> token index or None."""
    if not isinstance(text, str):
        return None
    m = PH_RE.fullmatch(text.strip())
    return int(m.group(1), 36) if m else None
