"""CLI: python -m symx.replay <replay.json> — re-runs a recorded counterexample on the real code (plain floats)."""
from __future__ import annotations

import importlib
import json
import sys


def main(argv=None):
    argv = argv or sys.argv[1:]
    path = argv[0]
    with open(path) as f:
        rec = json.load(f)
    from . import gx  # noqa: F401  (imports the real code from /repo/src)
    mod = importlib.import_module(rec['harness'])
    violated, detail = mod.replay(rec['cex'])
    print(json.dumps({'property': rec['property'], 'obligation': rec['cex'].get('obligation'), 'violated': bool(violated),
                      'detail': detail}, indent=1, default=str))
    return 1 if violated else 0


if __name__ == '__main__':
    sys.exit(main())
