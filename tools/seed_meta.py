#!/usr/bin/env python3
"""Collect seeded/<id>-<mut>/{author_meta,confirm,detection_*}.json into meta.json per seed, and print the DESIGN.md table."""
import glob
import json
import os

HERE = os.path.dirname(os.path.dirname(os.path.abspath(__file__)))
rows = []
for d in sorted(glob.glob(os.path.join(HERE, 'seeded', 'C*-mut*'))):
    name = os.path.basename(d)
    pid, mut = name.split('-')
    if not (os.path.exists(os.path.join(d, 'author_meta.json')) and os.path.exists(os.path.join(d, 'confirm.json'))):
        continue
    am = json.load(open(os.path.join(d, 'author_meta.json')))
    cf = json.load(open(os.path.join(d, 'confirm.json')))
    det = {}
    for t in ('quick', 'thorough'):
        p = os.path.join(d, f'detection_{t}.json')
        if os.path.exists(p):
            try:
                det[t] = json.load(open(p))
            except json.JSONDecodeError:
                det[t] = {'error': 'unreadable detection file'}
    meta = {
        'property': pid, 'name': mut,
        'what_changes': am.get('summary'),
        'needs_to_manifest': am.get('needs'),
        'files': am.get('files'),
        'confirmed_by': {
            'how': 'tools/confirm_seed.sh: scratch worktree of /repo HEAD; demo.py run without and with patch.diff; baseline pytest failure set compared',
            'demo_exit_without_patch': cf.get('demo_exit_clean'), 'demo_exit_with_patch': cf.get('demo_exit_patched'),
            'test_failure_set_identical': cf.get('test_failure_set_identical'), 'repo_head': cf.get('repo_head'),
            'base_repair': 'base_repair.diff' if os.path.exists(os.path.join(d, 'base_repair.diff')) else None,
        },
        'detection': {t: {'command': v.get('check'), 'exit': v.get('exit'), 'violation_lines': v.get('violation_lines'), 'wall_s': v.get('wall_s'),
                          'first_violated_obligation': v.get('first_violated_obligation'), 'repo_head': v.get('repo_head')} for t, v in det.items()},
        'apply': f'git -C /repo apply /verif/seeded/{name}/patch.diff   # undo: git -C /repo checkout -- .',
    }
    json.dump(meta, open(os.path.join(d, 'meta.json'), 'w'), indent=1)
    q = det.get('quick', {})
    cross = {}
    for f in glob.glob(os.path.join(d, 'detection_quick_by_*.json')):
        try:
            cross[os.path.basename(f)[len('detection_quick_by_'):-5]] = json.load(open(f))
        except json.JSONDecodeError:
            pass
    meta['detection_by_other_checks'] = {k: {'exit': v.get('exit'), 'violation_lines': v.get('violation_lines'), 'first_violated_obligation': v.get('first_violated_obligation')} for k, v in cross.items()}
    json.dump(meta, open(os.path.join(d, 'meta.json'), 'w'), indent=1)
    by = sorted(k for k, v in cross.items() if v.get('exit') == 1 and v.get('violation_lines', 0) > 0)
    caught = 'yes' if q.get('exit') == 1 and q.get('violation_lines', 0) > 0 else (('by ' + ', '.join(by)) if by else ('harness error (exit 3)' if q.get('exit') == 3 else 'no'))

    ob = (q.get('first_violated_obligation') or (cross[by[0]].get('first_violated_obligation') if by else '') or '').replace('violated obligation:', '').strip()
    ob = ob.split('  config=')[0][:110]
    rows.append(f'| {name} | {(am.get("summary") or "")[:150].replace("|", "/")}… | {caught} | {ob.replace("|", "/")} |')
print('| seed | change (abridged) | caught by its property\'s quick check | first violated obligation |')
print('|---|---|---|---|')
print('\n'.join(rows))
