"""C15 — pumping power and modelled pressures stay physical (DESIGN §4 C15)."""
from __future__ import annotations

import contextlib
import io

import numpy as np
import z3

from .. import core, gx, harness, shim
from ..core import eq, sand, sor, snot, sym, symbool, SymReal, SymBool
from . import c05

from geophires_x import WellBores as WB
from geophires_x import Reservoir as R

ID = 'C15'
FUNCTIONS = ['geophires_x.WellBores:ReservoirPressurePredictor', 'geophires_x.WellBores:InjectionReservoirPressurePredictor',
             'geophires_x.WellBores:WellPressureDrop', 'geophires_x.WellBores:InjectionWellPressureDrop',
             'geophires_x.WellBores:ProdPressureDropsAndPumpingPowerUsingImpedenceModel',
             'geophires_x.WellBores:InjPressureDropsAndPumpingPowerUsingImpedenceModel',
             'geophires_x.WellBores:ProdPressureDropAndPumpingPowerUsingIndexes',
             'geophires_x.WellBores:InjPressureDropAndPumpingPowerUsingIndexes', 'geophires_x.WellBores:WellBores.Calculate']
UNIT_TIMEOUT = {'quick': 240, 'thorough': 1500}
PRED = {'quick': [(1, 2), (2, 1), (2, 2), (3, 1)], 'thorough': [(1, 2), (2, 1), (2, 2), (3, 1), (3, 2), (2, 4), (5, 1), (4, 2)]}
NFULL = {'quick': [(2, 1)], 'thorough': [(2, 1), (3, 1), (2, 2)]}
META = {
    'explanation': 'The two pressure predictors run on proxies (overpressure, depletion/inflation rate, hydrostatic pressure symbolic; '
                   'int() -> ToInt) and z3 proves start value, slope, never-below-hydrostatic and monotonicity for every time step. The '
                   'real WellBores.Calculate runs end to end on a real Model under both hydraulic models (impedance; productivity/'
                   'injectivity index, pumped and self-flowing) with flow rate, diameters, indexes, impedance, pump efficiency, water '
                   'loss, wellhead pressure and every water-property value symbolic (CoolProp calls return arbitrary positive reals; '
                   'log10/sqrt/pow/exp uninterpreted): on every path every pumping-power element is >= 0 and total = injection + '
                   'production. Laminar friction loss: product program of WellPressureDrop over two diameters.',
    'bounds': {t: {'predictors (L,T)': PRED[t], 'WellBores.Calculate (L,T)': NFULL[t], 'laminar friction: series length': 2} for t in PRED},
    'outside': ['turbulent (Colebrook) branch of the diameter clause: transcendental, stated as not decided', 'series longer than the bound',
                'IEEE rounding', 'AGS/SBT/SUTRA wellbores'],
    'assumptions': ['real arithmetic', 'water density/viscosity/vapour pressure: arbitrary positive values (same temperature => same value)',
                    'overpressure >= 100 %, depletion rate > 0, hydrostatic pressure > 0, inflation rate >= 0 for the predictor clauses',
                    'denominators non-zero'],
    'stubs': ['WellBores.density_water_kg_per_m3 / viscosity_water_Pa_sec / vapor_pressure_water_kPa -> positive UF of temperature',
              'WellBores.np / math -> shims (log10, sqrt, pow, exp, sin as UFs; exact max)', 'WellBores.int -> ToInt', 'WellBores.print -> no-op'],
}


def _posuf(name):
    f = z3.Function('uf_' + name, core.R, core.R)

    def g(T, *a, **k):
        if isinstance(T, SymReal):
            t = f(T.t)
        else:
            t = f(core.rv(T))
        core.ctx().add_side(t > 0)
        return SymReal(t)
    return g


WB_SHADOWS = [(WB, 'density_water_kg_per_m3', _posuf('rho')), (WB, 'viscosity_water_Pa_sec', _posuf('mu')),
              (WB, 'vapor_pressure_water_kPa', _posuf('pvap')), (WB, 'np', c05.NPW), (WB, 'math', shim.MATH),
              (WB, 'int', shim.IntShadow), (WB, 'print', lambda *a, **k: None), (WB, 'max', shim.smax)]


# ---- predictors ---------------------------------------------------------------------------------------------
def run_predictors(unit):
    L, T = unit['L'], unit['T']
    N = L * T
    cfg = {'harness': 'predictors', 'L': L, 'T': T}
    log = harness.UnitLog(cfg)
    names = ['hydro', 'op', 'rate']

    def oracle(v, p):
        out = [('production reservoir pressure has one value per time step', len(p) == N)]
        p0 = v['hydro'] * (v['op'] / 100)
        out.append(('production reservoir pressure starts at the overpressure multiple of hydrostatic', eq(p[0], p0)))
        for t in range(N):
            out.append((f'production reservoir pressure[{t}] never falls below hydrostatic', _ge(p[t], v['hydro'])))
        for t in range(N - 1):
            out.append((f'production reservoir pressure does not rise from step {t} to {t + 1}', _ge(p[t], p[t + 1])))
        return out

    def slope_oracle(v, p):
        # declines at the stated depletion rate: 100 % of the overpressure is gone after floor(100*T/rate) steps
        steps = _floor(100.0 / v['rate'] * T)
        delta = (v['hydro'] * (v['op'] / 100) - v['hydro']) / steps
        out = []
        for t in range(1, N):
            lin = p[0] - delta * t
            out.append((f'production reservoir pressure[{t}] = max(hydrostatic, start - depletion per step x {t})',
                        sor(sand(_ge(lin, v['hydro']), eq(p[t], lin)), sand(snot(_ge(lin, v['hydro'])), eq(p[t], v['hydro'])))))
        return out

    def drive(v, symbolic):
        if symbolic:
            with shim.shadow(*WB_SHADOWS):
                return WB.ReservoirPressurePredictor(L, T, v['hydro'], v['op'], v['rate'])
        return WB.ReservoirPressurePredictor(L, T, v['hydro'], v['op'], v['rate'])

    def concrete(inp, only=None):
        v = {n: float(inp[n]) for n in names}
        try:
            p = drive(v, False)
            obs = oracle(v, p) + slope_oracle(v, p)
        except ZeroDivisionError:
            return False, {'note': 'division by zero'}
        bad = [n for n, ok in obs if not ok and (only is None or n == only)]
        return bool(bad), {'failed': bad[:4], 'pressure': [float(x) for x in p], 'hydrostatic': v['hydro']}

    def fn():
        v = {'hydro': sym('hydro', 100, 200000), 'op': sym('op', 100, 1000), 'rate': sym('rate', 0, 100, lo_strict=True)}
        p = drive(v, True)
        return v, oracle(v, p) + slope_oracle(v, p)
    zv = {n: z3.Real(n) for n in names}
    k = 0
    for pr in core.explore(fn, max_paths=2000):
        log.path(pr)
        k += 1
        if pr.aborted:
            continue
        if pr.error is not None:
            raise pr.error
        v, obs = pr.value
        harness.reachable(log, pr.ctx, 3000)
        for name, cond in obs:
            harness.discharge(log, pr.ctx, name, cond, zv, lambda inp, name=name: concrete(inp, name), timeout_ms=20000, sample=(k == 2))
    yield log.result()

    # injection reservoir pressure
    cfg2 = {'harness': 'injection-predictor', 'L': L, 'T': T}
    log = harness.UnitLog(cfg2)
    names2 = ['p0', 'rate']

    def oracle2(v, p):
        out = [('injection reservoir pressure has one value per time step', len(p) == N)]
        for t in range(N):
            out.append((f'injection reservoir pressure[{t}] = start + inflation rate x t / steps per year', eq(p[t], v['p0'] + v['rate'] * t / T)))
        return out

    def concrete2(inp, only=None):
        v = {n: float(inp[n]) for n in names2}
        p = WB.InjectionReservoirPressurePredictor(L, T, v['p0'], v['rate'])
        bad = [n for n, ok in oracle2(v, p) if not ok and (only is None or n == only)]
        return bool(bad), {'failed': bad[:4], 'pressure': [float(x) for x in p]}

    def fn2():
        v = {'p0': sym('p0', 100, 200000), 'rate': sym('rate', 0, 10000)}
        p = WB.InjectionReservoirPressurePredictor(L, T, v['p0'], v['rate'])
        return v, oracle2(v, p)
    zv2 = {n: z3.Real(n) for n in names2}
    for pr in core.explore(fn2, max_paths=100):
        log.path(pr)
        if pr.error is not None:
            raise pr.error
        v, obs = pr.value
        harness.reachable(log, pr.ctx, 3000)
        for name, cond in obs:
            harness.discharge(log, pr.ctx, name, cond, zv2, lambda inp, name=name: concrete2(inp, name), timeout_ms=20000)
    yield log.result()


def _ge(a, b):
    if core.is_sym(a) or core.is_sym(b):
        return SymBool(core.lift(a) >= core.lift(b))
    return float(a) >= float(b) - 1e-9 * max(1.0, abs(float(b)))


def _floor(x):
    if isinstance(x, SymReal):
        return x.__trunc__()
    return float(int(x))


# ---- full WellBores.Calculate -----------------------------------------------------------------------------
FULL_SPEC = [('wellbores.prodwellflowrate', 1, 500), ('wellbores.prodwelldiam', 0.0254, 0.762), ('wellbores.injwelldiam', 0.0254, 0.762),
             ('wellbores.PI', 0.01, 10000), ('wellbores.II', 0.01, 10000), ('wellbores.impedance', 1e-4, 10000),
             ('surfaceplant.pump_efficiency', 0.1, 1), ('reserv.waterloss', 0, 0.99), ('wellbores.ppwellhead', 0, 10000),
             ('wellbores.overpressure_percentage', 100, 1000), ('wellbores.overpressure_depletion_rate', 0.1, 100),
             ('wellbores.injection_reservoir_inflation_rate', 0, 10000), ('surfaceplant.plant_outlet_pressure', 0.01, 15000)]


def run_full(unit):
    L, T, mode = unit['L'], unit['T'], unit['mode']
    N = L * T
    cfg = {'harness': 'wellbores-calculate', 'L': L, 'T': T, 'hydraulics': mode, 'flags': unit['flags']}
    log = harness.UnitLog(cfg)
    names = [n for n, _, _ in FULL_SPEC]
    if mode == 'impedance':
        names = [n for n in names if n not in ('wellbores.PI', 'wellbores.II', 'wellbores.ppwellhead')]
    else:
        names = [n for n in names if n != 'wellbores.impedance']
    ranges = {n: (lo, hi) for n, lo, hi in FULL_SPEC}

    def drive(v, flags, symbolic):
        m = c05.base_model(4, 1, L, T)
        m.reserv.Calculate(m)
        wb = m.wellbores
        for n, val in v.items():
            comp, attr = n.split('.')
            getattr(getattr(m, comp), attr).value = val
        wb.impedancemodelused.value = (mode == 'impedance')
        wb.productionwellpumping.value = flags['pumping']
        if flags.get('plant'):     # which pumps are modelled is decided by the pumping flag, whatever the plant type (flash plants in bottoming / parallel cogeneration keep their production pumps)
            from geophires_x.OptionList import PlantType
            m.surfaceplant.plant_type.value = {'double-flash': PlantType.DOUBLE_FLASH, 'single-flash': PlantType.SINGLE_FLASH, 'orc': PlantType.SUB_CRITICAL_ORC}[flags['plant']]
        wb.usebuiltinppwellheadcorrelation = flags['builtin_wellhead']
        wb.overpressure_percentage.Provided = True
        wb.injection_reservoir_inflation_rate.Provided = True   # (without it the pinned Calculate raises UnboundLocalError: robustness, not C15)
        wb.rameyoptionprod.value = False
        if not flags['pumping']:
            # self-flowing production needs a user plant outlet pressure (with the built-in correlation the pinned code raises TypeError)
            m.surfaceplant.usebuiltinoutletplantcorrelation.value = False
        if symbolic:
            with shim.shadow(*WB_SHADOWS):
                wb.Calculate(m)
        else:
            with contextlib.redirect_stdout(io.StringIO()):
                wb.Calculate(m)
        return m

    def obligations(m, flags):
        wb = m.wellbores
        PP = list(wb.PumpingPower.value)
        out = [('pumping power has one value per time step', len(PP) == N)]
        for i in range(N):
            out.append((f'total pumping power[{i}] is never negative', _ge(PP[i], 0.0)))
        if mode != 'impedance':
            PI_, PJ = list(wb.PumpingPowerInj.value), list(wb.PumpingPowerProd.value)
            for i in range(N):
                out.append((f'injection pumping power[{i}] is never negative', _ge(PI_[i], 0.0)))
                if flags['pumping']:
                    out.append((f'production pumping power[{i}] is never negative', _ge(PJ[i], 0.0)))
                    out.append((f'total pumping power[{i}] = injection + production', eq(PP[i], PI_[i] + PJ[i])))
                else:
                    out.append((f'total pumping power[{i}] = injection (production wells self-flowing)', eq(PP[i], PI_[i])))
        return out

    flagsets = [unit['flags']]
    for flags in flagsets:
        def concrete(inp, only=None, flags=flags):
            v = {n: float(inp[n]) for n in names}
            try:
                m = drive(v, flags, False)
            except Exception as e:
                return False, {'raised': repr(e)[:200]}
            bad = [n for n, ok in obligations(m, flags) if not ok and (only is None or n == only)]
            return bool(bad), {'failed': bad[:4], 'PumpingPower': [float(x) for x in m.wellbores.PumpingPower.value],
                               'PumpingPowerProd': [float(x) for x in np.ravel(m.wellbores.PumpingPowerProd.value)],
                               'PumpingPowerInj': [float(x) for x in np.ravel(m.wellbores.PumpingPowerInj.value)]}

        def fn(flags=flags):
            v = {n: sym(n, *ranges[n]) for n in names}
            m = drive(v, flags, True)
            return obligations(m, flags)
        zv = {n: z3.Real(n) for n in names}

        def probe():
            import random
            rnd = random.Random(15)
            yield {n: (ranges[n][0] + ranges[n][1]) / 2 for n in names}
            # corners: a reservoir offering (almost) no resistance, where buoyancy outweighs friction at every time step
            yield {n: (ranges[n][0] if n in ('wellbores.impedance',) else (ranges[n][0] + ranges[n][1]) / 2) for n in names}
            yield {n: (ranges[n][0] if n in ('wellbores.impedance', 'wellbores.prodwellflowrate') else (ranges[n][0] + ranges[n][1]) / 2) for n in names}
            yield {n: (ranges[n][1] if n in ('wellbores.PI', 'wellbores.II', 'wellbores.prodwelldiam', 'wellbores.injwelldiam') else ranges[n][0]) for n in names}
            for _ in range(6):
                yield {n: ranges[n][0] + (ranges[n][1] - ranges[n][0]) * rnd.random() for n in names}
        k = 0
        for pr in core.explore(fn, max_paths=60000):
            log.path(pr)
            k += 1
            if pr.aborted:
                continue
            if pr.error is not None:
                raise pr.error
            if k <= 4 or k % 64 == 0:
                harness.reachable(log, pr.ctx, 1000)
            for name, cond in pr.value:
                harness.discharge(log, pr.ctx, name + f' [{"pumped" if flags["pumping"] else "self-flowing"}]', cond, zv,
                                  lambda inp, name=name: concrete(inp, name), timeout_ms=20000, sample=(k == 1), probe=probe)
    yield log.result()


# ---- the pressure series WellBores.Calculate leaves behind -------------------------------------------------------------------
PRESS_SPEC = [('wellbores.Phydrostatic', 1000.0, 100000.0), ('wellbores.overpressure_percentage', 100, 1000),
              ('wellbores.overpressure_depletion_rate', 0.1, 100), ('wellbores.injection_reservoir_inflation_rate', 0, 10000)]


def run_pressures(unit):
    """The modelled reservoir pressures as the real WellBores.Calculate LEAVES them (after redrilling, after every later step of the method):
    the production-reservoir series is the predictor's series for the stated hydrostatic pressure, overpressure and depletion rate - starts at
    overpressure% x hydrostatic, declines linearly, never rises, never falls below hydrostatic - and the injection-reservoir series is the
    inflation predictor's series (split reservoir) or the production series (one reservoir).  Hydrostatic pressure, overpressure, depletion and
    inflation rates are symbolic; whether overpressure / an inflation rate were given, and whether the wells are redrilled, are configurations."""
    L, T, flags = unit['L'], unit['T'], unit['flags']
    N = L * T
    cfg = {'harness': 'pressure-series-after-calculate', 'L': L, 'T': T, 'flags': flags}
    log = harness.UnitLog(cfg)
    names = [n for n, _, _ in PRESS_SPEC]
    ranges = {n: (lo, hi) for n, lo, hi in PRESS_SPEC}

    def drive(v, symbolic):
        m = c05.base_model(4, 1, L, T)
        m.reserv.Calculate(m)
        wb = m.wellbores
        if flags['redrill']:
            # a reservoir that cools quickly (concrete series): with Maximum Drawdown 0.1 the wells are redrilled after the first time step(s)
            t0 = float(m.reserv.Tresoutput.value[0])
            m.reserv.Tresoutput.value = np.array([t0 * (1 - 0.12 * i) for i in range(N)])
            wb.maxdrawdown.value = 0.1
        for n, val in v.items():
            comp, attr = n.split('.')
            getattr(getattr(m, comp), attr).value = val
        wb.usebuiltinhydrostaticpressurecorrelation = False
        wb.overpressure_percentage.Provided = flags['overpressure_given']
        wb.injection_reservoir_inflation_rate.Provided = flags['inflation_given']
        if not flags['overpressure_given']:
            wb.overpressure_percentage.value = 100.0          # the value the parameter holds when it is not given
        wb.rameyoptionprod.value = False
        hydro = wb.Phydrostatic.quantity().to(wb.production_reservoir_pressure.CurrentUnits).magnitude
        if symbolic:
            with shim.shadow(*WB_SHADOWS):
                wb.Calculate(m)
                want = WB.ReservoirPressurePredictor(L, T, hydro, wb.overpressure_percentage.value, wb.overpressure_depletion_rate.value)
                wanti = WB.InjectionReservoirPressurePredictor(L, T, wb.injection_reservoir_initial_pressure.value, wb.injection_reservoir_inflation_rate.value) \
                    if flags['overpressure_given'] else want
        else:
            with contextlib.redirect_stdout(io.StringIO()):
                wb.Calculate(m)
            want = WB.ReservoirPressurePredictor(L, T, hydro, wb.overpressure_percentage.value, wb.overpressure_depletion_rate.value)
            wanti = WB.InjectionReservoirPressurePredictor(L, T, wb.injection_reservoir_initial_pressure.value, wb.injection_reservoir_inflation_rate.value) \
                if flags['overpressure_given'] else want
        return m, hydro, list(want), list(wanti)

    def obligations(m, hydro, want, wanti, symbolic):
        wb = m.wellbores
        close = (lambda a, b: eq(a, b)) if symbolic else (lambda a, b: harness.close(float(a), float(b), rel=1e-9))
        P = list(np.ravel(wb.production_reservoir_pressure.value))
        Q = list(np.ravel(wb.injection_reservoir_pressure.value))
        out = [('production-reservoir pressure has one value per time step', len(P) == N),
               ('injection-reservoir pressure has one value per time step', len(Q) == N),
               ('wells are redrilled in this configuration' if flags['redrill'] else 'no redrilling in this configuration', (int(wb.redrill.value) > 0) == bool(flags['redrill']))]
        if len(P) == N:
            for i in range(N):
                out.append((f'production-reservoir pressure[{i}] left by Calculate = overpressure start declining at the depletion rate, floored at hydrostatic', close(P[i], want[i])))
                out.append((f'production-reservoir pressure[{i}] is never below hydrostatic', _ge(P[i], hydro)))
                if i:
                    out.append((f'production-reservoir pressure[{i}] does not rise', _ge(P[i - 1], P[i])))
        if len(Q) == N:
            for i in range(N):
                out.append((f'injection-reservoir pressure[{i}] left by Calculate = ' + ('initial + inflation rate x time' if flags['overpressure_given'] else 'the production-reservoir pressure (one reservoir)'),
                            close(Q[i], wanti[i])))
        return out

    def concrete(inp, only=None):
        v = {n: float(inp[n]) for n in names}
        try:
            m, hydro, want, wanti = drive(v, False)
        except Exception as e:
            return False, {'raised': repr(e)[:200]}
        bad = [n for n, ok in obligations(m, hydro, want, wanti, False) if not ok and (only is None or n == only)]
        return bool(bad), {'failed': bad[:4], 'production reservoir pressure': [float(x) for x in np.ravel(m.wellbores.production_reservoir_pressure.value)],
                           'injection reservoir pressure': [float(x) for x in np.ravel(m.wellbores.injection_reservoir_pressure.value)],
                           'predictor (production)': [float(x) for x in want], 'redrill': int(m.wellbores.redrill.value)}

    def fn():
        v = {n: sym(n, *ranges[n]) for n in names}
        m, hydro, want, wanti = drive(v, True)
        return obligations(m, hydro, want, wanti, True)
    zv = {n: z3.Real(n) for n in names}

    def probe():
        yield {n: (ranges[n][0] + ranges[n][1]) / 2 for n in names}
        yield {'wellbores.Phydrostatic': 30000.0, 'wellbores.overpressure_percentage': 140.0, 'wellbores.overpressure_depletion_rate': 15.0,
               'wellbores.injection_reservoir_inflation_rate': 250.0}
        yield {'wellbores.Phydrostatic': 30000.0, 'wellbores.overpressure_percentage': 100.0, 'wellbores.overpressure_depletion_rate': 15.0,
               'wellbores.injection_reservoir_inflation_rate': 250.0}
    k = 0
    for pr in core.explore(fn, max_paths=20000):
        log.path(pr)
        k += 1
        if pr.aborted:
            continue
        if pr.error is not None:
            raise pr.error
        if k <= 4 or k % 64 == 0:
            harness.reachable(log, pr.ctx, 1000)
        for name, cond in pr.value:
            harness.discharge(log, pr.ctx, name, cond, zv, lambda inp, name=name: concrete(inp, name), timeout_ms=20000, sample=(k == 1), probe=probe)
    yield log.result()


# ---- laminar friction vs diameter --------------------------------------------------------------------------
def run_friction(unit):
    N = 2
    cfg = {'harness': 'laminar-friction-vs-diameter', 'N': N}
    log = harness.UnitLog(cfg)
    names = ['flow', 'd1', 'd2', 'depth'] + [f'T[{i}]' for i in range(N)]

    def drive(v, symbolic):
        m = c05.base_model(4, 1, 2, 1)
        m.reserv.Calculate(m)
        Tav = core.as_symarray([v[f'T[{i}]'] for i in range(N)]) if symbolic else np.array([v[f'T[{i}]'] for i in range(N)])
        if symbolic:
            with shim.shadow(*WB_SHADOWS):
                a = WB.WellPressureDrop(m, Tav, v['flow'], v['d1'], True, v['depth'])
                b = WB.WellPressureDrop(m, Tav, v['flow'], v['d2'], True, v['depth'])
        else:
            a = WB.WellPressureDrop(m, Tav, v['flow'], v['d1'], True, v['depth'])
            b = WB.WellPressureDrop(m, Tav, v['flow'], v['d2'], True, v['depth'])
        return a, b

    def fn():
        v = {'flow': sym('flow', 0.001, 500), 'd1': sym('d1', 0.0254, 0.762), 'd2': sym('d2', 0.0254, 0.762), 'depth': sym('depth', 100, 15000)}
        for i in range(N):
            v[f'T[{i}]'] = sym(f'T[{i}]', 1, 370)
        core.ctx().add_assume(v['d1'].t < v['d2'].t)
        a, b = drive(v, True)
        return a, b

    def concrete(inp, only=None):
        v = {n: float(inp[n]) for n in names}
        a, b = drive(v, False)
        bad = [i for i in range(N) if not (b[0][i] <= a[0][i] * (1 + 1e-9))]
        return bool(bad), {'DP_small_diameter': [float(x) for x in a[0]], 'DP_large_diameter': [float(x) for x in b[0]]}
    zv = {n: z3.Real(n) for n in names}
    for pr in core.explore(fn, max_paths=50):
        log.path(pr)
        if pr.error is not None:
            raise pr.error
        if pr.aborted:
            continue
        a, b = pr.value
        # laminar on both calls <=> the friction factor terms are 64/Re: detect by absence of log10 applications
        both_laminar = not c05.uf_apps([core.lift(x) for x in list(a[1]) + list(b[1])], 'uf_log10')
        if not both_laminar:
            log.note('path with a turbulent (Colebrook) evaluation: diameter clause not decided there (stated in DESIGN/META)')
            continue
        harness.reachable(log, pr.ctx, 3000)
        for i in range(N):
            harness.discharge(log, pr.ctx, f'laminar friction loss[{i}] does not increase when only the diameter grows',
                              SymBool(core.lift(b[0][i]) <= core.lift(a[0][i])), zv, concrete, timeout_ms=30000, sample=(i == 0))
    yield log.result()


# ---- the optional pressure inputs: a stated figure switches the built-in correlation off -------------------------------------------------
PRESSURE_INPUTS = [('Reservoir Hydrostatic Pressure', 'Phydrostatic', 'usebuiltinhydrostaticpressurecorrelation'),
                   ('Production Wellhead Pressure', 'ppwellhead', 'usebuiltinppwellheadcorrelation')]


def run_pressure_inputs(unit):
    """real WellBores.read_parameters with the numeric token of the optional pressure line symbolic: when the user states the reservoir
    hydrostatic pressure / the production wellhead pressure, the pressure calculation must refer to the stated figure, i.e. the switch
    that selects the built-in correlation is off (and stays on when the line is absent or holds the documented sentinel -1)."""
    from . import c07
    P = gx.P
    for line, attr, flag in PRESSURE_INPUTS:
        cfg = {'harness': 'pressure-input-lines', 'line': line}
        log = harness.UnitLog(cfg)
        obj0, model0, mod = c07._make('geophires_x.WellBores', 'WellBores')
        lo, hi = float(getattr(obj0, attr).Min), float(getattr(obj0, attr).Max)
        zv = {'v': z3.Real('v'), 'line present': z3.Bool('line present')}

        def run(v, present, symbolic, line=line, attr=attr, flag=flag):
            obj, model, _ = c07._make('geophires_x.WellBores', 'WellBores')
            ins = {}
            if present:
                if symbolic:
                    tok = c07.NumStr('SYMV')
                    tok.proxy = v
                else:
                    tok = repr(float(v))
                ins[line] = P.ParameterEntry(Name=line, sValue=tok, raw_entry=f'{line}, {tok}')
            model.InputParameters = ins
            with contextlib.redirect_stdout(io.StringIO()), shim.shadow(*(c07.param_shadows() if symbolic else [])):
                obj.read_parameters(model)
            builtin = getattr(obj, flag)
            if present:
                return [(f'"{line}" stated: the built-in correlation is switched off (the stated figure is used)', builtin is False or builtin == False),      # noqa: E712
                        (f'"{line}" stated: the stated figure is stored', core.near(getattr(obj, attr).value, v, 1e-12))]
            return [(f'"{line}" absent: the built-in correlation stays on', builtin is True or builtin == True)]      # noqa: E712

        def concrete(inp, only=None, run=run):
            try:
                obs = run(float(inp.get('v', (lo + hi) / 2)), bool(inp.get('line present', True)), False)
            except (ValueError, RuntimeError) as e:
                return False, {'raised': repr(e)[:120]}
            bad = [n for n, ok in obs if not ok and (only is None or n == only)]
            return bool(bad), {'failed': bad}

        def fn(run=run):
            present = bool(core.symbool('line present'))
            v = sym('v', lo, hi)
            return run(v, present, True)
        for pr in core.explore(fn, max_paths=200, catch=(ValueError, RuntimeError)):
            log.path(pr)
            if pr.aborted or pr.error is not None:
                continue
            harness.reachable(log, pr.ctx, 1000)
            for name, cond in pr.value:
                harness.discharge(log, pr.ctx, name, cond if core.is_sym(cond) else bool(cond), zv, lambda inp, name=name, concrete=concrete: concrete(inp, name), timeout_ms=10000, sample=True)
        yield log.result()


def units(tier, seed):
    us = [{'harness': 'predictors', 'L': L, 'T': T} for (L, T) in PRED[tier]]
    us.append({'harness': 'pressure-inputs'})
    for (L, T) in NFULL[tier]:
        us.append({'harness': 'full', 'L': L, 'T': T, 'mode': 'impedance', 'flags': {'pumping': True, 'builtin_wellhead': True}})
        for fl in ({'pumping': True, 'builtin_wellhead': True}, {'pumping': True, 'builtin_wellhead': False}, {'pumping': False, 'builtin_wellhead': True}):
            us.append({'harness': 'full', 'L': L, 'T': T, 'mode': 'indexes', 'flags': fl})
    L0, T0 = NFULL[tier][0]
    us.append({'harness': 'full', 'L': L0, 'T': T0, 'mode': 'indexes', 'flags': {'pumping': True, 'builtin_wellhead': True, 'plant': 'double-flash'}})
    if tier == 'thorough':
        us.append({'harness': 'full', 'L': L0, 'T': T0, 'mode': 'indexes', 'flags': {'pumping': True, 'builtin_wellhead': False, 'plant': 'single-flash'}})
        us.append({'harness': 'full', 'L': L0, 'T': T0, 'mode': 'indexes', 'flags': {'pumping': False, 'builtin_wellhead': True, 'plant': 'orc'}})
    us.append({'harness': 'friction'})
    # the pressure series as WellBores.Calculate leaves them: (overpressure given, inflation rate given, redrilling)
    for (L, T) in ([(2, 1)] if tier == 'quick' else [(2, 1), (3, 1), (2, 2)]):
        for og, ig in ((True, True), (False, True), (False, False)):
            for rd in (False, True):
                us.append({'harness': 'pressures', 'L': L, 'T': T, 'flags': {'overpressure_given': og, 'inflation_given': ig, 'redrill': rd}})
    return us


def run_unit(unit):
    h = unit['harness']
    if h == 'predictors':
        yield from run_predictors(unit)
    elif h == 'full':
        yield from run_full(unit)
    elif h == 'pressure-inputs':
        yield from run_pressure_inputs(unit)
    elif h == 'pressures':
        yield from run_pressures(unit)
    else:
        yield from run_friction(unit)


def replay(cex):
    raise NotImplementedError
