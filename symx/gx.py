"""GEOPHIRES-X helpers: importing the real code from /repo/src, building real Model objects, state snapshots."""
from __future__ import annotations

import hashlib
import importlib
import inspect
import logging
import os
import shutil
import sys
import tempfile

import numpy as np

REPO = os.environ.get('SYMX_REPO', '/repo')
SRC = os.path.join(REPO, 'src')
if SRC not in sys.path:
    sys.path.insert(0, SRC)

logging.disable(logging.CRITICAL)

import geophires_x.Model  # noqa: E402  (must be first: circular imports otherwise)
from geophires_x.Model import Model  # noqa: E402
from geophires_x import Parameter as P  # noqa: E402

assert os.path.realpath(geophires_x.Model.__file__).startswith(os.path.realpath(SRC)), geophires_x.Model.__file__

_TMP = None


def tmpdir():
    global _TMP
    if _TMP is None or not os.path.isdir(_TMP):
        _TMP = tempfile.mkdtemp(prefix='symx_')
        import atexit
        atexit.register(lambda: shutil.rmtree(_TMP, ignore_errors=True))
    return _TMP


def write_input(params: dict, name=None) -> str:
    d = tmpdir()
    fd, path = tempfile.mkstemp(prefix=name or 'in_', suffix='.txt', dir=d)
    with os.fdopen(fd, 'w') as f:
        for k, v in params.items():
            f.write(f'{k}, {v}\n')
    return path


def make_model(params: dict, read=True) -> Model:
    path = write_input(params)
    old = sys.argv
    cwd = os.getcwd()
    try:
        sys.argv = ['']
        m = Model(enable_geophires_logging_config=False, input_file=path)
        if read:
            m.read_parameters()
    finally:
        sys.argv = old
        os.chdir(cwd)
    return m


def unwrapped(f):
    """the plain function behind a memoising decorator (the memo is an implementation detail the harnesses bypass)."""
    return getattr(f, '__wrapped__', f)


def is_param(x):
    return isinstance(x, (P.Parameter, P.OutputParameter))


COMPONENTS = ('reserv', 'wellbores', 'surfaceplant', 'economics', 'outputs', 'addeconomics', 'addoutputs',
              'sdacgteconomics', 'sdacgtoutputs')

_SIMPLE = (int, float, str, bool, type(None), np.ndarray, list, tuple, np.floating, np.integer)


def _copyval(v):
    if isinstance(v, np.ndarray):
        return v.copy()
    if isinstance(v, list):
        return list(v)
    return v


class Snapshot:
    """values of every Parameter/OutputParameter and every plain attribute of the model components."""

    def __init__(self, model):
        self.model = model
        self.items = []
        for cn in COMPONENTS:
            comp = getattr(model, cn, None)
            if comp is None:
                continue
            for an, av in list(vars(comp).items()):
                if is_param(av):
                    self.items.append((av, None, {k: _copyval(v) for k, v in vars(av).items()}))
                elif isinstance(av, _SIMPLE):
                    self.items.append((comp, an, _copyval(av)))
        self.components = {cn: getattr(model, cn, None) for cn in COMPONENTS}

    def restore(self):
        for obj, an, saved in self.items:
            if an is None:
                d = vars(obj)
                for k, v in saved.items():
                    d[k] = _copyval(v)
            else:
                setattr(obj, an, _copyval(saved))
        for cn, comp in self.components.items():
            if comp is not None:
                setattr(self.model, cn, comp)


def source_hash(qualname: str):
    """sha256 of the current source of a function/class given as 'module:attr.attr'."""
    modn, _, attr = qualname.partition(':')
    mod = importlib.import_module(modn)
    obj = mod
    for a in attr.split('.') if attr else []:
        obj = getattr(obj, a)
    obj = getattr(obj, '__wrapped__', obj)
    try:
        src = inspect.getsource(obj)
    except (OSError, TypeError):
        src = repr(obj)
    return {'name': qualname, 'sha256': hashlib.sha256(src.encode()).hexdigest()[:16], 'lines': src.count('\n')}


# --------------------------------------------------------------------------------------------------
# every class of the package that owns a ParameterDict ("what the simulator accepts")
# --------------------------------------------------------------------------------------------------
def dummy_model():
    old = sys.argv
    cwd = os.getcwd()
    try:
        sys.argv = ['']
        return Model(enable_geophires_logging_config=False)
    finally:
        sys.argv = old
        os.chdir(cwd)


SOURCE_CLASSES = [
    ('geophires_x.Reservoir', 'Reservoir'), ('geophires_x.TDPReservoir', 'TDPReservoir'),
    ('geophires_x.LHSReservoir', 'LHSReservoir'), ('geophires_x.MPFReservoir', 'MPFReservoir'),
    ('geophires_x.SFReservoir', 'SFReservoir'), ('geophires_x.CylindricalReservoir', 'CylindricalReservoir'),
    ('geophires_x.UPPReservoir', 'UPPReservoir'), ('geophires_x.TOUGH2Reservoir', 'TOUGH2Reservoir'),
    ('geophires_x.SBTReservoir', 'SBTReservoir'), ('geophires_x.SUTRAReservoir', 'SUTRAReservoir'),
    ('geophires_x.WellBores', 'WellBores'), ('geophires_x.AGSWellBores', 'AGSWellBores'),
    ('geophires_x.SBTWellbores', 'SBTWellbores'), ('geophires_x.SUTRAWellBores', 'SUTRAWellBores'),
    ('geophires_x.SurfacePlant', 'SurfacePlant'), ('geophires_x.SurfacePlantIndustrialHeat', 'SurfacePlantIndustrialHeat'),
    ('geophires_x.SurfacePlantSubcriticalORC', 'SurfacePlantSubcriticalOrc'),
    ('geophires_x.SurfacePlantSupercriticalORC', 'SurfacePlantSupercriticalOrc'),
    ('geophires_x.SurfacePlantSingleFlash', 'SurfacePlantSingleFlash'), ('geophires_x.SurfacePlantDoubleFlash', 'SurfacePlantDoubleFlash'),
    ('geophires_x.SurfacePlantAbsorptionChiller', 'SurfacePlantAbsorptionChiller'),
    ('geophires_x.SurfacePlantHeatPump', 'SurfacePlantHeatPump'), ('geophires_x.SurfacePlantDistrictHeating', 'SurfacePlantDistrictHeating'),
    ('geophires_x.SurfacePlantAGS', 'SurfacePlantAGS'), ('geophires_x.SurfacePlantSUTRA', 'SurfacePlantSUTRA'),
    ('geophires_x.Economics', 'Economics'), ('geophires_x.AGSEconomics', 'AGSEconomics'), ('geophires_x.SBTEconomics', 'SBTEconomics'),
    ('geophires_x.SUTRAEconomics', 'SUTRAEconomics'), ('geophires_x.EconomicsAddOns', 'EconomicsAddOns'),
    ('geophires_x.EconomicsS_DAC_GT', 'EconomicsS_DAC_GT'),
    ('geophires_x.Outputs', 'Outputs'),
]


def make_source(modname, clsname, model=None):
    mod = importlib.import_module(modname)
    cls = getattr(mod, clsname)
    model = model or dummy_model()
    if clsname == 'Outputs':
        obj = cls(model, output_file='HDR.out')
    else:
        obj = cls(model)
    return obj, model, mod
