"""Symbolic world for the Monte-Carlo driver: the REAL geophires_monte_carlo.MC_GeoPHIRES3.work_package runs against it.

* numpy's global generator is a symbolic object per PROCESS: state term (z3 Int) + draw counter.  Every draw is an object
  carrying (state, counter, distribution, parameters).  fork: a worker starts with the parent's state and counter.
  np.random.seed() / default_rng() without argument: a fresh state (OS entropy), pairwise distinct (environment contract).
* files, temp names, uuid, shutil, the lock and the simulation clients are in-memory stubs; the simulated report is a list of
  lines 'label: <value token> unit' for the outputs that are found (a symbolic Boolean per requested output)."""
from __future__ import annotations

import argparse
import builtins
import itertools

import z3

from . import core
from .core import SymBool

import geophires_monte_carlo.MC_GeoPHIRES3 as MC


class Draw:
    """one variate: identified by (generator state, draw index); carries the distribution request."""
    _n = itertools.count()

    def __init__(self, gen, dist, params):
        self.state, self.k, self.dist, self.params = gen.state, gen.k, dist, params
        self.gen_id = gen.gid
        self.uid = next(Draw._n)
        self.formats = []

    def _tok(self, spec):
        self.formats.append(spec)
        return f'⟦draw{self.uid}:{spec}⟧'

    def __str__(self):
        return self._tok('str')

    def __repr__(self):
        return self._tok('repr')

    def __format__(self, spec):
        return self._tok('format:' + spec)


class Gen:
    """numpy global generator of one process."""
    _fresh = itertools.count(1)

    def __init__(self, state, k=0, gid='parent'):
        self.state, self.k, self.gid = state, k, gid
        self.draws = []
        self.reseeds = 0

    def fork(self, gid):
        return Gen(self.state, self.k, gid)

    def _draw(self, dist, *params):
        d = Draw(self, dist, params)
        self.k += 1
        self.draws.append(d)
        return d

    def normal(self, a, b):
        return self._draw('normal', a, b)

    def uniform(self, a, b):
        return self._draw('uniform', a, b)

    def triangular(self, a, b, c):
        return self._draw('triangular', a, b, c)

    def lognormal(self, a, b):
        return self._draw('lognormal', a, b)

    discrete_world = None

    def binomial(self, n, p):
        d = self._draw('binomial', n, p)
        w = Gen.discrete_world
        if w is not None and getattr(w, 'discrete', False):
            # discrete-inputs world: the draw is a solver-chosen member of {0, 1} (a fork), rendered as that number
            w.n_discrete = getattr(w, 'n_discrete', 0) + 1
            return 1 if bool(core.SymBool(z3.Bool(f'binomial_draw[{w.n_discrete - 1}]_is_1'))) else 0
        return d

    seed_pairs = []      # (seed term, state constant) of explicit symbolic seeds: equal seeds <=> equal streams

    def seed(self, *a):
        if a and a[0] is not None and core.is_sym(a[0]):
            st = z3.Int(f'seeded!{next(Gen._fresh)}')
            Gen.seed_pairs.append((core.lift(a[0]), st))
            self.state, self.k = st, 0
        elif a and a[0] is not None:
            self.state, self.k = z3.IntVal(int(a[0]) % 1000), 0      # explicit constant seed: same stream everywhere
        else:
            self.state, self.k = z3.Int(f'entropy!{next(Gen._fresh)}'), 0   # fresh OS entropy: distinct from everything else
            self.reseeds += 1

    def default_rng(self, *a):
        g = Gen(None, 0, self.gid + '/rng')
        g.seed(*a)
        return g


class NPStub:
    def __init__(self, world):
        self.w = world

    @property
    def random(self):
        return self.w.current_gen

    def __getattr__(self, k):
        import numpy
        return getattr(numpy, k)


class FileObj:
    def __init__(self, w, path, mode):
        self.w, self.path, self.mode = w, str(path), mode
        self.pos = 0
        if 'w' in mode:
            w.fs[self.path] = ''

    def write(self, s):
        self.w.fs[self.path] = self.w.fs.get(self.path, '') + s
        self.w.writes.append((self.path, s))

    def read(self):
        t = self.w.fs[self.path][self.pos:]
        self.pos = len(self.w.fs[self.path])
        return t

    def readline(self):
        t = self.w.fs[self.path]
        i = t.find('\n', self.pos)
        j = len(t) if i < 0 else i + 1
        ln = t[self.pos:j]
        self.pos = j
        return ln

    def readlines(self):
        return self.read().splitlines(keepends=True)

    def __iter__(self):
        while True:
            ln = self.readline()
            if not ln:
                return
            yield ln

    def writelines(self, lines):
        for ln in lines:
            self.write(ln)

    def flush(self):
        pass

    def close(self):
        pass

    def seek(self, pos, whence=0):
        self.pos = pos if whence == 0 else (self.pos + pos if whence == 1 else len(self.w.fs.get(self.path, '')) + pos)
        return self.pos

    def tell(self):
        return self.pos

    @property
    def name(self):
        return self.path

    def __enter__(self):
        return self

    def __exit__(self, *a):
        return False


class MCWorld:
    def __init__(self, outputs, found_flags, fail_flag, base_input='Base Parameter, 1\n'):
        self.fs = {'/w/base_input.txt': base_input}
        self.writes = []
        self.parent_gen = Gen(z3.Int('parent_state'), 0, 'parent')
        self.current_gen = self.parent_gen
        self.outputs = outputs
        self.found = found_flags       # list of bool/SymBool-decided: is output i found (exactly once) in the report
        self.fail = fail_flag
        self.uuid_n = itertools.count()
        self.unlinked = []
        self.sim_inputs = []           # what the simulation was given (text of the temp input file)
        self.value_tokens = {}
        self.discrete = False
        Gen.discrete_world = self

    # --- stubs ------------------------------------------------------------------------------------------------
    def open(self, path, mode='r', *a, **k):
        if 'r' in mode and str(path) not in self.fs:
            raise FileNotFoundError(str(path))
        return FileObj(self, path, mode)

    def copyfile(self, a, b):
        self.fs[str(b)] = self.fs[str(a)]

    def simulate(self, input_path, kind):
        """simulation client stub: reads the temp input file, fails or writes a report with one line per found output."""
        text = self.fs[str(input_path)]
        self.sim_inputs.append(text)
        if self.fail:
            raise RuntimeError('simulated run failed (out-of-range sample)')
        out = f'/w/report_{next(self.uuid_n)}.out'
        lines = ['                 ***CASE REPORT***\n']
        for i, o in enumerate(self.outputs):
            if self.found[i]:
                tok = f'⟦value{len(self.sim_inputs) - 1}.{i}⟧'
                if self.discrete:
                    # a deterministic simulator: the figure is a function of the input it was given
                    import zlib
                    body = '\n'.join(ln for ln in text.splitlines() if not ln.lstrip().startswith('#'))
                    tok = f'⟦value-of-input-{zlib.crc32(body.encode()):08x}.{i}⟧'
                self.value_tokens[tok] = (len(self.sim_inputs) - 1, i)
                lines.append(f'      {o}:      {tok} unit\n')
        self.fs[out] = ''.join(lines)

        class R:
            output_file_path = out
        return R()


def shadows(w: MCWorld):
    import pathlib
    import shutil as _sh
    import tempfile as _tf
    import uuid as _uuid

    class PathStub(type(pathlib.Path())):
        def exists(self):
            return str(self) in w.fs

        def unlink(self, *a, **k):
            w.unlinked.append(str(self))
            w.fs.pop(str(self), None)

    class ShutilStub:
        copyfile = staticmethod(w.copyfile)

    class TempStub:
        @staticmethod
        def gettempdir():
            return '/w/tmp'

    class UuidVal(str):
        """str(uuid) is a unique name; .int is a fresh non-negative solver integer, pairwise distinct from every other uuid's."""
        @property
        def int(self):
            if not hasattr(self, '_int'):
                v = z3.Int(f'{self}.int')
                c = core.ctx()
                c.add_assume(v >= 0)
                for u in w.__dict__.setdefault('uuid_ints', []):
                    c.add_assume(v != u)
                w.uuid_ints.append(v)
                self._int = core.SymReal(z3.ToReal(v))
            return self._int

        @property
        def hex(self):
            return str(self)

    class UuidStub:
        @staticmethod
        def uuid4():
            return UuidVal(f'uuid{next(w.uuid_n)}')

        @staticmethod
        def uuid1():
            return UuidVal(f'uuid{next(w.uuid_n)}')

    class GClient:
        def __init__(self, *a, **k):
            pass

        def get_geophires_result(self, params):
            return w.simulate(params.as_file_path(), 'geophires')

    class HClient:
        def __init__(self, *a, **k):
            pass

        def get_hip_ra_result(self, params):
            return w.simulate(params.as_file_path(), 'hip')

    class Params:
        def __init__(self, from_file_path=None, file_path_or_params_dict=None, **k):
            self.p = from_file_path or file_path_or_params_dict

        def as_file_path(self):
            return self.p

    class LockerStub:
        def __init__(self, filePath=None, lockPass=None, timeout=None, mode='a', **k):
            self.path, self.mode = filePath, mode

        def __enter__(self):
            return True, 0, FileObj(w, self.path, self.mode)

        def __exit__(self, *a):
            return False

    class LoggerStub:
        def __getattr__(self, k):
            return lambda *a, **kw: None
    binds = [(MC, 'np', NPStub(w)), (MC, 'open', w.open), (MC, 'Path', PathStub), (MC, 'shutil', ShutilStub), (MC, 'tempfile', TempStub),
             (MC, 'uuid', UuidStub), (MC, 'GeophiresXClient', GClient), (MC, 'HipRaXClient', HClient), (MC, 'HipRaClient', HClient),
             (MC, 'GeophiresInputParameters', Params), (MC, 'HipRaInputParameters', Params), (MC, 'Locker', LockerStub),
             (MC, 'print', lambda *a, **k: None), (MC, '_get_logger', lambda *a, **k: LoggerStub()), (MC, 'logger', LoggerStub()),
             (MC, 'float', _float), (MC, 'int', _int), (MC, 'exit', _exit)]
    return binds


def _float(x=0.0):
    return builtins.float(x)


def _int(x=0, *a):
    return builtins.int(x, *a)


class SimExit(Exception):
    pass


def _exit(code=0):
    raise SimExit(code)


def make_args(code='GEOPHIRESv3.py'):
    return argparse.Namespace(Code_File='/x/' + code, Input_file='/w/base_input.txt', MC_Settings_file='/w/settings.txt', MC_OUTPUT_FILE='/w/MC_Result.txt')
