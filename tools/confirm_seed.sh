#!/bin/sh
# usage: tools/confirm_seed.sh <Cxx> <mutName> [base_patch]
# Confirms a seeded change in a scratch worktree of /repo HEAD: patch applies, demo passes without / fails with, test failure set unchanged.
ID="$1"; MUT="$2"; BASE="$3"
SRC=${SEED_SRC:-/tmp/wt/out}/$ID/$MUT
WT=/tmp/seedwt_${ID}_${MUT}
OUT=/verif/seeded/${ID}-${MUT}
rm -rf "$WT"; git -C /repo worktree add --detach "$WT" HEAD -q || exit 9
mkdir -p "$OUT"
cd "$WT"
if [ -n "$BASE" ]; then git apply "$BASE" || { echo "base patch does not apply"; }; fi
PYTHONPATH=$WT/src /venv/bin/python "$SRC/demo.py" > "$OUT/demo_clean.log" 2>&1; D0=$?
PYTHONPATH=$WT/src /venv/bin/python -m pytest -q -p no:cacheprovider --timeout=900 --continue-on-collection-errors 2>&1 | grep -E "^(FAILED|ERROR)" | sort -u > "$OUT/tests_clean.txt"
rm -f -- "$WT/-q"
git apply "$SRC/patch.diff" || { echo "PATCH DOES NOT APPLY to current HEAD"; APPLY=0; }
PYTHONPATH=$WT/src /venv/bin/python "$SRC/demo.py" > "$OUT/demo_patched.log" 2>&1; D1=$?
PYTHONPATH=$WT/src /venv/bin/python -m pytest -q -p no:cacheprovider --timeout=900 --continue-on-collection-errors 2>&1 | grep -E "^(FAILED|ERROR)" | sort -u > "$OUT/tests_patched.txt"
rm -f -- "$WT/-q"
if cmp -s "$OUT/tests_clean.txt" "$OUT/tests_patched.txt"; then SAME=true; else SAME=false; fi
cp "$SRC/patch.diff" "$OUT/patch.diff"; cp "$SRC/demo.py" "$OUT/demo.py"; cp "$SRC/meta.json" "$OUT/author_meta.json"
[ -n "$BASE" ] && cp "$BASE" "$OUT/base_repair.diff"
echo "{\"property\": \"$ID\", \"name\": \"$MUT\", \"demo_exit_clean\": $D0, \"demo_exit_patched\": $D1, \"test_failure_set_identical\": $SAME, \"repo_head\": \"$(git -C /repo rev-parse --short HEAD)\"}" > "$OUT/confirm.json"
cat "$OUT/confirm.json"
cd /; git -C /repo worktree remove --force "$WT"
