"""C02, district-heating part: the real SurfacePlantDistrictHeating.Calculate / calc_util_factor with the hard-coded 365-day
loop cut to D modelled days (range shadowed in that module — stated bound)."""
from __future__ import annotations

import builtins

import numpy as np
import z3

from .. import core, econ, harness, shim
from ..core import eq, sand, sor, snot, SymReal, SymBool
from . import c05

from geophires_x import SurfacePlantDistrictHeating as DH
from geophires_x import SurfacePlant as SPm

BOUNDS = {'quick': [(2, 1, 2)], 'thorough': [(2, 1, 2), (2, 2, 2), (2, 1, 3), (3, 1, 2)]}   # (L, T, D)


def units(tier):
    return [{'harness': 'district-heating', 'L': L, 'T': T, 'D': D, 'eu': 2, 'pt': 7} for (L, T, D) in BOUNDS[tier]]


def _range_for(D):
    def r(*a):
        if a == (0, 365):
            return builtins.range(0, D)
        return builtins.range(*a)
    return r


_PREP = {}


def prepared(cfg):
    key = (cfg['L'], cfg['T'])
    if key not in _PREP:
        _PREP[key] = econ.Prepared({'eu': 2, 'pt': 7, 'em': 2, 'L': cfg['L'], 'K': 1, 'T': cfg['T']})
    return _PREP[key]


def spec(cfg):
    N = cfg['L'] * cfg['T']
    s = [(f'wellbores.ProducedTemperature[{i}]', 'real', 30, 500) for i in range(N)]
    s += [(f'wellbores.PumpingPower[{i}]', 'real', 0, 100) for i in range(N)]
    s += [('wellbores.Tinj', 'real', 0, 200), ('wellbores.prodwellflowrate', 'real', 1, 500), ('wellbores.nprod', 'real', 1, 200),
          ('reserv.cpwater', 'real', 3000, 6000), ('reserv.InitialReservoirHeatContent', 'real', 0, 1e6),
          ('surfaceplant.enduse_efficiency_factor', 'real', 0.1, 1)]
    s += [(f'demand[{j}]', 'real', 0, 1e5) for j in range(cfg['D'])]
    return s


def drive(cfg, vals, symbolic):
    D = cfg['D']
    m = prepared(cfg).reset()
    v = {k: x for k, x in vals.items() if not k.startswith('demand[')}
    econ.install(m, v)
    dem = np.empty(365, dtype=object)
    dem[...] = 0.0
    for j in range(D):
        dem[j] = vals[f'demand[{j}]']
    m.surfaceplant.daily_heating_demand.value = dem.view(core.SymArray) if symbolic else np.array([float(x) for x in dem])
    binds = [(DH, 'range', _range_for(D))]
    if symbolic:
        binds += [(DH, 'np', c05.NPW), (SPm, 'np', c05.NPW)]
    with shim.shadow(*binds):
        m.surfaceplant.Calculate(m)
    return m


def interp_ref(series, t, T):
    """linear interpolation of a series sampled every 1/T year at time t (concrete t)."""
    xp = [k / T for k in range(len(series))]
    if t <= xp[0]:
        return series[0]
    for k in range(1, len(xp)):
        if t <= xp[k]:
            return series[k - 1] + (series[k] - series[k - 1]) * (t - xp[k - 1]) / (xp[k] - xp[k - 1])
    return series[-1]


def obligations(cfg, m, v):
    from .c02 import ref_integral
    sp = m.surfaceplant
    L, T, D = cfg['L'], cfg['T'], cfg['D']
    N = L * T
    n, md, cp = v['wellbores.nprod'], v['wellbores.prodwellflowrate'], v['reserv.cpwater']
    eta = v['surfaceplant.enduse_efficiency_factor']
    Tprod = [v[f'wellbores.ProducedTemperature[{i}]'] for i in range(N)]
    Pump = [v[f'wellbores.PumpingPower[{i}]'] for i in range(N)]
    HE, HP = list(sp.HeatExtracted.value), list(sp.HeatProduced.value)
    out = []
    for i in range(N):
        out.append((f'heat extracted[{i}] = n x mdot x cp x (Tprod - Tinj)/1e6', eq(HE[i], n * md * cp * (Tprod[i] - v['wellbores.Tinj']) / 1E6)))
        out.append((f'useful heat[{i}] = efficiency x heat extracted', eq(HP[i], eta * HE[i])))
    geo, peak = sp.dh_geothermal_heating.value, sp.dh_natural_gas_heating.value
    ufa = list(sp.util_factor_array.value)
    for y in range(L):
        gsum = 0.0
        dsum = 0.0
        psum = 0.0
        for j in range(D):
            idx = y * 365 + j
            deliv = interp_ref(HP, y + j / 365, T)
            dem = v[f'demand[{j}]'] / 24
            out.append((f'district heating day {j} of year {y}: geothermal + peaking supply = demand', eq(geo[idx] + peak[idx], dem)))
            out.append((f'district heating day {j} of year {y}: geothermal supply never exceeds what the wells deliver', _le(geo[idx], deliv)))
            out.append((f'district heating day {j} of year {y}: peaking supply is never negative', _le(0.0, peak[idx])))
            gsum, dsum, psum = gsum + geo[idx], dsum + deliv, psum + peak[idx]
        out.append((f'annual peaking-fuel demand of year {y} = 24 x sum of the daily peaking supply', eq(sp.annual_ng_demand.value[y], psum * 24)))
        out.append((f'utilisation factor of year {y} x heat delivered = geothermal heat used', eq(ufa[y] * dsum, gsum)))
        for name, series in (('HeatkWhExtracted', HE), ('PumpingkWh', Pump), ('HeatkWhProduced', HP)):
            out.append((f'{name}[{y}] = integral of the reported power over year {y} x that year\'s utilisation',
                        eq(getattr(sp, name).value[y], ref_integral(series, y, T, ufa[y]))))
    acc = 0.0
    for y in range(L):
        acc = acc + sp.HeatkWhExtracted.value[y]
        out.append((f'remaining reservoir heat[{y}] = initial - cumulative extracted heat',
                    eq(sp.RemainingReservoirHeatContent.value[y], v['reserv.InitialReservoirHeatContent'] - acc * 3600 * 1E3 / 1E15)))
    return out


def _le(a, b):
    if core.is_sym(a) or core.is_sym(b):
        return SymBool(core.lift(a) <= core.lift(b))
    return float(a) <= float(b) + 1e-9 * max(1.0, abs(float(b)))


def concrete(cfg, inputs, only=None):
    vals = econ.concrete_vals(spec(cfg), inputs)
    try:
        m = drive(cfg, vals, symbolic=False)
        obs = obligations(cfg, m, vals)
    except (ZeroDivisionError, FloatingPointError) as e:
        return False, {'note': repr(e)}
    bad = [n for n, ok in obs if not ok and (only is None or n == only)]
    return bool(bad), {'failed': bad[:5], 'util_factor_array': [float(x) for x in m.surfaceplant.util_factor_array.value],
                       'annual_ng_demand': [float(x) for x in m.surfaceplant.annual_ng_demand.value]}


def run_unit(unit):
    cfg = {k: v for k, v in unit.items() if k != 'tier'}
    sp = spec(cfg)
    log = harness.UnitLog(cfg)
    prepared(cfg)

    def fn():
        vals, zv = _make(sp)
        m = drive(cfg, vals, symbolic=True)
        return zv, obligations(cfg, m, vals)
    k = 0
    for pr in core.explore(fn, max_paths=5000, catch=(ZeroDivisionError,)):
        log.path(pr)
        k += 1
        if pr.aborted or pr.error is not None:
            continue
        zv, obs = pr.value
        if k <= 4:
            harness.reachable(log, pr.ctx, 2000)
        for name, cond in obs:
            harness.discharge(log, pr.ctx, name, cond, zv, lambda inp, name=name: concrete(cfg, inp, only=name), timeout_ms=20000, sample=(k == 1))
    yield log.result()


def _make(sp):
    vals, zv = {}, {}
    for name, kind, lo, hi in sp:
        vals[name] = core.sym(name, lo, hi)
        zv[name] = z3.Real(name)
    return vals, zv
