#!/bin/sh
# usage: tools/round5.sh <Cxx> [mut...]  - confirm the round-5 changes of one property (from /tmp/wt5/out) and run the property's quick check on each
ID="$1"; shift
MUTS="${*:-mutI mutJ}"
cd /verif
for M in $MUTS; do
  [ -f /tmp/wt5/out/$ID/$M/patch.diff ] || { echo "$ID $M: no patch"; continue; }
  SEED_SRC=/tmp/wt5/out tools/confirm_seed.sh "$ID" "$M"
  tools/seed_matrix.sh quick "$ID-$M"
done
