"""C19 — the published parameter schema matches what the simulator accepts (DESIGN §4 C19)."""
from __future__ import annotations

import contextlib
import io
import json
import math
import os

import z3

from .. import core, gx, harness, shim
from ..core import SymFP, SymReal
from . import c07

import geophires_x_schema_generator as SG

P = gx.P
ID = 'C19'
FUNCTIONS = ['geophires_x_schema_generator:GeophiresXSchemaGenerator.get_parameter_sources', 'geophires_x_schema_generator:GeophiresXSchemaGenerator.generate_json_schema',
             'geophires_x_schema_generator:GeophiresXSchemaGenerator.get_result_json_schema', 'geophires_x.Parameter:ReadParameter']
UNIT_TIMEOUT = {'quick': 240, 'thorough': 900}
META = {
    'explanation': 'The real generator produces the request / result schemas; every class of the package that owns a ParameterDict is '
                   'instantiated and its live parameter objects are the reference for "what the simulator accepts". Name sets are compared '
                   'exhaustively. For every parameter that all accepting classes define identically the real ReadParameter is executed '
                   'with the value an exact IEEE double (z3 Float64) / integer proxy and z3 decides for ALL values: the reader accepts v '
                   'iff the schema\'s [minimum, maximum] (resp. allowed set) accepts v (default sentinel aside); type, default and unit are '
                   'compared with the live objects; the committed JSON files are compared with the generated ones; every result-schema '
                   'field must be a label the report writer can print (labels collected from the symbolic writer runs of C09).',
    'bounds': {t: {'parameter sources': '32 classes + HIP-RA-X', 'values': 'all doubles / all integers'} for t in ('quick', 'thorough')},
    'outside': ['parameters deliberately redefined by specialised modules with different defaults / bounds (detected at run time; the flat schema cannot be exact for them)',
                'documentation (.rst) generation'],
    'assumptions': ['JSON-schema acceptance of a number v is minimum <= v <= maximum'],
    'stubs': ['Parameter.float / int -> proxy-aware (as C07)'],
}


def sources():
    out = []
    for modn, clsn in gx.SOURCE_CLASSES:
        obj, model, mod = gx.make_source(modn, clsn)
        out.append((clsn, obj))
    return out


def sig(p):
    dv = getattr(p, 'DefaultValue', None)
    if isinstance(dv, float) and math.isnan(dv):
        dv = 'nan'
    ar = getattr(p, 'AllowableRange', None)
    return (type(p).__name__, repr(getattr(p, 'Min', None)), repr(getattr(p, 'Max', None)), repr(dv), repr(list(ar)) if ar is not None else None,
            str(getattr(p.CurrentUnits, 'value', p.CurrentUnits)), p.json_parameter_type)


# ---- the published definitions do not depend on the host the generator (or the simulator) happens to run on ---------------------------------
def _definitions(obj):
    out = {}
    for k, p in obj.ParameterDict.items():
        out[k] = tuple(repr(getattr(p, a, None)) for a in ('Name', 'DefaultValue', 'Min', 'Max', 'AllowableRange', 'PreferredUnits', 'CurrentUnits', 'Required', 'json_parameter_type'))
    return out


def run_environment(unit):
    """every parameter source class is constructed in a SYMBOLIC host environment: each look-up of an executable on PATH (shutil.which) and of an
    environment variable (os.environ.get / os.getenv) answers 'absent' or 'present' as the solver chooses, per call.  The parameter definitions
    (names, defaults, bounds, units) the class declares - what the schema generator publishes and what the reader enforces - must be the same in
    every such environment."""
    import os as _os
    import shutil as _shutil
    modn, clsn = unit['module'], unit['cls']
    cfg = {'harness': 'host-environment', 'class': clsn}
    log = harness.UnitLog(cfg)
    base_obj, _, _ = gx.make_source(modn, clsn)
    base = _definitions(base_obj)
    real_which, real_getenv, real_env_get = _shutil.which, _os.getenv, _os.environ.get
    asked = []

    def build(choice):
        """choice(kind, key) -> bool ('present')"""
        def which(cmd, *a, **k):
            return ('/opt/host/bin/' + str(cmd)) if choice('executable on PATH', str(cmd)) else None

        def getenv(key, default=None):
            if str(key).upper().startswith(('GEOPHIRES', 'TOUGH', 'HIP_RA', 'SUTRA')) or key in asked_env:
                return ('/opt/host/' + str(key)) if choice('environment variable', str(key)) else default
            return real_getenv(key, default)
        asked_env = set()
        with shim.shadow((_shutil, 'which', which), (_os, 'getenv', getenv)):
            obj, _, _ = gx.make_source(modn, clsn)
        return _definitions(obj)

    def fn():
        n = {'k': 0}

        def choice(kind, key):
            n['k'] += 1
            nm = f'{kind} "{key}" present (look-up {n["k"]})'
            asked.append(nm)
            return bool(core.symbool(nm))
        return build(choice)

    def concrete(inp):
        n = {'k': 0}

        def choice(kind, key):
            n['k'] += 1
            return bool(inp.get(f'{kind} "{key}" present (look-up {n["k"]})', False))
        got = build(choice)
        diff = {k: (base.get(k), got.get(k)) for k in set(base) | set(got) if base.get(k) != got.get(k)}
        return bool(diff), {'definitions that differ from the ones declared on a host where nothing is found': {k: v for k, v in list(diff.items())[:3]}}
    k = 0
    for pr in core.explore(fn, max_paths=64, catch=(Exception,)):
        log.path(pr)
        k += 1
        if pr.aborted:
            continue
        if pr.error is not None:
            raise pr.error
        got = pr.value
        harness.reachable(log, pr.ctx, 500)
        zv = {nm: z3.Bool(nm) for nm in asked}
        harness.discharge(log, pr.ctx, f'{clsn}: the declared parameter definitions (defaults, bounds, units) are the same whatever executables / environment variables the host has',
                          got == base, zv, concrete, sample=(k == 1))
    yield log.result()



def run_names(unit):
    cfg = {'harness': 'name-sets-and-files'}
    log = harness.UnitLog(cfg)
    gen = SG.GeophiresXSchemaGenerator()
    with contextlib.redirect_stdout(io.StringIO()):
        req, res = gen.generate_json_schema()
    accepted = {}
    for clsn, obj in sources():
        for p in obj.ParameterDict.values():
            accepted.setdefault(p.Name, []).append(clsn)
    schema_names = set(req['properties'])
    missing = sorted(set(accepted) - schema_names)
    extra = sorted(schema_names - set(accepted))
    log['paths'] += 1
    log['reachable'] += 1

    def rec(name, ok, detail, finding=None):
        log['obligations'] += 1
        if ok:
            log['discharged'] += 1
        else:
            log['cex'].append({'obligation': name, 'finding': finding, 'config': cfg, 'reproduced': True, 'inputs': {}, 'detail': detail,
                               'how': 'exhaustive comparison of finite sets', 'attempts': []})
    known_missing = set(KNOWN_MISSING)
    new_missing = [n for n in missing if n not in known_missing]
    rec('no parameter accepted by a simulator class is missing from the request schema', not new_missing,
        {'missing': new_missing[:20], 'accepted by': {n: accepted[n] for n in new_missing[:10]}})
    if [n for n in missing if n in known_missing]:
        rec('no parameter accepted by a simulator class is missing from the request schema [region: the recorded list of names]', False,
            {'missing (recorded)': [n for n in missing if n in known_missing]}, finding='C19-schema-misses-unenumerated-sources')
    rec('the request schema lists no parameter that no simulator class accepts', not extra, {'extra': extra[:20]})
    # names a reader looks up in the input although no parameter carries them (aliases moved onto a parameter before reading): accepted, so they
    # belong in the schema.  Recorded by running every real read_parameters on a dictionary that logs the keys it is asked for.
    try:
        asked = {}
        for modn, clsn in gx.SOURCE_CLASSES:
            objx, modelx, _ = gx.make_source(modn, clsn)
            rec_d = _RecordingDict({'Print Output to Console': P.ParameterEntry(Name='Print Output to Console', sValue='0', raw_entry='Print Output to Console, 0')})
            modelx.InputParameters = rec_d
            try:
                with contextlib.redirect_stdout(io.StringIO()):
                    objx.read_parameters(modelx)
            except Exception:
                pass
            for kx in rec_d.asked:
                asked.setdefault(kx, set()).add(clsn)
        aliases = sorted(k for k in asked if isinstance(k, str) and k not in accepted and k not in schema_names and not k.startswith('Units:'))
        new_alias = [a for a in aliases if a not in KNOWN_ALIASES]
        rec('no reader accepts an input name that the request schema does not list (aliases looked up by name)', not new_alias,
            {'names looked up by a reader, carried by no parameter and absent from the schema': new_alias[:10], 'looked up by': {a: sorted(asked[a]) for a in new_alias[:5]}})
        if [a for a in aliases if a in KNOWN_ALIASES]:
            rec('no reader accepts an input name that the request schema does not list [region: the recorded deprecated alias]', False,
                {'aliases (recorded)': [a for a in aliases if a in KNOWN_ALIASES]}, finding='C19-deprecated-alias-not-in-schema')
    except Exception as e:
        log.note(f'alias scan skipped: {type(e).__name__} {str(e)[:100]}')
    # the schema is a function of the code, not of what was run before in the process: generate it again after real models have read
    # non-default inputs (list-valued and segment parameters included) and compare
    try:
        for params in ({'Reservoir Model': 4, 'Number of Segments': 2, 'Gradient 1': 70, 'Gradient 2': 40, 'Thickness 1': 1.5, 'Reservoir Depth': 4,
                        'End-Use Option': 2, 'Power Plant Type': 9, 'Plant Lifetime': 7, 'Fracture Shape': 2, 'Print Output to Console': 0},
                       {'Reservoir Model': 3, 'Gradient 1': 65, 'End-Use Option': 1, 'Power Plant Type': 1, 'Plant Lifetime': 9, 'Economic Model': 3,
                        'Print Output to Console': 0}):
            with contextlib.redirect_stdout(io.StringIO()):
                gx.make_model(params)
        with contextlib.redirect_stdout(io.StringIO()):
            req2, res2 = SG.GeophiresXSchemaGenerator().generate_json_schema()
        changed = [k for k in set(req['properties']) | set(req2['properties']) if req['properties'].get(k) != req2['properties'].get(k)]
        rec('the generated request schema does not depend on the runs performed earlier in the process', not changed,
            {'entries that changed after two ordinary runs': changed[:10],
             'before / after': {k: [json.dumps(req['properties'].get(k))[:200], json.dumps(req2['properties'].get(k))[:200]] for k in changed[:3]}})
        rec('the generated result schema does not depend on the runs performed earlier in the process', json.dumps(res, sort_keys=True, default=str) == json.dumps(res2, sort_keys=True, default=str), {})
    except Exception as e:
        log.note(f'schema-after-runs comparison skipped: {type(e).__name__} {str(e)[:100]}')
    # committed files equal the generated ones
    d = os.path.dirname(SG.__file__)
    for fn, generated in (('geophires-request.json', req), ('geophires-result.json', res)):
        with open(os.path.join(d, fn)) as f:
            committed = json.load(f)
        same = json.loads(json.dumps(generated)) == committed
        diff = []
        if not same:
            gp, cp = generated.get('properties', {}), committed.get('properties', {})
            diff = [k for k in set(gp) | set(cp) if gp.get(k) != cp.get(k)][:10]
        rec(f'the committed {fn} equals the generated schema', same, {'first differing entries': diff})
    try:
        import geophires_x_schema_generator as sg2
        hgen = getattr(sg2, 'HipRaXSchemaGenerator', None)
        if hgen is not None:
            with contextlib.redirect_stdout(io.StringIO()):
                hreq, _ = hgen().generate_json_schema()
            with open(os.path.join(d, 'hip-ra-x-request.json')) as f:
                committed = json.load(f)
            rec('the committed hip-ra-x-request.json equals the generated schema', json.loads(json.dumps(hreq)) == committed, {})
    except Exception as e:
        log.note(f'HIP-RA-X schema comparison skipped: {type(e).__name__}')
    # result schema: every field named there is one the client extracts (its own extraction table, per category)
    try:
        from geophires_x_client.geophires_x_result import GeophiresXResult as _GR
        table = {cat: {(f if isinstance(f, str) else f.field_name) for f in fields} for cat, fields in _GR._RESULT_FIELDS_BY_CATEGORY.items()}
        for which, schema in (('generated', res), ('committed', json.load(open(os.path.join(d, 'geophires-result.json'))))):
            stray = [f'{cat} / {field}' for cat, spec in schema.get('properties', {}).items() for field in spec.get('properties', {})
                     if field not in table.get(cat, set())]
            rec(f'every field named in the {which} result schema is one the client extracts from a report (same category of its extraction table)',
                not stray, {'fields the client does not extract': stray[:20]})
            lost = [f'{cat} / {field}' for cat, fields in table.items() for field in fields
                    if field not in schema.get('properties', {}).get(cat, {}).get('properties', {})]
            rec(f'every field the client extracts is named in the {which} result schema', not lost, {'fields missing from the schema': lost[:20]})
    except Exception as e:
        log.note(f'result-schema / client table comparison skipped: {type(e).__name__} {e}')
    # result schema: every field is a label the writer can print
    try:
        from . import c09
        labels = c09.all_writer_labels('quick')
    except Exception as e:
        labels = None
        log.note(f'writer labels unavailable: {type(e).__name__} {e}')
    if labels:
        never = []
        for cat, spec in res['properties'].items():
            for field in spec.get('properties', {}):
                if field not in labels and not any(field in lab or lab in field for lab in labels):
                    never.append(f'{cat} / {field}')
        log.note(f'result-schema fields not printed by any explored writer path (other configuration families / legacy): {len(never)}')
        log.d['unprinted_result_fields'] = never[:60]
    yield log.result()


# names accepted by classes the generator does not enumerate (surveyed on the pinned tree; recorded finding, see known_findings.json)
KNOWN_ALIASES = ['Total Nonvertical Length']      # deprecated spelling that WellBores.read_parameters moves onto 'Nonvertical Length per Multilateral Section'


class _RecordingDict(dict):
    """an InputParameters dictionary that logs every key a reader asks for."""

    def __init__(self, *a, **k):
        super().__init__(*a, **k)
        self.asked = set()

    def __contains__(self, k):
        self.asked.add(k)
        return super().__contains__(k)

    def __getitem__(self, k):
        self.asked.add(k)
        return super().__getitem__(k)

    def get(self, k, *a):
        self.asked.add(k)
        return super().get(k, *a)

    def pop(self, k, *a):
        self.asked.add(k)
        return super().pop(k, *a)

    def setdefault(self, k, *a):
        self.asked.add(k)
        return super().setdefault(k, *a)


KNOWN_MISSING = [
    'Absorption Chiller COP', 'Heat Pump COP', 'District Heating Demand Option', 'District Heating Demand File Name', 'District Heating Demand Data Time Resolution',
    'District Heating Demand Data Column Number', 'Temperature File Name', 'Temperature Data Column Number', 'Number of Housing Units', 'US Census Division',
    'Constant Anchor Demand', 'Reservoir Output File Name', 'HTML Output File', 'Improved Text Output File', 'Print Output to Console', 'WACC',
    'S-DAC-GT CAPEX', 'S-DAC-GT CAPEX Multiplier', 'S-DAC-GT CO2 Intensity of Electricity', 'S-DAC-GT CO2 Intensity of Natural Gas',
    'S-DAC-GT CO2 Percent Energy Devoted To Process', 'S-DAC-GT CO2 Storage Cost', 'S-DAC-GT CO2 Transportation Cost', 'S-DAC-GT Electrical Energy',
    'S-DAC-GT Natural Gas Energy Density', 'S-DAC-GT Natural Gas Price', 'S-DAC-GT OPEX', 'S-DAC-GT OPEX Multiplier', 'S-DAC-GT Thermal Energy',
    'S-DAC-GT Thermal Energy Multiplier',
]


KNOWN_DEFAULT_MISMATCH = ['Absorption Chiller Capital Cost', 'Absorption Chiller O&M Cost', 'CHP Electrical Plant Cost Allocation Ratio', 'Reservoir Thickness',
                          'Reservoir Width', 'SUTRA Annual Heat File Name', 'SUTRA Balance and Storage Well Output File Name', 'SUTRA Heat Budget File Name',
                          'TOUGH2 Model/File Name', 'Number of Multilateral Sections']
# schema bound rounded by the generator's floating-point clean-up ('.0000' in '1.000001' -> '1.0')
KNOWN_BOUND_MISMATCH = ['Maximum Drawdown']


def run_bounds(unit):
    """reader accepts v  <=>  schema [minimum, maximum] accepts v, for every identically defined parameter and ALL values."""
    a, b = unit['slice']
    gen = SG.GeophiresXSchemaGenerator()
    with contextlib.redirect_stdout(io.StringIO()):
        req, _ = gen.generate_json_schema()
    defs = {}
    for clsn, obj in sources():
        for p in obj.ParameterDict.values():
            defs.setdefault(p.Name, []).append((clsn, p))
    names = sorted(n for n in defs if n in req['properties'])[a:b]
    for name in names:
        group = defs[name]
        sigs = {sig(p) for _, p in group}
        cfg = {'harness': 'bounds', 'param': name, 'classes': [c for c, _ in group][:6]}
        log = harness.UnitLog(cfg)
        if len(sigs) > 1:
            log.note(f'{name}: defined differently by its classes; bound / default clause not claimed (per property)')
            log.d['differently_defined'] = log.d.get('differently_defined', []) + [name]
            log['paths'] += 1
            yield log.result()
            continue
        clsn, p0 = group[0]
        sch = req['properties'][name]
        # static clauses
        for label, ok, detail in (
                ('type', sch.get('type') == p0.json_parameter_type, {'schema': sch.get('type'), 'live': p0.json_parameter_type}),
                ('units', sch.get('units') == (p0.CurrentUnits.value if hasattr(p0.CurrentUnits, 'value') and isinstance(p0.CurrentUnits.value, str) else None),
                 {'schema': sch.get('units'), 'live': str(p0.CurrentUnits)}),
                ('default', _same_default(sch.get('default'), getattr(p0, 'DefaultValue', None)), {'schema': sch.get('default'), 'live': repr(getattr(p0, 'DefaultValue', None))}),
                ('default (value used when the parameter is omitted)', all(_same_default(sch.get('default'), q.value) or isinstance(q.value, list) for _, q in group),
                 {'schema': sch.get('default'), 'value of a freshly constructed parameter': [repr(q.value) for _, q in group][:4]})):
            log['obligations'] += 1
            if ok:
                log['discharged'] += 1
            else:
                fid = 'C19-schema-default-differs-from-initial-value' if (label.startswith('default (value') and name in KNOWN_DEFAULT_MISMATCH) else None
                log['cex'].append({'obligation': f'schema {label} of "{name}" is the one the simulator uses', 'finding': fid, 'config': cfg, 'reproduced': True,
                                   'inputs': {}, 'detail': detail, 'how': 'comparison with the live parameter object', 'attempts': []})
        if not isinstance(p0, (P.floatParameter, P.intParameter)):
            log['paths'] += 1
            log['reachable'] += 1
            yield log.result()
            continue
        is_int = isinstance(p0, P.intParameter)
        smin, smax = _num(sch.get('minimum')), _num(sch.get('maximum'))
        modn = dict((c, m) for m, c in gx.SOURCE_CLASSES)[clsn]
        pkey = [k for k, v in c07._make(modn, clsn)[0].ParameterDict.items() if v.Name == name][0]

        def fn():
            obj, model, _ = c07._make(modn, clsn)
            prm = obj.ParameterDict[pkey]
            tok = c07.NumStr('SYMV')
            if is_int:
                tok.proxy = c07.SymIntVal(z3.ToReal(z3.Int('k')))
                prm.AllowableRange = c07.SymSet(prm.AllowableRange)
            else:
                tok.proxy = SymFP(z3.FP('v', core.FP64))
            before = prm.value
            exc = None
            try:
                with shim.shadow(*c07.param_shadows()), contextlib.redirect_stdout(io.StringIO()):
                    P.ReadParameter(P.ParameterEntry(Name=name.strip(), sValue=tok, raw_entry=f'{name}, SYMV'), prm, model)
            except ValueError as e:
                exc = e
            return prm, before, tok.proxy, exc

        def concrete(inp):
            val = inp.get('v', inp.get('k'))
            if isinstance(val, str):
                val = float(val)
            viol, detail = c07.concrete_read(modn, clsn, pkey, 'reader', '-', val)
            acc_reader = detail['raised'] is None
            if is_int:
                acc_schema = (smin is None or val >= smin) and (smax is None or val <= smax)
            else:
                acc_schema = (not math.isnan(val)) and (smin is None or val >= smin) and (smax is None or val <= smax)
            sentinel = val == p0.DefaultValue or val == p0.value
            return (acc_reader != acc_schema) and not sentinel, {'value': repr(val), 'reader accepts': acc_reader, 'schema [min,max]': [smin, smax], 'schema accepts': acc_schema}
        zv = {'k': z3.Int('k')} if is_int else {'v': z3.FP('v', core.FP64)}
        for pr in core.explore(fn, max_paths=400):
            log.path(pr)
            if pr.error is not None:
                raise pr.error
            if pr.aborted:
                continue
            prm, before, tok, exc = pr.value
            c = pr.ctx
            if core.check_sat(c.all_constraints(), 2000)[0] == 'sat':
                log['reachable'] += 1
            if is_int:
                kk = z3.ToReal(z3.Int('k'))
                sch_ok = z3.And(*([kk >= smin] if smin is not None else []), *([kk <= smax] if smax is not None else []))
                is_def = z3.Or(z3.Int('k') == int(p0.DefaultValue) if isinstance(p0.DefaultValue, int) else z3.BoolVal(False),
                               z3.Int('k') == int(before) if isinstance(before, int) and not isinstance(before, bool) else z3.BoolVal(False))
                # integer options: the schema's range must contain the allowed set and nothing the reader rejects ... when the set is contiguous
                al = sorted(int(x) for x in p0.AllowableRange)
                contiguous = al == list(range(al[0], al[-1] + 1)) if al else False
            else:
                v = tok.t
                sch_ok = z3.And(*([z3.fpLEQ(core.fpv(smin), v)] if smin is not None else []), *([z3.fpLEQ(v, core.fpv(smax))] if smax is not None else []),
                                z3.Not(z3.fpIsNaN(v)))
                is_def = z3.Or(z3.fpEQ(v, core.fpv(p0.DefaultValue)) if isinstance(p0.DefaultValue, (int, float)) else z3.BoolVal(False),
                               z3.fpEQ(v, core.fpv(before)) if isinstance(before, (int, float)) and not isinstance(before, bool) else z3.BoolVal(False))
                contiguous = True
            accepted = exc is None
            if accepted:
                prop = z3.Or(sch_ok, is_def)
                nm = f'a value of "{name}" the reader accepts is accepted by the schema bounds'
            else:
                prop = z3.Not(sch_ok) if contiguous else z3.BoolVal(True)
                nm = f'a value of "{name}" the reader rejects is rejected by the schema bounds'
            fid = 'C19-schema-bound-rounded' if name in KNOWN_BOUND_MISMATCH else None
            if is_int:
                harness.discharge(log, c, nm, prop, zv, concrete, timeout_ms=10000, finding=fid)
            else:
                n0 = len(log['cex'])
                c07._d(log, c, nm, prop, zv, concrete, is_int, sample=accepted)
                for cx in log['cex'][n0:]:
                    if fid and cx.get('finding') is None:
                        cx['finding'] = fid
                        if cx.get('reproduced'):
                            harness._CEX_SEEN[0] -= 1
        # the same with the value written in another catalogue unit: what the reader stores after conversion must satisfy the schema bounds
        if not is_int and smin is not None and smax is not None:
            for u in c07.convertible_units(p0)[:6]:
                ok, _ = c07._probe_unit(modn, clsn, pkey, u)
                if not ok:
                    continue
                cfgu = dict(cfg, unit=u)
                logu = harness.UnitLog(cfgu)

                def fnu(u=u):
                    obj, model, _ = c07._make(modn, clsn)
                    prm = obj.ParameterDict[pkey]
                    v = core.sym('v')
                    exc = None
                    try:
                        with shim.shadow(*c07.param_shadows()), contextlib.redirect_stdout(io.StringIO()):
                            P.ReadParameter(P.ParameterEntry(Name=name.strip(), sValue=f'{v!s} {u}', raw_entry=f'{name}, SYMV {u}'), prm, model)
                    except ValueError as e:
                        exc = e
                    return prm, exc

                def concu(inp, u=u):
                    obj, model, _ = c07._make(modn, clsn)
                    prm = obj.ParameterDict[pkey]
                    before = prm.value
                    try:
                        with contextlib.redirect_stdout(io.StringIO()):
                            P.ReadParameter(P.ParameterEntry(Name=name.strip(), sValue=f'{float(inp["v"])!r} {u}'), prm, model)
                    except ValueError:
                        return False, {'rejected': True}
                    after = prm.value
                    if after is before or after == before:
                        return False, {'unchanged': True}
                    return not (smin <= float(after) <= smax), {'text': f'{float(inp["v"])!r} {u}', 'stored': float(after), 'schema [min,max]': [smin, smax]}
                try:
                    for pr in core.explore(fnu, max_paths=60):
                        logu.path(pr)
                        if pr.error is not None or pr.aborted:
                            continue
                        prm, exc = pr.value
                        if exc is None and isinstance(prm.value, SymReal):
                            harness.reachable(logu, pr.ctx, 1000)
                            harness.discharge(logu, pr.ctx, f'a value of "{name}" written in {u} that the reader accepts lies, after conversion, inside the schema bounds',
                                              z3.And(prm.value.t >= core.rv(smin), prm.value.t <= core.rv(smax)), {'v': z3.Real('v')}, concu)
                except (core.Realize, core.HarnessError, TypeError):
                    pass
                yield logu.result()
                break
        yield log.result()


def _num(x):
    if isinstance(x, str):
        try:
            return float(x)
        except ValueError:
            return None
    return x


def _same_default(a, b):
    if isinstance(a, str) and isinstance(b, (int, float)) and not isinstance(b, bool):
        try:
            a = float(a)     # the generator renders some floats as text to hide binary noise (7.000000000000001 -> '7.0')
        except ValueError:
            pass
    if isinstance(b, float) and isinstance(a, (int, float)):
        return abs(float(a) - b) <= 1e-9 * max(1.0, abs(b))
    if hasattr(b, 'value') and not isinstance(b, (int, float, str, list)):
        b = b.value
    try:
        return json.loads(json.dumps(a)) == json.loads(json.dumps(b))
    except TypeError:
        return str(a) == str(b)


def units(tier, seed):
    us = [{'harness': 'names'}]
    for a in range(0, 260, 20):
        us.append({'harness': 'bounds', 'slice': (a, a + 20)})
    # 'every result field named in the result schema is one the client can extract from a report': the real writer -> real client
    # composite of C10 on the configurations that print the widest set of fields (Ramey model on / off, cogeneration, heat pump)
    from . import c09
    pick = [c for c in c09.CONFIGS['quick'] if c[0] in ('electricity', 'cogen-topping', 'heat-pump')][: (3 if tier == 'quick' else 6)]
    pick += [c for c in c09.CONFIGS['quick'] if c[4].get('ramey') is False][:1]
    pick += [c for c in c09.CONFIGS['quick'] if c[4].get('redrill')][:1]       # the redrilling lines of the capital-cost section
    seen = set()
    for (k, L, T, K, x) in pick:
        key = json.dumps([k, L, T, K, x], sort_keys=True)
        if key not in seen:
            seen.add(key)
            us.append({'harness': 'client-extracts', 'kind': k, 'L': L, 'T': T, 'K': K, 'variant': x, 'mode': 'pad'})
    # 'the bounds are the ones the simulator enforces when reading that parameter': the class-level readers (which may touch the declared
    # bounds before reading) against the declared - and hence published - bounds (units shared with C07)
    mods = [(m_, c_) for m_, c_ in gx.SOURCE_CLASSES if tier == 'thorough' or c_ in ('AGSWellBores', 'WellBores', 'Reservoir', 'SurfacePlant', 'SBTWellbores')]
    for m_, c_ in mods:
        us.append({'harness': 'class-reader', 'layer': 'module', 'module': m_, 'cls': c_, 'backgrounds': ['only-this-key'], 'slice': None})
    for m_, c_ in gx.SOURCE_CLASSES:
        us.append({'harness': 'environment', 'module': m_, 'cls': c_})
    return us


def run_unit(unit):
    if unit['harness'] == 'names':
        yield from run_names(unit)
    elif unit['harness'] == 'environment':
        yield from run_environment(unit)
    elif unit['harness'] == 'class-reader':
        yield from c07.run_unit({k: v for k, v in unit.items() if k != 'harness'})
    elif unit['harness'] == 'client-extracts':
        from . import c10
        u = {k: v for k, v in unit.items() if k != 'harness'}
        for part in c10.run_unit(u):
            # deviations recorded under C10 (known_findings.json ids 'C10-...') are reported by C10's own check; here they are neither an
            # alarm nor a finding of this property
            if isinstance(part, dict) and part.get('cex'):
                part['cex'] = [cx for cx in part['cex'] if not str(cx.get('finding') or '').startswith('C10-')]
            yield part
    else:
        yield from run_bounds(unit)


def replay(cex):
    raise NotImplementedError
